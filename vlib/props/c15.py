"""C15 — the C API honours its ownership and result contract for every call sequence.

Correspondence: call sequences over small handle tables (contexts, clones, symbols, values of every type,
expressions, executables), produced by a state-machine generator that respects the documented preconditions, are
executed through the REAL C API only by `harness/capiprobe.cpp` (ASan + UBSan + LeakSanitizer) and through the Lean
handle state machine `BlocV.CApi.step` (driver command `seq`). Both print one token per call:

    [~<slot>=<value>...!]<result>/<errno><+|->

  * result  — what the call returned / wrote to its out parameters (values are dumped through the API itself);
  * ~…!     — every library-owned pointer of the context read again just before a call that may invalidate it;
  * errno   — bloc_errno() and whether bloc_strerror() is non-empty, after EVERY call.

  impl token == model token   for every call of every sequence              else: VIOLATION
  model `hazard:*` token      the library must crash there, and the hazard must be a recorded (status known) finding
  leak=1 after the caller freed everything: every LeakSanitizer record must carry the call-site signature of a
           recorded finding of status `known` that the case is entitled to (it used the text / program of that
           finding), else VIOLATION. Repaired findings (status `fixed`: the two null accessors, the createEnv leak, and since
           C15R4 the left-operand leak of the binary operators, the IF-condition leak and the RETURN leak) entitle nothing —
           "a rejected parse leaves nothing allocated" is LeakSanitizer's verdict on the generated texts, never a theorem: a
           lost right operand at one of the operator lines of parse_expression.cpp, a leak below FunctorManager::createEnv, or a crash in bloc_literal / bloc_tabchar, is a
           violation like any other.
Memory reclamation is NOT modelled in Lean: leaks are LeakSanitizer's verdict only.
"""
import itertools
import os
import re
import subprocess
import tempfile
import time

from .. import build, core, progen, run
from ..core import Case, Check, log

# driver glue of this check (S-expression / op-word reader, token printer): `partial` is allowed there, as in
# Main.lean / Proto.lean / SExp.lean (to be added to core.PARTIAL_OK when merged)
core.PARTIAL_OK.add(os.path.join("BlocV", "DrvC15.lean"))
from ..progen import I, L, S

hx = run.hx

KF_LIT = "C15.literal_accessor_null_deref"
KF_RAW = "C15.tabchar_accessor_null_deref"
KF_EOF = "C15.parse_eof_errno_zero"
KF_MOVE = "C15.store_nulls_scalar_source"
KF_ITEM = "C15.store_frees_item_pointers"
KF_UAF = "C15.functor_context_dangling_manager"
KF_L_ENV = "C15.leak_createenv_argument_error"
KF_L_SUB = "C15.leak_sub_operand_type_error"
KF_L_IF = "C15.leak_if_condition_eof"
KF_L_RET = "C15.leak_return_eof"
KF_L_MEMB = "C15.leak_member_call_eof"

DEFAULT_FINDINGS = [
    {"property": "C15", "id": KF_LIT, "status": "fixed", "commit": "c47e94d", "site": "blocc/bloc_capi.cpp:bloc_literal",
     "witness": "seq cnew,0 vnull,0,4 accu,0,l",
     "what": "(repaired) bloc_literal() on a null string value dereferenced a null pointer (str->data() on the nullptr returned by "
             "Value::literal()) instead of returning bloc_true with *buf = NULL as documented"},
    {"property": "C15", "id": KF_RAW, "status": "fixed", "commit": "c47e94d", "site": "blocc/bloc_capi.cpp:bloc_tabchar",
     "witness": "seq cnew,0 vnull,0,6 accu,0,x",
     "what": "(repaired) bloc_tabchar() on a null bytes value dereferenced a null pointer (tc->data(), tc->size()) instead of "
             "returning bloc_true with *buf = NULL, *len = 0 as documented"},
    {"property": "C15", "id": KF_EOF, "status": "known", "site": "blocc/bloc_capi.cpp:bloc_parse_executable, bloc_parse_expression",
     "witness": "seq cnew,0 xparse,0,0,<q9 = 1>,!2,1   and   eparse,0,0,<1+1>,!5",
     "what": "a text that ends inside a statement or expression (also: an expression without a terminating newline or ';') "
             "is rejected with NULL but bloc_errno() stays 0 (EXC_PARSE_EOF = 0 = 'no error'); only bloc_strerror() = 'EOF' tells"},
    {"property": "C15", "id": KF_MOVE, "status": "known", "site": "blocc/bloc_capi.cpp:bloc_ctx_store_variable, blocc/context.cpp:storeVariable",
     "witness": "seq cnew,0 vint,0,42 reg,0,0,<I1>,2,0 store,0,0,0 vdump,0  -> N2.0",
     "what": "bloc_ctx_store_variable() documents 'if the value is allocated dynamically the payload is moved, otherwise it is "
             "copied': a boolean / integer / decimal value is NOT copied — the caller's value is a null of that type afterwards"},
    {"property": "C15", "id": KF_ITEM, "status": "known", "site": "blocc/context.cpp:storeVariable (Value::swap releases the old payload)",
     "witness": "seq cnew,0 xparse(t1 = tab(3,\"abc\")) exec load(T1)->v1 tabitem,1,1,2 vint,3,5 store(T1,v3) vdump,2 -> heap-use-after-free",
     "what": "an item pointer obtained with bloc_array_item()/bloc_tuple_item() from a loaded variable dangles after "
             "bloc_ctx_store_variable() into that variable, although store is none of the calls (parse, run, evaluate, register, "
             "purge) after which library-owned pointers may become invalid"},
    {"property": "C15", "id": KF_UAF, "status": "known", "site": "blocc/context.cpp:Context::~Context (via Functor::~Functor, functor_manager.cpp) reading _fctm->getRoot()",
     "witness": "seq cnew,0 xparse,0,0,<function f9(i7:integer) return integer is begin return i7+1; end;> cpurge,0 xfree,0    and    cnew,0 xparse(f9) cclone,0,1,2 cfree,0 cfree,1",
     "what": "heap-use-after-free: a declared function keeps a private context whose _fctm points at the function manager of the "
             "declaring context; the function object is shared (shared_ptr) with the executable that declared it and with every clone, "
             "so bloc_free_executable() after bloc_ctx_purge()/bloc_free_context() of the context, or bloc_free_context() of a clone "
             "after its original, destroys the function last and reads the deleted manager"},
    {"property": "C15", "id": KF_L_ENV, "status": "fixed", "commit": "50ff576", "site": "blocc/functor_manager.cpp:FunctorManager::createEnv",
     "witness": "function f1(a:integer) return integer is begin return a+1; end; i1 = f1(1/(2-2));",
     "what": "(repaired) a runtime error while evaluating an argument of a user function call leaked the callee context "
             "(createEnv: the context taken from the cache / created was neither released nor put back when store() threw; "
             "it is now handed back to the function's context cache)"},
    {"property": "C15", "id": KF_L_SUB, "status": "fixed", "commit": "565b1e8", "site": "blocc/parse_expression.cpp:ParseExpression::sum (also the other binary operators using assertType(result, ..., false))",
     "witness": "q9 = \"abc\" - 1;",
     "what": "a type error on the LEFT operand of a binary operator leaks the already parsed right operand "
             "(new OpSUBExpression(assertType(result,…,false), assertType(term(),…)): the right argument is evaluated first)"},
    {"property": "C15", "id": KF_L_IF, "status": "fixed", "commit": "96b2071", "site": "blocc/statement_if.cpp:IFStatement::parse",
     "witness": "if true then q9 = 1;     (text ends inside the IF block)",
     "what": "a parse error (e.g. end of text) inside the body of IF / ELSIF leaks the condition expression"},
    {"property": "C15", "id": KF_L_RET, "status": "fixed", "commit": "4ec8435", "site": "blocc/statement_return.cpp:RETURNStatement::parse",
     "witness": "return      (text ends right after the keyword)",
     "what": "end of text right after `return` leaks the RETURNStatement (p.front() throws before the try block)"},
    {"property": "C15", "id": KF_L_MEMB, "status": "known", "site": "blocc/expression_item.cpp:ItemExpression::parse, blocc/member/member_*.cpp:parse",
     "witness": "x1 = u1@1      /      u1 = t1.at(0)      (text ends right after the item / member call)",
     "what": "end of text right after `expr@n` or a member call `expr.at(..)`, `.put(..)`, … leaks the new expression node"},
]

# how a LeakSanitizer record is attributed to a finding: (finding id, predicate on the list of /repo frames, innermost first)
def _has(frames, *seq):
    n = len(seq)
    return any(tuple(frames[i:i + n]) == seq for i in range(len(frames) - n + 1))


def left_operand_sites():
    """The PATTERN of finding C15.leak_sub_operand_type_error, read from the source that is being checked: every line of
    blocc/parse_expression.cpp of the shape
        new OpXXXExpression(assertType[Uniform](result, T, p, ctx, false), assertType[Uniform](Q(), T, p, ctx))
    inside production P. The right operand is parsed (Q()) before the left one is checked; when the left check throws,
    the right operand — allocated below the call Q() on THAT line of P — is lost. -> set of (Q, P, line)"""
    sites = set()
    try:
        src = open(os.path.join(build.REPO, "blocc", "parse_expression.cpp"), encoding="latin-1").read().split("\n")
    except OSError:
        return sites
    fn = None
    for no, ln in enumerate(src, 1):
        m = re.match(r"Expression \* ParseExpression::(\w+)\(", ln)
        if m:
            fn = m.group(1)
        m = re.search(r"new Op\w+Expression\(assertType(?:Uniform)?\(result, [^()]*, false\), assertType(?:Uniform)?\((\w+)\(\),", ln)
        if m and fn:
            sites.add(("bloc::ParseExpression::" + m.group(1), "bloc::ParseExpression::" + fn, no))
        # the repaired shape: `assertType(result, T, p, ctx, false);` in a statement of its own, then
        # `new Op…Expression(result, assertType(Q(), T, p, ctx))` — still the place where a right operand would be lost
        m = re.search(r"new Op\w+Expression\(result, assertType(?:Uniform)?\((\w+)\(\),", ln)
        if m and fn and no >= 2 and re.search(r"^\s*assertType(?:Uniform)?\(result, [^()]*, false\);", src[no - 2]):
            sites.add(("bloc::ParseExpression::" + m.group(1), "bloc::ParseExpression::" + fn, no))
    return sites


_SITES = None


def at_left_operand_site(rec):
    """is this LeakSanitizer record an allocation below `Q()` called from one of the pattern's lines?"""
    global _SITES
    if _SITES is None:
        _SITES = left_operand_sites()
    fl = rec["lines"]
    return any((fl[i][0], fl[i + 1][0], fl[i + 1][1]) in _SITES for i in range(len(fl) - 1))


LEAK_SIGNATURES = [
    # repaired (status fixed): kept so that a leak at this site is named in the violation it now raises
    (KF_L_ENV, lambda fr: "bloc::FunctorManager::createEnv" in fr),
    (KF_L_IF, lambda fr: _has(fr, "bloc::ParseExpression::expression", "bloc::IFStatement::parse")),
    (KF_L_RET, lambda fr: fr[:1] == ["bloc::RETURNStatement::parse"]),
    (KF_L_MEMB, lambda fr: bool(fr) and re.match(r"bloc::(ItemExpression|Member[A-Z]+Expression)::parse$", fr[0]) is not None),
]
# KF_L_SUB is not in this list: it is identified by allocation site (at_left_operand_site) and bounded by the number of
# left-operand type errors the case provoked (meta["lsub_n"]); see judge_case

PARSE_LEAKS = {KF_L_IF, KF_L_RET, KF_L_MEMB, KF_L_SUB}

TRUNC_PROGS = [
    'function f1(a:integer, b:string) return integer is\nbegin\n  if a > 1 then return a + strlen(b); end if;\n  return 0;\nexception\n  when others then return 1;\nend;\ni1 = f1(2, "ab") + 3 * (4 - 1);\n',
    'i1 = 0;\nfor k1 in 1 to 3 step 1 loop\n  i1 = i1 + k1;\n  if i1 > 2 then break; elsif i1 == 1 then continue; else print i1 "x"; end if;\nend loop;\nwhile i1 < 10 loop i1 = i1 + 1; end loop;\n',
    'begin\n  s1 = substr("hello", 1, 2) + upper("a");\n  raise e1;\nexception\n  when e1 then print "h";\n  when others then return 1;\nend;\nreturn s1;\n',
    't1 = tab(3, tup(1, "a", 2.5));\nu1 = t1.at(0);\nx1 = u1@1;\nt1.put(1, tup(2, "b", 0.5));\nforall e in t1 loop print e@2; end loop;\n',
    'b1 = true and not false or (1 < 2) xor (3 >= 2);\nd1 = 1.5 * 2 / 4.0 - 3 ** 2 % 5;\ni2 = (1 << 3) | 4 & 7 ^ ~1;\ns2 = "a" + str(1) + chr(65);\nr1 = raw(3, 65);\nc1 = imag(1, 2);\n',
    'do strlen("x");\nprint 1 2 "s" true;\nput "x";\ntrace false;\nnop;\nlet i1 = 5;\ni1 += 1;\nx:integer = 2;\n',
    't1 = tab(2, 1);\nt1.concat(3);\ni1 = t1.count();\nt1.delete(0);\nt1.insert(0, 5);\nu1 = tup(1, "a");\nu1.set@1(2);\nt2 = t1.concat(t1).at(0);\n',
]

# 1 (default): the generated host frees executables that declare functions before purging / freeing their context, and
# frees clones before the context they were cloned from (region of finding C15.functor_context_dangling_manager).
STRICT_HOST = os.environ.get("VERIF_C15_STRICT_HOST", "1") != "0"

MAJ = {"?": 0, "B": 1, "I": 2, "D": 3, "S": 4, "O": 5, "R": 6, "U": 7, "P": 8, "C": 9}
TYPED = {"I": "I", "D": "D", "B": "B", "S": "S"}     # name prefix -> box tag
ACCS = "binlxtuc"


def leak_records(err):
    """-> [{kind, frames (names of /repo frames, innermost first), lines [(name, line)], nobj}]"""
    recs = []
    for rec in re.split(r"\n(?=(?:Direct|Indirect) leak of)", err):
        if not rec.startswith(("Direct leak", "Indirect leak")):
            continue
        kind = rec.split(" ", 1)[0]
        m = re.match(r"\w+ leak of \d+ byte\(s\) in (\d+) object\(s\)", rec)
        frames = re.findall(r"#\d+ \S+ in (.+?) (/\S+?):(\d+)", rec)
        repo = [(f.split("(")[0], int(l)) for f, p, l in frames if "/blocc/" in p and "bloc_capi" not in p]
        recs.append({"kind": kind, "frames": [f for f, _ in repo], "lines": repo, "nobj": int(m.group(1)) if m else 1})
    return recs


def run_probe(binary, lines, timeout_s=10, workers=8):
    """Run `cid seq …` lines through capiprobe with LeakSanitizer on; restart after a crash / a reported leak.
    -> dict cid -> {toks, leak, status, stderr}"""
    from concurrent.futures import ThreadPoolExecutor
    env = build.sanitizer_env()
    env["ASAN_OPTIONS"] = "abort_on_error=1:detect_leaks=1:leak_check_at_exit=0:allocator_may_return_null=1:handle_abort=1:fast_unwind_on_malloc=0:malloc_context_size=30"
    chunks = [lines[i::workers] for i in range(workers)] if len(lines) > 40 else [lines]

    def work(chunk):
        res = {}
        pos = 0
        while pos < len(chunk):
            todo = chunk[pos:]
            with tempfile.TemporaryFile() as errf:
                p = subprocess.run([binary, str(timeout_s)], input=("\n".join(todo) + "\n").encode(), stdout=subprocess.PIPE, stderr=errf, env=env)
                errf.seek(0)
                err = errf.read().decode("latin-1", "replace")
            done = 0
            for ln in p.stdout.decode("latin-1").split("\n"):
                if not ln:
                    continue
                w = ln.split(" ")
                if w[-1] == "end" and len(w) >= 3 and w[-2] == "diverges":
                    res[w[0]] = {"toks": w[1:-2], "leak": "leak=?", "status": "diverges", "stderr": ""}
                elif w[-1] == "end":
                    res[w[0]] = {"toks": w[1:-2], "leak": w[-2], "status": "end", "stderr": err if w[-2] == "leak=1" else ""}
                else:
                    res[w[0]] = {"toks": w[1:], "leak": "leak=?", "status": "crash " + run.classify_crash(err, p.returncode), "stderr": err[-3000:]}
                done += 1
            if done == 0:
                cid = todo[0].split(" ", 1)[0]
                res[cid] = {"toks": [], "leak": "leak=?", "status": "crash " + run.classify_crash(err, p.returncode), "stderr": err[-3000:]}
                done = 1
            pos += done
        return res

    out = {}
    with ThreadPoolExecutor(max_workers=len(chunks)) as ex:
        for r in ex.map(work, chunks):
            out.update(r)
    return out


# ---------------------------------------------------------------------------------------------- source rendering
_orig_lit_src = progen.lit_src


def _lit_src(v):
    """progen.lit_src + bytes, tuples and uniform tables (the model reads the same canonical text)"""
    if v.startswith("R:"):
        bs = bytes.fromhex(v[2:])
        if len(set(bs)) == 1 and bs:
            return "raw(%d, %d)" % (len(bs), bs[0])
        return "raw(%s)" % _orig_lit_src("S:" + v[2:])
    if v.startswith("U"):
        items = split_items(v[v.index("<") + 1:-1])
        return "tup(%s)" % ", ".join(_lit_src(i) for i in items)
    if v.startswith("T"):
        items = split_items(v[v.index("[") + 1:-1])
        assert items and all(i == items[0] for i in items)
        return "tab(%d, %s)" % (len(items), _lit_src(items[0]))
    return _orig_lit_src(v)


def split_items(s):
    out, depth, cur = [], 0, ""
    for ch in s:
        if ch in "([{<":
            depth += 1
        elif ch in ")]}>":
            depth -= 1
        if ch == "," and depth == 0:
            out.append(cur)
            cur = ""
        else:
            cur += ch
    if cur:
        out.append(cur)
    return out


progen.lit_src = _lit_src

# container literals: canonical text (model) — rendered as tab(n, x) / tup(...) for the library
TUP1 = "Uu0{i0,s0,d0}<I:1,S:61,D:4004000000000000>"     # '<' '>' stand for the parentheses of the canonical text
TUP2 = "Uu0{i0,b0}<I:7,B:1>"
CONTAINERS = [
    "Ti1[I:5,I:5,I:5]",
    "Ts1[S:6162,S:6162]",
    "Td1[D:3ff8000000000000]",
    TUP1, TUP2,
    "Tu1{i0,s0,d0}[%s,%s]" % (TUP1, TUP1),
    "Ti2[Ti1[I:9,I:9],Ti1[I:9,I:9]]",
    "R:414141",
]


def X(c, x, prog, pos=1):
    return "xparse,%d,%d,%s,%s,%d" % (c, x, hx(progen.program_src(prog)), hx(progen.program_sexp(prog)), pos)


def XBAD(c, x, k, src, pos=1):
    return "xparse,%d,%d,%s,!%d,%d" % (c, x, hx(src), k, pos)


def E(c, e, ex):
    return "eparse,%d,%d,%s,%s" % (c, e, hx(progen.expr_src(ex) + "\n"), hx(progen.expr_sexp(ex)))


def EBAD(c, e, k, src):
    return "eparse,%d,%d,%s,!%d" % (c, e, hx(src), k)


# a call whose argument raises (1/(2-2)) after the callee context was taken from the cache / created: the context must
# go back to the function's cache (FunctorManager::createEnv), nothing may remain allocated at the end
ARGERR_PROG = [("func", "F9", ["I7"], "i", [("return", ("bin", "ADD", ("var", "I7"), I(1)))], []),
             ("let", "I1", ("fcall", "F9", [("bin", "DIV", I(1), ("bin", "SUB", I(2), I(2)))]))]


# ---------------------------------------------------------------------------------------------- the generator
class SeqGen:
    """State-machine generator over handles. It tracks exactly what the harness tracks (liveness, ownership, which
    context / generation / epoch a handle belongs to) plus the static types of the variables it lets scripts use, so
    that the sequences respect the documented preconditions and the texts it calls valid do compile."""
    NC, NS, NV, NE, NX = 4, 8, 16, 4, 4

    def __init__(self, rng, badp, bade, maxlen, leaky=0.01, nhand=None, genp=(), gene=()):
        self.r = rng
        self.badp, self.bade = badp, bade
        # the catalogs are: hand-written entries (the last two / the last one leak: recorded findings), then the operator
        # texts the typing model rejects; genp / gene = [(catalog index, leaks?)] of the latter
        self.nhp, self.nhe = nhand if nhand else (len(badp), len(bade))
        self.genp, self.gene = list(genp), list(gene)
        self.nleaky = 0
        self.maxlen = maxlen
        self.leaky = leaky
        self.ctx = [None] * self.NC
        self.sym = [None] * self.NS
        self.val = [None] * self.NV
        self.exp = [None] * self.NE
        self.exe = [None] * self.NX
        self.clock = 1
        self.ops = []
        self.flags = set()
        self.fn = 0
        self.hot = []

    # -- bookkeeping mirrors capiprobe.cpp
    def tick(self):
        self.clock += 1
        return self.clock

    def live_ctxs(self):
        return [i for i, c in enumerate(self.ctx) if c]

    def bump(self, c):
        for i, v in enumerate(self.val):
            if v and v[0] == "lib" and v[2] == c:
                self.val[i] = None

    def kill_ctx_handles(self, c):
        for i, s in enumerate(self.sym):
            if s and s[0] == c:
                self.sym[i] = None

    def kill_box_items(self, b):
        for i, v in enumerate(self.val):
            if v and v[0] == "boxitem" and v[1] == b:
                self.val[i] = None

    def kill_ctx_items(self, c):
        for i, v in enumerate(self.val):
            if v and v[0] == "lib" and v[1] in ("item", "eval") and v[2] == c:
                self.val[i] = None

    def free_val_slot(self):
        cands = [i for i, v in enumerate(self.val) if v is None]
        if not cands:
            cands = [i for i, v in enumerate(self.val) if v[0] != "box"]
        return self.r.choice(cands) if cands else None

    def live_vals(self, pred=lambda v: True):
        return [i for i, v in enumerate(self.val) if v and pred(v)]

    def sym_ok(self, s):
        h = self.sym[s]
        return h and self.ctx[h[0]] and self.ctx[h[0]]["gen"] == h[1]

    def emit(self, op):
        self.ops.append(op)

    # -- programs
    def gen(self, funcs=False):
        g = progen.Gen(self.r, nvars=2, funcs=funcs, errors=0.1)
        return g

    def full_program(self, c):
        g = self.gen(funcs=self.r.random() < 0.35)
        prog = []
        if g.use_funcs:
            for _ in range(self.r.randint(1, 2)):
                self.fn += 1
                prog.append(g.function(self.fn))
        scope = set()
        for t in "idbs":
            for k in (1, 2):
                v = "%s%d" % (t.upper(), k)
                prog.append(("let", v, g.literal(t)))
                scope.add(v)
        for _ in range(self.r.randint(1, 4)):
            prog.append(g.stmt(2, scope, False, None))
        self.ctx[c]["typed"] |= scope
        self.ctx[c]["typed"] |= names_assigned(prog)
        return prog

    def cont_program(self, c):
        g = self.gen(False)
        scope = set(self.ctx[c]["typed"])
        prog = [g.stmt(2, scope, False, None) for _ in range(self.r.randint(1, 3))]
        self.ctx[c]["typed"] |= names_assigned(prog)
        return prog

    def template_program(self, c):
        r = self.r
        cx = self.ctx[c]
        anyn = sorted(cx["any"])
        typed = sorted(cx["typed"])
        k = r.random()
        if k < 0.25 and (anyn or typed):
            return [("return", ("var", r.choice(anyn + typed)))]
        if k < 0.40 and anyn:
            a, b = r.choice(anyn), r.choice(["A1", "A2", "A3"])
            cx["any"].add(b)
            return [("let", b, ("var", a)), ("return", ("var", b))]
        if k < 0.62:
            lit = r.choice(CONTAINERS)
            n = r.choice(["A1", "A2", "A3"])
            prog = r.choice([[("let", n, L(lit))], [("return", L(lit))], [("let", n, L(lit)), ("return", ("var", n))]])
            if prog[0][0] == "let":
                cx["any"].add(n)
            return prog
        if k < 0.72 and typed:
            v = r.choice(typed)
            return [("print", [("var", v)]), ("return", ("var", v))]
        if k < 0.86:
            # runtime errors, some after a visible side effect
            prog = r.choice([
                [("let", "I2", ("bin", "DIV", I(1), ("bin", "SUB", I(2), I(2))))],
                [("let", "I2", I(7)), ("raise", "BOOM")],
                [("print", [S("before")]), ("let", "S2", ("call", "chr", [I(300)]))],
                [("let", "I2", ("call", "int", [S("zz")]))],
                [("begin", [("raise", "E1")], [("E1", [("let", "I2", I(11))])]), ("return", ("var", "I2"))],
            ])
            cx["typed"] |= names_assigned(prog)
            return prog
        if k < 0.93 and "P" in cx:
            return [("return", ("var", "$P1"))]
        return [("return", I(r.randint(0, 9)))]

    # -- one random op
    def step(self):
        r = self.r
        live = self.live_ctxs()
        if not live:
            return self.op_cnew()
        k = r.random()
        if r.random() < 0.12 and self.op_exec2():
            return True
        table = [
            (0.03, self.op_cnew), (0.04, self.op_clone), (0.015, self.op_cfree), (0.02, self.op_cpurge), (0.02, self.op_cpwm),
            (0.09, self.op_reg), (0.04, self.op_find), (0.09, self.op_store), (0.07, self.op_load),
            (0.10, self.op_create), (0.03, self.op_vfree), (0.05, self.op_assign), (0.05, self.op_vdump), (0.08, self.op_acc),
            (0.06, self.op_item), (0.05, self.op_eparse), (0.015, self.op_efree), (0.04, self.op_etype), (0.08, self.op_eval),
            (0.10, self.op_xparse), (0.015, self.op_xfree), (0.10, self.op_exec), (0.04, self.op_exec2), (0.05, self.op_drop),
            (0.015, self.op_brk), (0.025, self.op_rst), (0.03, self.op_out),
        ]
        tot = sum(w for w, _ in table)
        x = k * tot
        for w, f in table:
            x -= w
            if x <= 0:
                return f()
        return self.op_out()

    def pick_ctx(self):
        return self.r.choice(self.live_ctxs())

    def op_cnew(self):
        free = [i for i, c in enumerate(self.ctx) if not c]
        if not free:
            return False
        c = self.r.choice(free)
        self.ctx[c] = {"gen": self.tick(), "typed": set(), "any": set(), "clone": None, "anc": set(), "maystop": False}
        self.emit("cnew,%d" % c)
        return True

    def op_clone(self):
        free = [i for i, c in enumerate(self.ctx) if not c]
        if not free:
            return False
        c, d = self.pick_ctx(), self.r.choice(free)
        src = self.ctx[c]
        g = self.tick()
        self.ctx[d] = {"gen": g, "typed": set(src["typed"]), "any": set(src["any"]), "clone": (c, src["gen"], self.tick(), g),
                       "anc": set(src["anc"]) | {(c, src["gen"])}, "maystop": False}
        if "P" in src:
            self.ctx[d]["P"] = True
        self.emit("cclone,%d,%d,%d" % (c, d, self.r.choice([1, 2, 2])))
        return True

    def has_descendants(self, c):
        """Functions are shared with clones by reference and keep pointing at the function manager of the context
        that defined them: the host releases / purges a context only after the contexts cloned from it
        (recorded finding C15.clone_outlives_original; its witness is a corpus case)."""
        if not STRICT_HOST:
            return False
        key = (c, self.ctx[c]["gen"])
        return any(x and key in x["anc"] for x in self.ctx)

    def free_func_execs(self, c):
        """An executable that declares a function shares the function object, whose private context points at the
        function manager of c: such executables are freed BEFORE c is purged / freed (same recorded finding)."""
        for i, x in enumerate(self.exe):
            if STRICT_HOST and x and x[0] == c and x[3]:
                self.exe[i] = None
                self.emit("xfree,%d" % i)

    def op_cfree(self):
        if len(self.live_ctxs()) < 2 and self.r.random() < 0.7:
            return False
        c = self.pick_ctx()
        if self.has_descendants(c):
            return False
        self.free_func_execs(c)
        self.bump(c)
        self.kill_ctx_handles(c)
        self.ctx[c] = None
        self.emit("cfree,%d" % c)
        return True

    def op_cpurge(self):
        c = self.pick_ctx()
        if self.has_descendants(c):
            return False
        self.free_func_execs(c)
        self.bump(c)
        self.kill_ctx_handles(c)
        old = self.ctx[c]
        self.ctx[c] = {"gen": self.tick(), "typed": set(), "any": set(), "clone": old["clone"], "anc": old["anc"], "maystop": False}
        self.emit("cpurge,%d" % c)
        return True

    def op_cpwm(self):
        c = self.pick_ctx()
        self.bump(c)
        self.emit("cpwm,%d" % c)
        return True

    def op_reg(self):
        r = self.r
        c = self.pick_ctx()
        cx = self.ctx[c]
        s = r.randrange(self.NS)
        k = r.random()
        if k < 0.55:
            t = r.choice("IDBS")
            name = "%s%d" % (t, r.choice([1, 2]))
            major, nd = MAJ[t], 0
            cx["typed"].add(name)
        elif k < 0.85:
            name = r.choice(["A1", "A2", "A3"])
            major, nd = r.choice([0, 1, 2, 3, 4, 6, 9]), r.choice([0, 0, 0, 1])
            cx["any"].add(name)
        else:
            name = "$P1"
            major, nd = r.choice([2, 2, 2, 4, 3]), r.choice([0, 0, 0, 1])
            cx["P"] = True
        self.bump(c)
        # the call may fail ($P1 with another type): then the slot is cleared; a handle we believe live but is not
        # only produces `pre` on both sides
        self.sym[s] = (c, cx["gen"], name)
        self.emit("reg,%d,%d,%s,%d,%d" % (c, s, hx(name), major, nd))
        return True

    def op_find(self):
        r = self.r
        c = self.pick_ctx()
        cx = self.ctx[c]
        s = r.randrange(self.NS)
        pool = sorted(cx["typed"] | cx["any"]) + (["$P1"] if "P" in cx else []) + ["NOSUCH", "Q9", "V_NEW9"]
        name = r.choice(pool)
        self.sym[s] = (c, cx["gen"], name)
        self.emit("find,%d,%d,%s" % (c, s, hx(name)))
        return True

    def op_store(self):
        r = self.r
        syms = [i for i in range(self.NS) if self.sym_ok(i)]
        boxes = self.live_vals(lambda v: v[0] == "box")
        if not syms or not boxes:
            return False
        s = r.choice(syms)
        c, _, name = self.sym[s]
        want = TYPED.get(name[0]) if name[0] in TYPED and name[1:].isdigit() else None
        if want:
            boxes = [b for b in boxes if self.val[b][1] == want]
            if not boxes:
                return False
        v = r.choice(boxes)
        self.kill_box_items(v)
        self.kill_ctx_items(c)
        self.emit("store,%d,%d,%d" % (c, s, v))
        return True

    def op_load(self):
        syms = [i for i in range(self.NS) if self.sym_ok(i)]
        w = self.free_val_slot()
        if not syms or w is None:
            return False
        s = self.r.choice(syms)
        c = self.sym[s][0]
        self.val[w] = ("lib", "load", c, None)
        self.hot = [w]
        self.emit("load,%d,%d,%d" % (c, s, w))
        return True

    def op_create(self):
        r = self.r
        w = self.free_val_slot()
        if w is None:
            return False
        k = r.random()
        if k < 0.2:
            self.val[w] = ("box", "I")
            op = "vint,%d,%d" % (w, r.choice([0, 1, -1, 42, 2 ** 63 - 1, -2 ** 63, 123456789]))
        elif k < 0.32:
            self.val[w] = ("box", "D")
            op = "vnum,%d,%016x" % (w, progen.dbits(r.choice([0.0, 1.5, -2.25, 1e300, 3.14159])))
        elif k < 0.42:
            self.val[w] = ("box", "B")
            op = "vbool,%d,%d" % (w, r.randint(0, 1))
        elif k < 0.62:
            self.val[w] = ("box", "S")
            op = "vlit,%d,%s" % (w, r.choice(["-", hx(""), hx("abc"), hx("Hello, world"), hx("\xe9t\xe9")]))
        elif k < 0.72:
            self.val[w] = ("box", "R")
            op = "vraw,%d,%s" % (w, r.choice(["-", "", "00ff41", "410043"]))
        elif k < 0.78:
            self.val[w] = ("box", "C")
            op = "vimag,%d,%016x,%016x" % (w, progen.dbits(1.25), progen.dbits(-6.5))
        else:
            # typed nulls of every major except object (5) and pointer (8): a stored null pointer makes assignments go
            # through the pointer (LETStatement::doit), which the interpreter model does not cover; both majors are
            # still exercised by the accessor corpus
            m = r.choice([0, 1, 2, 3, 4, 6, 7, 9])
            self.val[w] = ("box", {v: k2 for k2, v in MAJ.items()}[m])
            op = "vnull,%d,%d" % (w, m)
        self.emit(op)
        return True

    def op_vfree(self):
        boxes = self.live_vals(lambda v: v[0] == "box")
        if not boxes:
            return False
        v = self.r.choice(boxes)
        self.kill_box_items(v)
        self.val[v] = None
        self.emit("vfree,%d" % v)
        return True

    def op_assign(self):
        r = self.r
        cands = self.live_vals(lambda v: v[0] == "box" or (v[0] == "lib" and v[1] == "load"))
        if not cands:
            return False
        v = r.choice(cands)
        h = self.val[v]
        if h[0] == "box":
            self.kill_box_items(v)
        else:
            self.kill_ctx_items(h[2])
        k = r.random()
        if k < 0.4:
            op = "alit,%d,%s" % (v, r.choice(["-", hx("new"), hx(""), hx("a longer replacement string")]))
            if h[0] == "box" and h[1] == "?":
                self.val[v] = ("box", "S")
        elif k < 0.7:
            op = "araw,%d,%s" % (v, r.choice(["-", "010203", ""]))
            if h[0] == "box" and h[1] == "?":
                self.val[v] = ("box", "R")
        else:
            op = "anull,%d" % v
        self.emit(op)
        return True

    def pick_val(self):
        lv = self.live_vals()
        if not lv:
            return None
        hot = [h for h in self.hot if self.val[h]]
        if hot and self.r.random() < 0.5:
            return self.r.choice(hot)
        return self.r.choice(lv)

    def op_vdump(self):
        v = self.pick_val()
        if v is None:
            return False
        self.emit("vdump,%d" % v)
        return True

    def op_acc(self):
        v = self.pick_val()
        if v is None:
            return False
        self.emit("acc,%d,%s" % (v, self.r.choice(ACCS)))
        return True

    def op_item(self):
        v = self.pick_val()
        w = self.free_val_slot()
        if v is None or w is None or w == v:
            return False
        h = self.val[v]
        idx = self.r.choice([0, 0, 1, 1, 2, 3])
        kind = self.r.choice(["tabitem", "tabitem", "tupitem"])
        # whether an item comes back is not known here: mark the target as a *possible* handle of the same family
        if h[0] == "box":
            self.val[w] = ("boxitem", v)
        elif h[0] == "boxitem":
            self.val[w] = ("boxitem", h[1])
        else:
            self.val[w] = ("lib", "item", h[2], h[3])
        self.hot = [w, v]
        self.emit("%s,%d,%d,%d" % (kind, v, idx, w))
        return True

    def op_eparse(self):
        r = self.r
        free = [i for i, e in enumerate(self.exp) if e is None]
        if not free:
            return False
        c, e = self.pick_ctx(), r.choice(free)
        cx = self.ctx[c]
        self.bump(c)
        if r.random() < 0.22:
            if self.gene and r.random() < 0.25:
                # an operator text rejected by the typing model; a `var` form in a context without the variables is
                # an undefined symbol (the model says so)
                k, lk = r.choice(self.gene)
                if lk and r.random() > 20 * self.leaky:
                    k, lk = r.choice([g for g in self.gene if not g[1]])
            else:
                nb = self.nhe - 1
                k = r.randrange(nb) if r.random() > self.leaky else self.nhe - 1
                lk = k == self.nhe - 1
            if lk:
                self.flags.add(KF_L_SUB)
                self.nleaky += 1
            self.emit(EBAD(c, e, k, self.bade[k]))
            return True
        names = sorted(cx["typed"] | cx["any"])
        if names and r.random() < 0.3:
            ex = ("var", r.choice(names))
        elif r.random() < 0.15:
            ex = r.choice([("bin", "DIV", I(1), ("bin", "SUB", I(2), I(2))), ("call", "int", [S("zz")]), L(r.choice(CONTAINERS))])
        else:
            g = self.gen(False)
            ex = g.expr(r.choice("idbs"), 2, set(cx["typed"]))
        self.exp[e] = (c, cx["gen"])
        self.emit(E(c, e, ex))
        return True

    def op_efree(self):
        es = [i for i, e in enumerate(self.exp) if e]
        if not es:
            return False
        e = self.r.choice(es)
        for i, v in enumerate(self.val):
            if v and v[0] == "lib" and v[3] == e:
                self.val[i] = None
        self.exp[e] = None
        self.emit("efree,%d" % e)
        return True

    def usable_exprs(self):
        return [i for i, e in enumerate(self.exp) if e and self.ctx[e[0]] and self.ctx[e[0]]["gen"] == e[1]]

    def op_etype(self):
        es = self.usable_exprs()
        if not es:
            return False
        e = self.r.choice(es)
        self.emit("etype,%d,%d" % (self.exp[e][0], e))
        return True

    def op_eval(self):
        es = self.usable_exprs()
        w = self.free_val_slot()
        if not es or w is None:
            return False
        e = self.r.choice(es)
        c = self.exp[e][0]
        self.bump(c)
        if self.val[w] is not None and self.val[w][0] == "box":
            return False
        self.val[w] = ("lib", "eval", c, e)
        self.hot = [w]
        self.emit("eval,%d,%d,%d" % (c, e, w))
        return True

    def op_xparse(self):
        r = self.r
        free = [i for i, x in enumerate(self.exe) if x is None]
        if not free:
            return False
        c, x = self.pick_ctx(), r.choice(free)
        cx = self.ctx[c]
        self.bump(c)
        pos = r.choice([0, 1, 1])
        if r.random() < 0.25:
            nclean = self.nhp - 2
            if self.genp and r.random() < 0.25:
                k, lk = r.choice(self.genp)
                if lk and r.random() > 20 * self.leaky:
                    k, lk = r.choice([g for g in self.genp if not g[1]])
                if lk:
                    self.flags.add(KF_L_SUB)
                    self.nleaky += 1
            elif r.random() < self.leaky:
                k = r.choice([self.nhp - 2, self.nhp - 1])
                self.flags.add(KF_L_SUB if k == self.nhp - 2 else KF_L_IF)
                self.nleaky += k == self.nhp - 2
            else:
                k = r.randrange(nclean)
            self.emit(XBAD(c, x, k, self.badp[k], pos))
            return True
        k = r.random()
        self._hasfunc = False
        if k < 0.03:
            # a failing argument of a user function call: an ordinary program (no leak allowance)
            self._hasfunc = True
            prog = ARGERR_PROG
            cx["typed"].add("I1")
        elif k < 0.30:
            prog = self.full_program(c)
        elif k < 0.50 and cx["typed"]:
            prog = self.cont_program(c)
        else:
            prog = self.template_program(c)
        self.exe[x] = (c, cx["gen"], self.tick(), self._hasfunc or any(st[0] == "func" for st in prog))
        self.emit(X(c, x, prog, pos))
        return True

    def op_xfree(self):
        xs = [i for i, x in enumerate(self.exe) if x]
        if not xs:
            return False
        x = self.r.choice(xs)
        self.exe[x] = None
        self.emit("xfree,%d" % x)
        return True

    def usable_execs(self):
        return [i for i, x in enumerate(self.exe) if x and self.ctx[x[0]] and self.ctx[x[0]]["gen"] == x[1]]

    def op_exec(self):
        xs = self.usable_execs()
        if not xs:
            return False
        x = self.r.choice(xs)
        self.bump(self.exe[x][0])
        self.ctx[self.exe[x][0]]["maystop"] = True
        self.emit("exec,%d" % x)
        return True

    def op_exec2(self):
        pairs = []
        for x in self.usable_execs():
            xc, xg, st, _ = self.exe[x]
            for c in self.live_ctxs():
                cl = self.ctx[c]["clone"]
                if cl and cl[0] == xc and cl[1] == xg and cl[2] > st and cl[3] == self.ctx[c]["gen"]:
                    pairs.append((c, x))
        if not pairs:
            return False
        c, x = self.r.choice(pairs)
        src = self.exe[x][0]
        if self.ctx[src]["maystop"]:
            # a function body running in the clone polls the stop condition of the context that DEFINED the function
            # (its `_root`): the host resets a stop held there first (see NOTES-C15, clone interference)
            self.ctx[src]["maystop"] = False
            self.emit("rst,%d" % src)
        self.bump(c)
        self.ctx[c]["maystop"] = True
        self.emit("exec2,%d,%d" % (c, x))
        return True

    def op_drop(self):
        w = self.free_val_slot()
        if w is None:
            return False
        c = self.pick_ctx()
        self.val[w] = ("box", "?x")
        self.hot = [w]
        self.emit("drop,%d,%d" % (c, w))
        return True

    def op_brk(self):
        c = self.pick_ctx()
        self.ctx[c]["maystop"] = True
        self.emit("brk,%d" % c)
        return True

    def op_rst(self):
        c = self.pick_ctx()
        self.ctx[c]["maystop"] = False
        self.emit("rst,%d" % c)
        return True

    def op_out(self):
        self.emit("out,%d" % self.pick_ctx())
        return True

    def run(self):
        n = self.r.randint(max(5, self.maxlen // 2), self.maxlen)
        guard = 0
        while len(self.ops) < n and guard < n * 20:
            guard += 1
            self.step()
        return self.ops


def names_assigned(prog):
    out = set()

    def walk(ss):
        for s in ss:
            k = s[0]
            if k == "let" and s[1][0] in "IDBS" and s[1][1:].isdigit():
                out.add(s[1])
            elif k == "if":
                for _, b in s[1]:
                    walk(b)
            elif k == "while":
                walk(s[2])
            elif k == "for":
                walk(s[6])
            elif k == "begin":
                walk(s[1])
                for _, b in s[2]:
                    walk(b)
    walk(prog)
    return out


# ---------------------------------------------------------------------------------------------- the check
class C15(Check):
    pid = "C15"
    harness = "capiprobe"
    proof_modules = ["BlocV.Proofs.C15"]
    level = "proof"
    rule = ("call sequences from a state-machine generator over handle tables (4 contexts incl. clones, 8 symbols, 16 values "
            "of every type, 4 expressions, 4 executables), length <= 40 (quick) / 200 (thorough), error-producing texts and "
            "programs interleaved at every step (22-25% of the parses are rejected texts from the model's catalog, 14% of the "
            "template programs raise at run time); plus a fixed corpus: every typed accessor x every value type x null/not, "
            "the operator family (every operator spelling x 5 operand forms x {integer,string,boolean}^2 operand types x "
            "{bloc_parse_expression, bloc_parse_executable}, generated in the model: rejected iff Typing.acceptBin/acceptUn rejects; "
            "code, position, context still usable, and nothing left allocated according to LeakSanitizer — the left-operand leak "
            "pattern is a repaired finding), "
            "the witnesses of the recorded findings, every truncation of 7 programs (leak verdict only). Each call's "
            "result, out-parameters, re-read library-owned pointers and bloc_errno/bloc_strerror state are compared token by "
            "token with the Lean handle state machine; ASan/UBSan watch every call; after the caller freed everything "
            "LeakSanitizer decides whether memory remains. distinct = distinct (op kind, impl token class) pairs.")
    assumptions = [
        "memory reclamation is NOT modelled: 'no memory remains allocated' is LeakSanitizer's verdict in the harness, never a theorem",
        "texts the parser rejects come from catalogs inside the model (source, code, position, symbols registered before the error): "
        "a hand-written part observed on the pinned tree, and the operator texts GENERATED from the typing model (Model/Typing.lean: "
        "rejected iff acceptBin/acceptUn rejects the operand types; position = last character of the text); both re-observed on every "
        "run; the parser itself is not modelled here (C11-C13)",
        "values/evaluation are those of Model/Interp.lean + Model/Ops.lean (tied to the code by C02-C10 correspondences)",
        "bloc_break from a second thread during a run, tracing and plugins are outside this check (C14, C16, C17)",
    ]
    trusted_base = Check.trusted_base[:1] + [
        "harness/capiprobe.cpp + vlib/props/c15.py comparator (the tokens describe what the C API returned)",
        "AddressSanitizer / UndefinedBehaviorSanitizer / LeakSanitizer of the installed gcc",
        "Lean compiler/runtime executing BlocV.CApi.step in blocv (correspondence only)",
    ]

    def __init__(self, tier, seed):
        super().__init__(tier, seed)
        have = {f["id"] for f in self.findings}
        for d in DEFAULT_FINDINGS:
            if d["id"] not in have:
                self.findings.append(dict(d))
                self.stats.setdefault("findings_not_in_known_findings_json", []).append(d["id"])
        self.kf = {f["id"]: f for f in self.findings if f.get("status", "known") == "known"}

    # ------------------------------------------------------------ catalog (single source of truth: the Lean model)
    def catalog(self):
        ans = run.run_driver(["r c15bad"]).get("r", "")
        m = re.match(r"progs=(\S*) exprs=(\S*) hand=(\d+),(\d+)$", ans)
        if not m:
            self.broken_ties.append("driver: command c15bad gave %r" % ans[:200])
            return [], []
        dec = lambda s: [bytes.fromhex(h).decode("utf-8") for h in s.split(",")]
        self.nhand = (int(m.group(3)), int(m.group(4)))
        return dec(m.group(1)), dec(m.group(2))

    def opcases(self):
        """The operator cases generated inside the model (driver command c15ops): spelling x operand form x operand
        types, with the verdict of the typing model. Case i is addressed by the model text `@i`."""
        ans = run.run_driver(["r c15ops"]).get("r", "")
        if not ans.startswith("ops="):
            self.broken_ties.append("driver: command c15ops gave %r" % ans[:200])
            return []
        out = []
        h = lambda x: bytes.fromhex(x).decode("utf-8")
        for i, w in enumerate(ans[4:].split(",")):
            f = w.split(":")
            out.append({"i": i, "spell": h(f[0]), "form": f[1], "verdict": f[2], "bad": f[3], "esrc": h(f[4]), "psrc": h(f[5]), "unary": f[6] == "u"})
        return out

    # ------------------------------------------------------------ cases
    def mk(self, cid, ops, meta=None):
        line = "seq " + " ".join(ops)
        return Case(cid, line, line, meta or {})

    def corpus(self, badp, bade):
        C = []
        allp, alle = badp, bade
        # the hand-written part of the catalogs (the operator texts behind it have their own family: op_family)
        badp, bade = badp[:self.nhand[0]], bade[:self.nhand[1]]
        creators = [("vnull,0,%d" % m, "null%d" % m) for m in range(10)] + [
            ("vbool,0,1", "bool"), ("vint,0,-5", "int"), ("vnum,0,3ff8000000000000", "num"), ("vlit,0,%s" % hx("ab"), "lit"),
            ("vlit,0,-", "litnull"), ("vraw,0,4100", "raw"), ("vraw,0,-", "rawnull"), ("vraw,0,", "rawempty"), ("vlit,0,", "litempty"),
            ("vimag,0,3ff0000000000000,c000000000000000", "imag")]
        # every accessor on every caller-created value (null and not), bloc_literal / bloc_tabchar on null values
        # included: the documented answer is bloc_true with *buf = NULL (and *len = 0)
        for cr, nm in creators:
            C.append(self.mk("acc_" + nm, ["cnew,0", cr] + ["acc,0,%s" % k for k in ACCS] + ["vdump,0", "tabitem,0,0,1", "tupitem,0,0,1", "anull,0"]
                             + ["acc,0,%s" % k for k in ACCS] + ["alit,0,%s" % hx("x"), "araw,0,00", "vfree,0"]))
        # the same on library-owned values of every type: variables set by a script, loaded, navigated
        for i, lit in enumerate(CONTAINERS + ["I:5", "S:6869", "B:1", "D:4004000000000000", "N:i0", "N:s0", "N:r0"]):
            prog = [("let", "A1", L(lit)), ("return", ("var", "A1"))]
            ops = ["cnew,0", X(0, 0, prog), "exec,0", "find,0,0,%s" % hx("A1"), "load,0,0,1"] + ["acc,1,%s" % k for k in ACCS] + [
                "tabitem,1,0,2", "tabitem,1,1,3", "tabitem,1,9,4", "tupitem,1,0,4", "tupitem,1,2,5", "tupitem,2,1,6", "tabitem,2,1,7",
                "vdump,2", "vdump,4", "acc,2,u", "acc,4,i", "drop,0,8", "vdump,8", "tabitem,8,0,9", "tupitem,8,1,10", "tupitem,9,0,11",
                "vfree,8", "vdump,9", "rst,0", "exec,0", "vdump,1", "cpurge,0", "vdump,2", "xfree,0", "cfree,0"]
            C.append(self.mk("libacc_%d" % i, ops))
        # a library-owned variable value changed through bloc_assign_* stays a variable: scripts that merely read it
        # (as an operand, twice) must neither change nor retype it
        rd = [("let", "S2", ("bin", "ADD", ("var", "S1"), S("!"))), ("let", "S3", ("bin", "ADD", ("var", "S1"), S("?"))),
              ("return", ("bin", "ADD", ("var", "S1"), ("var", "S1")))]
        for i, (init, asg) in enumerate(itertools.product(("vlit,0,%s" % hx("hello"), "vlit,0,-", "vnull,0,4"),
                                                           ("alit,1,%s" % hx("new"), "alit,1,-", "alit,1,%s" % hx(""), "anull,1"))):
            C.append(self.mk("asgread_%d" % i, ["cnew,0", "reg,0,0,%s,4,0" % hx("S1"), init, "store,0,0,0", "load,0,0,1", asg, "vdump,1",
                                                X(0, 0, rd), "exec,0", "drop,0,2", "vdump,2", "load,0,0,3", "vdump,3", "exec,0", "drop,0,4", "vdump,4",
                                                "load,0,0,5", "vdump,5", "out,0"]))
        # a declaration that fails in its body leaves no function behind, also right after a successful redefinition
        # of another function (createOrReplace / rollback bookkeeping)
        gdecl = [k for k, t in enumerate(badp) if t.startswith("function g9(")]
        gcall = [k for k, t in enumerate(badp) if t == "q9 = g9(1);"]
        if gdecl and gcall:
            f1 = [("func", "F9", ["I7"], "i", [("return", ("bin", "ADD", ("var", "I7"), I(1)))], [])]
            f2 = [("func", "F9", ["I7"], "i", [("return", ("bin", "ADD", ("var", "I7"), I(2)))], [])]
            use = [("return", ("fcall", "F9", [I(40)]))]
            for i, pre in enumerate(([], [X(0, 0, f1), "xfree,0"], [X(0, 0, f1), "xfree,0", X(0, 0, f2), "xfree,0"])):
                C.append(self.mk("fdecl_%d" % i, ["cnew,0"] + pre + [XBAD(0, 1, gdecl[0], badp[gdecl[0]], 1), XBAD(0, 1, gcall[0], badp[gcall[0]], 1)]
                                 + ([X(0, 2, use), "exec,2", "drop,0,0", "vdump,0"] if pre else []) + ["out,0"]))
        # the former witnesses of the repaired accessor findings (C15.literal_accessor_null_deref,
        # C15.tabchar_accessor_null_deref): ordinary cases, the model answers `1:null`; then the value is still usable
        C.append(self.mk("nullacc_lit", ["cnew,0", "vnull,0,4", "acc,0,l", "accu,0,l", "vdump,0", "alit,0,%s" % hx("x"), "acc,0,l", "anull,0", "acc,0,l", "vfree,0"]))
        C.append(self.mk("nullacc_lit2", ["cnew,0", "vlit,0,-", "accu,0,l", "acc,0,x", "vdump,0", "vfree,0"]))
        C.append(self.mk("nullacc_raw", ["cnew,0", "vnull,0,6", "acc,0,x", "accu,0,x", "vdump,0", "araw,0,0041", "acc,0,x", "anull,0", "acc,0,x", "vfree,0"]))
        C.append(self.mk("nullacc_raw2", ["cnew,0", "vraw,0,-", "accu,0,x", "acc,0,l", "vdump,0", "vfree,0"]))
        C.append(self.mk("nullacc_lit3", ["cnew,0", "reg,0,0,%s,4,0" % hx("S1"), "load,0,0,1", "accu,1,l", "vdump,1"]))
        C.append(self.mk("nullacc_raw3", ["cnew,0", "reg,0,0,%s,6,0" % hx("A1"), "load,0,0,1", "accu,1,x", "vdump,1"]))
        # witnesses of the recorded findings
        eofs = [k for k, s in enumerate(badp) if s in ("q9 = 1", "q9 = \"unterminated;")]
        C.append(self.mk("kf_eof", ["cnew,0"] + [XBAD(0, 0, k, badp[k], 1) for k in eofs] + [EBAD(0, 0, k, bade[k]) for k, s in enumerate(bade) if s == "1+1"],
                         {"spec": KF_EOF}))
        C.append(self.mk("kf_move", ["cnew,0", "vint,0,42", "reg,0,0,%s,2,0" % hx("I1"), "store,0,0,0", "vdump,0", "vbool,1,1", "reg,0,1,%s,1,0" % hx("B1"),
                                      "store,0,1,1", "vdump,1", "vnum,2,3ff8000000000000", "reg,0,2,%s,3,0" % hx("D1"), "store,0,2,2", "vdump,2"], {"spec": KF_MOVE}))
        tprog = [("let", "A1", L("Ts1[S:616263,S:616263,S:616263]"))]
        C.append(self.mk("kf_item", ["cnew,0", X(0, 0, tprog), "exec,0", "find,0,0,%s" % hx("A1"), "load,0,0,1", "tabitem,1,1,2", "vint,3,5", "storeu,0,0,3", "vdump,2"],
                         {"kf": KF_ITEM}))
        fdef = [ARGERR_PROG[0]]
        C.append(self.mk("kf_uaf_purge", ["cnew,0", X(0, 0, fdef), "cpurge,0", "xfree,0", "cfree,0"], {"expect_crash": KF_UAF}))
        C.append(self.mk("kf_uaf_free", ["cnew,0", X(0, 0, fdef), "cfree,0", "xfree,0"], {"expect_crash": KF_UAF}))
        C.append(self.mk("kf_uaf_clone", ["cnew,0", X(0, 0, fdef), "xfree,0", "cclone,0,1,2", "cfree,0", "cfree,1"], {"expect_crash": KF_UAF}))
        # the former witness of the repaired leak C15.leak_createenv_argument_error: an ordinary no-leak case — the
        # call fails twice (the second call reuses the context handed back by the first), then the function is used
        # successfully through the same cached context, then everything is released: leak=0 required
        okuse = [("return", ("fcall", "F9", [I(40)]))]
        C.append(self.mk("argerr_noleak", ["cnew,0", X(0, 0, ARGERR_PROG), "exec,0", "exec,0", "out,0", X(0, 1, okuse), "exec,1", "drop,0,0", "vdump,0",
                                           "rst,0", "exec,0", "xfree,1", "xfree,0", "cfree,0"]))
        C.append(self.mk("kf_leak_sub", ["cnew,0", XBAD(0, 0, len(badp) - 2, badp[-2], 1), EBAD(0, 0, len(bade) - 1, bade[-1])], {"leaks": {KF_L_SUB}, "lsub_n": 2}))
        C.append(self.mk("kf_leak_if", ["cnew,0", XBAD(0, 0, len(badp) - 1, badp[-1], 1)], {"leaks": {KF_L_IF}}))
        # every bad text of the catalog: code, position, symbols left behind, the context stays usable
        probe = [("let", "I1", I(1)), ("return", ("bin", "ADD", ("var", "I1"), I(41)))]
        for k, src in enumerate(badp):
            leaks = {KF_L_SUB} if k == len(badp) - 2 else ({KF_L_IF} if k == len(badp) - 1 else set())
            C.append(self.mk("badp_%d" % k, ["cnew,0", "reg,0,0,%s,2,0" % hx("I1"), "vint,0,7", "store,0,0,0", "load,0,0,1", XBAD(0, 0, k, src, 1), XBAD(0, 0, k, src, 0),
                                              "find,0,1,%s" % hx("Q9"), "find,0,2,%s" % hx("V_NEW9"), "find,0,3,%s" % hx("X"), "load,0,1,2", "load,0,0,3",
                                              X(0, 0, probe), "exec,0", "drop,0,4", "out,0"], {"leaks": leaks, "lsub_n": 2}))
        for k, src in enumerate(bade):
            leaks = {KF_L_SUB} if k == len(bade) - 1 else set()
            C.append(self.mk("bade_%d" % k, ["cnew,0", EBAD(0, 0, k, src), E(0, 0, ("bin", "ADD", I(1), I(2))), "etype,0,0", "eval,0,0,0", "acc,0,i"], {"leaks": leaks, "lsub_n": 1}))
        C.extend(self.op_family())
        C.extend(self.cross_store())
        # truncations: leak verdict only (the model has no parser)
        n = 0
        for pi, p in enumerate(TRUNC_PROGS):
            for cut in range(1, len(p)):
                if self.tier == "quick" and cut % 2:
                    continue
                c = Case("trunc_%d_%d" % (pi, cut), None, "seq cnew,0 xparse,0,0,%s,-,%d" % (hx(p[:cut]), cut % 2), {"leaks": set(PARSE_LEAKS), "leak_only": True})
                C.append(c)
                n += 1
        self.stats["truncation_cases"] = n
        return C

    def op_family(self):
        """Operator-wise rejected (and accepted) texts, GENERATED IN THE MODEL from the typing model: every operator
        spelling x operand form {literal, variable, parenthesised expression, built-in call, member call} x operand
        types {integer, string, boolean}^2 x entry point {bloc_parse_expression, bloc_parse_executable}. One case per
        (spelling, form, entry point): the 9 (3 for a unary operator) type combinations one after the other in ONE
        context; after every rejected text a good text is parsed and evaluated / run in the same context ("still
        usable"); an accepted text must parse (and have the static type the model computes). The model's answer for
        `@i` is a catalog entry iff Typing.acceptBin / acceptUn rejects the operand types (theorem typed_rejection_iff).
        The left-operand leak pattern (finding C15.leak_sub_operand_type_error) is REPAIRED (status fixed): the left
        operand is checked before the right one is parsed, so these texts must leave nothing allocated (LeakSanitizer's
        verdict) and report the error at the first token of the right operand; `lsub_n` (texts whose LEFT operand alone is
        ill-typed) only bounds the allowance while the finding's status is `known` — with `fixed` a lost object at one of
        the pattern's source lines is reported as the return of the repaired defect."""
        ops_ = self.opcases()
        C = []
        groups = {}
        for oc in ops_:
            groups.setdefault((oc["spell"], oc["form"], oc["unary"]), []).append(oc)
        follow = [("let", "I2", ("bin", "ADD", ("var", "I1"), I(1)))]
        st = self.stats.setdefault("op_family", {"cases": 0, "rejected_texts": 0, "accepted_texts": 0, "accepted_without_ast_skipped": 0, "left_only_ill_typed": 0})
        gi = 0
        for (spell, form, unary), ocs in groups.items():
            for entry in "ep":
                ops = ["cnew,0", "reg,0,0,%s,2,0" % hx("I1"), "vint,0,7", "store,0,0,0", "load,0,0,1"]
                nleak = 0
                if entry == "e" and form == "var":
                    # before the variables exist: an undefined symbol, whatever the operand types would be
                    first = next((o for o in ocs if o["verdict"] == "J"), None)
                    if first:
                        ops.append("eparse,0,0,%s,@%d" % (hx(first["esrc"]), first["i"]))
                    ops += ["reg,0,1,%s,2,0" % hx("V_I9"), "reg,0,2,%s,4,0" % hx("V_S9"), "reg,0,3,%s,1,0" % hx("V_B9")]
                for oc in ocs:
                    if oc["verdict"] == "M":
                        st["accepted_without_ast_skipped"] += 1
                        continue
                    rej = oc["verdict"] == "J"
                    st["rejected_texts" if rej else "accepted_texts"] += 1
                    if rej and oc["bad"] == "L":
                        nleak += 1
                    if entry == "e":
                        ops.append("eparse,0,0,%s,@%d" % (hx(oc["esrc"]), oc["i"]))
                        ops += [E(0, 1, ("bin", "ADD", ("var", "I1"), I(2))), "eval,0,1,2", "efree,1"] if rej else ["etype,0,0", "efree,0"]
                    else:
                        ops.append("xparse,0,0,%s,@%d,%d" % (hx(oc["psrc"]), oc["i"], 1))
                        if rej:
                            ops += ["xparse,0,0,%s,@%d,%d" % (hx(oc["psrc"]), oc["i"], 0), X(0, 1, follow), "exec,1", "xfree,1"]
                            nleak += oc["bad"] == "L"
                        else:
                            ops.append("xfree,0")
                ops += ["find,0,4,%s" % hx("I1"), "load,0,4,3", "vdump,3", "out,0"]
                st["cases"] += 1
                st["left_only_ill_typed"] += nleak
                C.append(self.mk("optype_%d_%s" % (gi, entry), ops, {"leaks": {KF_L_SUB} if nleak else set(), "lsub_n": nleak, "opfam": "%s/%s/%s" % (spell, form, entry)}))
            gi += 1
        self.op_meta = ops_
        return C

    def cross_store(self):
        """Family `cross-store` (C15R5): a value travels between two contexts through the C API. Value kinds: every container
        shape of CONTAINERS, scalars, typed nulls. Sources: a pointer from bloc_ctx_load_variable (`rstore`: the library
        copies a variable's own cell), an item pointer of the loaded table / tuple (`rstore`: the library MOVES the element
        out — the source element is null afterwards), the caller-owned result of bloc_drop_returned (`store`: moved).
        Targets: another context, a clone of the source context, the original when the source is the clone, another
        variable of the same context, the same variable. Then both sides are read again through fresh loads, each side is
        overwritten and the other read again (a copy must not follow), a script reads the target; the contexts are freed
        in both orders (a clone before its original). ASan watches every call, LeakSanitizer the end."""
        C = []
        lits = CONTAINERS + ["I:5", "S:6869", "B:1", "D:4004000000000000", "N:i0", "N:s0"]
        A1, A2 = hx("A1"), hx("A2")
        n = 0
        for li, lit in enumerate(lits):
            kind = "tab" if lit.startswith("T") else ("tup" if lit.startswith("U") else None)
            for src in ("load", "item", "drop"):
                if src == "item" and not kind:
                    continue
                for tgt in ("other", "clone", "rclone", "same2", "same"):
                    if tgt == "same" and src != "load":
                        continue
                    for order in (0, 1):
                        if order == 0 and tgt in ("clone", "rclone"):
                            continue      # a clone is freed before its original (region of a recorded finding)
                        if order == 1 and tgt in ("same", "same2"):
                            continue
                        ops = ["cnew,0", X(0, 0, [("let", "A1", L(lit))]), "exec,0", "find,0,0,%s" % A1]
                        sc, ss = 0, 0
                        if tgt == "other":
                            ops += ["cnew,1", "reg,1,1,%s,0,0" % A2]
                            tc, ts, tname = 1, 1, "A2"
                        elif tgt == "clone":
                            ops += ["cclone,0,1,2", "find,1,1,%s" % A1]
                            tc, ts, tname = 1, 1, "A1"
                        elif tgt == "rclone":
                            ops += ["cclone,0,1,2", "find,1,1,%s" % A1]
                            sc, ss, tc, ts, tname = 1, 1, 0, 0, "A1"
                        elif tgt == "same2":
                            ops += ["reg,0,1,%s,0,0" % A2]
                            tc, ts, tname = 0, 1, "A2"
                        else:
                            tc, ts, tname = 0, 0, "A1"
                        if src == "load":
                            ops += ["load,%d,%d,1" % (sc, ss), "rstore,%d,%d,1" % (tc, ts), "vdump,1"]
                        elif src == "item":
                            ops += ["load,%d,%d,1" % (sc, ss), "%sitem,1,0,2" % kind, "rstore,%d,%d,2" % (tc, ts), "vdump,2", "vdump,1"]
                        else:
                            ops += [X(sc, 1, [("return", ("var", "A1"))]), "exec,1", "drop,%d,3" % sc, "rst,%d" % sc, "store,%d,%d,3" % (tc, ts), "vdump,3"]
                        ops += ["load,%d,%d,4" % (tc, ts), "vdump,4", "load,%d,%d,5" % (sc, ss), "vdump,5", "acc,4,t", "tabitem,4,0,11", "tupitem,4,1,12",
                                "vint,6,77", "store,%d,%d,6" % (sc, ss), "load,%d,%d,7" % (tc, ts), "vdump,7",
                                "vint,8,88", "store,%d,%d,8" % (tc, ts), "load,%d,%d,9" % (sc, ss), "vdump,9",
                                X(tc, 2, [("return", ("var", tname))]), "exec,2", "drop,%d,10" % tc, "vdump,10", "out,%d" % tc]
                        if tgt in ("other", "clone", "rclone"):
                            ops += ["cfree,0", "cfree,1"] if order == 0 else ["cfree,1", "cfree,0"]
                        else:
                            ops += ["cfree,0"]
                        C.append(self.mk("xstore_%d_%s_%s_%d" % (li, src, tgt, order), ops, {"xstore": True}))
                        n += 1
        self.stats["cross_store_cases"] = n
        return C

    def gen_cases(self):
        badp, bade = self.catalog()
        if not badp:
            return []
        self.badp, self.bade = badp, bade
        cases = self.corpus(badp, bade)
        # catalog index of the generated entries: hand-written ones first, then the rejected operator cases in order
        genp, gene, j = [], [], 0
        for oc in getattr(self, "op_meta", []):
            if oc["verdict"] == "J":
                genp.append((self.nhand[0] + j, oc["bad"] == "L"))
                gene.append((self.nhand[1] + j, oc["bad"] == "L"))
                j += 1
        if j and (len(badp) != self.nhand[0] + j or len(bade) != self.nhand[1] + j):
            self.broken_ties.append("catalog sizes %d/%d do not match hand %r + %d rejected operator cases" % (len(badp), len(bade), self.nhand, j))
        quick = self.tier == "quick"
        nseq = int(os.environ.get("VERIF_C15_N", "4000" if quick else "8000"))
        maxlen = 40 if quick else 200
        for i in range(nseq):
            g = SeqGen(self.rng, badp, bade, maxlen if i % 4 else max(8, maxlen // 3), leaky=0.01, nhand=self.nhand, genp=genp, gene=gene)
            ops = g.run()
            cases.append(self.mk("s%d" % i, ops, {"leaks": set(g.flags), "lsub_n": g.nleaky, "random": True}))
        self.stats["sequences"] = nseq
        self.stats["max_len"] = maxlen
        return cases

    # ------------------------------------------------------------ run + judge
    def step_correspondence(self):
        cases = self.gen_cases()
        if not cases:
            return
        try:
            hbin = build.harness_build(self.harness)
        except build.BuildError as e:
            self.broken_ties.append("build: %s: %s" % (e.what, e.output[-800:]))
            return
        t = time.time()
        impl = run_probe(hbin, ["%s %s" % (c.cid, c.impl_line) for c in cases], timeout_s=20, workers=16)
        self.stats["impl_s"] = round(time.time() - t, 1)
        t = time.time()
        mlines = ["%s %s" % (c.cid, c.model_line) for c in cases if c.model_line]
        model = run.run_driver(mlines) if mlines else {}
        self.stats["model_s"] = round(time.time() - t, 1)
        if "#driver-error" in model:
            self.broken_ties.append("driver: " + model["#driver-error"][-400:])
        self.judge_all(cases, impl, model)

    def judge_all(self, cases, impl, model):
        ops_total = 0
        for c in cases:
            self.evaluations += 1
            ir = impl.get(c.cid)
            if ir is None:
                self.record(c, "harness lost the case", "?", "?", "")
                continue
            mtoks = None
            if c.model_line:
                ans = model.get(c.cid, "")
                if not ans.startswith("model="):
                    self.record(c, "model gave no answer", " ".join(ir["toks"])[:300], ans[:300], "")
                    continue
                mtoks = ans[len("model="):].split(" ")
            ops_total += self.judge_case(c, ir, mtoks)
        self.stats["ops_compared"] = ops_total

    def judge_case(self, c, ir, mtoks):
        ops = c.impl_line.split(" ")[1:]
        itoks = ir["toks"]
        compared = 0
        stop_at = None
        if mtoks is not None:
            for k, op in enumerate(ops):
                mt = mtoks[k] if k < len(mtoks) else None
                it = itoks[k] if k < len(itoks) else None
                kind = op.split(",")[0]
                if mt is None:
                    self.record(c, "model answered fewer calls than the sequence has", it, mt, op, k)
                    return compared
                mres = mt.split("!")[-1].split("/")[0]
                if mres == "unmodelled":
                    self.stats["unmodelled"] = self.stats.get("unmodelled", 0) + 1
                    stop_at = k
                    break
                if mres.startswith("hazard:"):
                    # the library must crash exactly here, and the hazard must be a recorded finding
                    kf = c.meta.get("kf")
                    crashed = it is None and ir["status"].startswith("crash ") and len(itoks) == k
                    if kf in self.kf and crashed:
                        self.known_hits.setdefault(kf, {"what": self.kf[kf]["what"], "example": " ".join(ops[:k + 1])[:160], "impl": ir["status"]})
                    else:
                        self.record(c, "model reaches a C-level hazard (%s): the library %s and the hazard is %s" % (
                            mres, "crashed" if crashed else "answered %s" % it, "recorded as %s" % kf if kf in self.kf else "not a recorded finding"), it, mt, op, k, ir)
                    return compared
                if it is None:
                    ek = c.meta.get("expect_crash")
                    if ek in self.kf and ir["status"] == "crash asan:use-after-free":
                        self.known_hits.setdefault(ek, {"what": self.kf[ek]["what"], "example": readable(c.impl_line)[:200], "impl": ir["status"]})
                    else:
                        self.record(c, "the library crashed / stopped in a call the model defines: %s" % ir["status"], it, mt, op, k, ir)
                    return compared
                compared += 1
                cls = re.sub(r"[0-9a-f]{6,}", "#", it.split("!")[-1])[:24]
                self.distinct.add((kind, cls))
                d = self.stats.setdefault("ops", {})
                d[kind] = d.get(kind, 0) + 1
                if it.split("!")[-1].startswith("pre/"):
                    self.stats["pre_tokens"] = self.stats.get("pre_tokens", 0) + 1
                if "/" in it and it.rsplit("/", 1)[0].split("!")[-1] in ("null", "0") or it.split("!")[-1].startswith("null@"):
                    self.stats["failing_calls"] = self.stats.get("failing_calls", 0) + 1
                if it != mt:
                    self.record(c, "call result differs from the model", it, mt, op, k, ir)
                    return compared
            # specification-level findings: the model mirrors the code, the documentation says otherwise
            spec = c.meta.get("spec")
            if spec in self.kf and stop_at is None:
                self.known_hits.setdefault(spec, {"what": self.kf[spec]["what"], "example": " ".join(ops)[:160], "impl": " ".join(itoks)[:120]})
        if ir["status"].startswith("crash ") or ir["status"] == "diverges":
            ek = c.meta.get("expect_crash")
            if ek in self.kf and ir["status"] == "crash asan:use-after-free":
                self.known_hits.setdefault(ek, {"what": self.kf[ek]["what"], "example": readable(c.impl_line)[:200], "impl": ir["status"]})
                return compared
            if mtoks is None or stop_at is not None or len(itoks) >= len(ops):
                self.record(c, "the library crashed: %s" % ir["status"], None, None, ops[len(itoks)] if len(itoks) < len(ops) else "(cleanup)", len(itoks), ir)
            return compared
        # leaks: LeakSanitizer's verdict after the caller released everything
        d = self.stats.setdefault("leak_verdicts", {})
        d[ir["leak"]] = d.get(ir["leak"], 0) + 1
        if ir["leak"] == "leak=1":
            allowed = c.meta.get("leaks", set())
            lsub_left = c.meta.get("lsub_n")      # None: no bound (truncation stream)
            for rec in leak_records(ir["stderr"]):
                kind, frames = rec["kind"], rec["frames"]
                if kind != "Direct":
                    continue
                fid = next((f for f, pred in LEAK_SIGNATURES if pred(frames)), None)
                if at_left_operand_site(rec) and (fid is None or KF_L_SUB in allowed):
                    # (a right operand that is a member call is allocated in Member…Expression::parse, the frame the
                    # end-of-text finding C15.leak_member_call_eof is named after: the call site decides)
                    # the PATTERN of C15.leak_sub_operand_type_error: the right operand, allocated below `Q()` on a line
                    # `new Op…(assertType(result, …, false), assertType(Q(), …))`, one object per left-operand type error
                    fid = KF_L_SUB
                    if lsub_left is not None:
                        lsub_left -= rec["nobj"]
                        if lsub_left < 0:
                            self.record(c, "more objects are lost at the left-operand sites (%d more) than the case has left-operand type errors (%d): "
                                           % (-lsub_left, c.meta.get("lsub_n")) + " <- ".join(frames[:5]), "leak=1", "leak=0", "(end of case)", len(ops), ir)
                            break
                if fid and fid in allowed and fid in self.kf:
                    self.known_hits.setdefault(fid, {"what": self.kf[fid]["what"], "example": self.leak_example(c), "impl": "LeakSanitizer: " + " <- ".join(frames[:3])})
                    ls = self.stats.setdefault("leak_sites", {})
                    ls[fid] = ls.get(fid, 0) + 1
                else:
                    fixed = next((f for f in self.findings if f["id"] == fid and f.get("status") == "fixed"), None)
                    self.record(c, "memory remains allocated after the caller freed everything, at " + (
                                   "the site of the REPAIRED finding %s (fixed in %s): the defect is back: " % (fid, fixed.get("commit", "?")) if fixed else
                                   "a site that is not a recorded finding (or not one this sequence is entitled to): ")
                                   + " <- ".join(frames[:5]), "leak=1", "leak=0", "(end of case)", len(ops), ir)
                    break
        elif ir["leak"] not in ("leak=0",):
            self.record(c, "no LeakSanitizer verdict (%s): the probe must be built with -fsanitize=address" % ir["leak"], ir["leak"], "leak=0", "(end)", len(ops), ir)
        return compared

    def leak_example(self, c):
        if c.meta.get("leak_only"):
            m = re.search(r"xparse,0,0,([0-9a-f]*),", c.impl_line)
            return "parse of %r" % bytes.fromhex(m.group(1)).decode("latin-1")[-60:] if m else c.cid
        return c.impl_line[:160]

    def record(self, c, what, it, mt, op, k=None, ir=None):
        ops = c.impl_line.split(" ")[1:]
        minimal = "seq " + " ".join(ops[:(k + 1) if k is not None else len(ops)])
        self.violations.append({"what": what, "case": minimal, "impl_ops": minimal, "impl": it, "model": mt, "spec": None, "kf": None,
                                "meta": {"cid": c.cid, "op": op, "index": k, "readable": readable(minimal), "leak_only": bool(c.meta.get("leak_only")),
                                         "leaks": sorted(c.meta.get("leaks", []))},
                                "stderr_tail": (ir or {}).get("stderr", "")[-1500:] if ir else ""})

    def finish(self):
        # shrink the first violation of a random sequence: drop ops while the same kind of disagreement stays
        if self.violations and not getattr(self, "_shrunk", False):
            self._shrunk = True
            v = self.violations[0] = min(self.violations, key=lambda x: len(x["case"]))
            try:
                small = self.shrink(v)
                if small:
                    v["meta"]["shrunk"] = small
                    v["meta"]["shrunk_readable"] = readable(small)
            except Exception as e:   # best effort
                v["meta"]["shrink_error"] = repr(e)
        return Check.finish(self)

    def one(self, line, meta):
        hbin = build.harness_build(self.harness)
        probe = C15(self.tier, self.seed)
        probe._shrunk = True
        c = Case("z", line if not meta.get("leak_only") else None, line, {"leaks": set(meta.get("leaks", [])), "leak_only": meta.get("leak_only")})
        impl = run_probe(hbin, ["z " + line], timeout_s=10, workers=1)
        model = run.run_driver(["z " + line], workers=1) if c.model_line else {}
        probe.judge_all([c], impl, model)
        return probe.violations

    def shrink(self, v, budget_s=60):
        t0 = time.time()
        ops = v["case"].split(" ")[1:]
        what = v["what"][:30]
        cur = ops
        improved = True
        while improved and time.time() - t0 < budget_s:
            improved = False
            for i in range(len(cur) - 1, -1, -1):
                if time.time() - t0 > budget_s:
                    break
                cand = cur[:i] + cur[i + 1:]
                if not cand:
                    continue
                vs = self.one("seq " + " ".join(cand), v["meta"])
                if vs and vs[0]["what"][:30] == what:
                    cur = vs[0]["case"].split(" ")[1:]
                    improved = True
                    break
        return "seq " + " ".join(cur)

    def replay(self, rep):
        for b in rep.get("broken_ties", []):
            print("  broken: " + b[:300])
        ok, out = build.lean_build(["blocv"])
        if not ok:
            print("replay: lake build blocv failed")
            return 1
        rc = 0
        for v in rep.get("violations", [])[:10]:
            line = (v.get("meta") or {}).get("shrunk") or v.get("case")
            vs = self.one(line, v.get("meta") or {})
            print("case: %s" % readable(line))
            if vs:
                rc = 1
                print("VIOLATION property=C15 %s: op %s impl=%s model=%s" % (vs[0]["what"], vs[0]["meta"]["op"][:80], vs[0]["impl"], vs[0]["model"]))
            else:
                print("  no longer fails")
        return rc if rep.get("violations") else (1 if rep.get("broken_ties") else 0)


def readable(line):
    """decode the hex payloads of a seq line for humans"""
    out = []
    for op in line.split(" ")[1:]:
        a = op.split(",")
        try:
            if a[0] in ("xparse", "eparse"):
                a[3] = repr(bytes.fromhex(a[3]).decode("latin-1"))
                if not a[4].startswith("!") and a[4] != "-":
                    a[4] = "<sexp>"
            elif a[0] in ("reg", "find"):
                a[3] = bytes.fromhex(a[3]).decode("latin-1")
            elif a[0] in ("vlit", "alit") and a[2] != "-":
                a[2] = repr(bytes.fromhex(a[2]).decode("latin-1"))
        except Exception:
            pass
        out.append(",".join(a))
    return " ".join(out)
