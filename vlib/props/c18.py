"""C18 (csv + utf8 halves) — the csv and utf8 modules move data losslessly and tolerate any argument.

Correspondence between the real module cores (harness/modprobe.cpp = /repo/modules/csv/csvparser.cpp and
/repo/modules/utf8/utf8helper*.cpp compiled under ASan+UBSan+_GLIBCXX_ASSERTIONS) and the Lean model
(lean/BlocV/Model/Mod/{Csv,Utf8}.lean through the driver `blocv`). The same case line goes to both sides;
the answers are compared textually. The two C-level hazards this half once had (utf8 `at` outside the string, csv
`deserialize_next` on an empty field table) are repaired (known_findings.json: status fixed): the model has no hazard
answer any more, a crash of the probe is a violation. The plugin's own `at` (range check of plugin_utf8.cpp) is driven
through the real module by vlib/props/c18f.py (family u8.plugin_at); modprobe transcribes it."""
import itertools
import json
import os
import time
from concurrent.futures import ThreadPoolExecutor

from .. import build, build_mod, run
from ..core import Case, Check, log, parse_model
from . import c18f          # BEGIN/END C18F: the file and sqlite3 halves (vlib/props/c18f.py)

I64MAX, I64MIN = 2 ** 63 - 1, -(2 ** 63)

# separator / encapsulator pairs
MAIN = (0x2c, 0x22)
SECOND = [(0x3b, 0x27), (0x2c, 0x20), (0x2c, 0x0a), (0x0a, 0x22), (0x2c, 0x2c)]     # reduced exhaustive set in thorough
OTHERS = [(0x09, 0x22), (0x2c, 0x0d), (0x0d, 0x22), (0x7c, 0x7c), (0xe9, 0xff)]
PAIRS = [MAIN] + SECOND + OTHERS

FULL = [(1, 3), (2, 3), (3, 3)]          # (number of fields, maximal field length)
REDUCED = [(1, 3), (2, 2), (3, 1)]
SMALL = [(1, 2), (2, 1)]

U8_B16 = [0x00, 0x41, 0x7f, 0x80, 0xbf, 0xc0, 0xc1, 0xc2, 0xdf, 0xe0, 0xed, 0xef, 0xf0, 0xf4, 0xf5, 0xff]
U8_B11 = [0x41, 0x80, 0x8f, 0x90, 0x9f, 0xa0, 0xbf, 0xe0, 0xed, 0xf0, 0xf4]
INSERT_U = [0, 0x41, 0xc3a9, 0xe9, 0xe282ac, 0xf09f9880, 0x4100, 0x4142, 0x80, 0xc0af, 0xeda080, 0xf4908080,
            0xffffffff, 0x1c3a9, 2 ** 32 + 0x41, 2 ** 32 + 0xc3a9, 2 ** 32, -1, "null"]
INSERTC_H2 = [".", "41", "c3a9e282ac", "41ff42", "null"]
SCALAR_RANGES = [(0x00, 0x7f), (0x70, 0x90), (0x7f0, 0x810), (0xd7f0, 0xd7ff), (0xe000, 0xe010), (0xfff0, 0x1000f),
                 (0x10fff0, 0x10ffff), (0x80, 0x5bf), (0x1080, 0x10ff), (0x1e00, 0x1fff), (0x2000, 0x20bf),
                 (0x2d00, 0x2d3f), (0x10480, 0x104ff), (0x1e900, 0x1e93f), (0x800, 0xffff), (0x10000, 0x10ffff)]

# per-tier sizes
SIZES = {
    "quick": {"main": [(1, 3), (2, 3), (3, 2)], "second": SMALL, "others": SMALL, "rand_rows": 500, "de_rand_main": 2000,
              "de_rand": 200, "feed_rand_main": 1000, "feed_rand": 100, "u8_valid": 500, "u8_invalid": 500,
              "u8_ops_rand": 60, "pn_sample": None, "ins_sample": None, "batch": 400000},
    "thorough": {"main": FULL, "second": REDUCED, "others": SMALL, "rand_rows": 3000, "de_rand_main": 20000,
                 "de_rand": 2000, "feed_rand_main": 10000, "feed_rand": 1000, "u8_valid": 5000, "u8_invalid": 5000,
                 "u8_ops_rand": 150, "pn_sample": None, "ins_sample": None, "batch": 400000},
}


def hexs(b):
    """canonical byte string: lowercase hex, '.' for the empty string"""
    return bytes(b).hex() if len(b) else "."


def lst(items):
    """canonical list of byte strings"""
    return ",".join(hexs(x) for x in items) if items else "-"


def alphabet(sep, enc):
    out = []
    for b in (sep, enc, 0x20, 0x0a, 0x0d, 0x61):
        if b not in out:
            out.append(b)
    return out


def strings_upto(alpha, maxlen):
    out = []
    for n in range(maxlen + 1):
        out.extend(bytes(t) for t in itertools.product(alpha, repeat=n))
    return out


def utf8_encode(cp):
    if cp < 0x80:
        return bytes([cp])
    if cp < 0x800:
        return bytes([0xc0 | (cp >> 6), 0x80 | (cp & 0x3f)])
    if cp < 0x10000:
        return bytes([0xe0 | (cp >> 12), 0x80 | ((cp >> 6) & 0x3f), 0x80 | (cp & 0x3f)])
    return bytes([0xf0 | (cp >> 18), 0x80 | ((cp >> 12) & 0x3f), 0x80 | ((cp >> 6) & 0x3f), 0x80 | (cp & 0x3f)])


def rough_count(b):
    """roughly the number of characters the decoder keeps (only used to pick interesting positions)"""
    return len(bytes(b).decode("utf-8", "ignore").replace("\0", ""))


def kind_of(line):
    w = line.split(" ")
    if w[0] == "csv" and len(w) > 3:
        return "csv." + w[3]
    if w[0] == "u8" and len(w) > 1:
        return "u8." + w[1]
    return "other"


def outcome_class(kind, iraw):
    if iraw.startswith("crash "):
        return iraw
    if iraw.endswith("diverges"):
        return "diverges"
    if "hazard" in iraw:
        return "hazard"
    if kind in ("csv.feed", "csv.feedraw"):
        w = iraw.split(" ")
        return "calls=%d last=%s %s" % (len(w[0]) - 5, w[0][-1:], w[1] if len(w) > 1 else "")
    if kind.startswith("csv."):
        j = iraw.find("ret")
        if j < 0:
            return "ser"
        k = iraw.find(" pos=", j)
        return iraw[j:k] if k > 0 else iraw[j:]
    if iraw.startswith("ok B:"):
        return iraw[:6]
    if iraw.startswith("ok "):
        return iraw[:4]
    if iraw.startswith("n="):
        return "state"
    return iraw[:24]


class _Counter:
    """stands in for the base class's set of distinct (case, outcome) keys: the case lines are unique by
    construction (duplicates are dropped at generation), so distinct = number of judged cases."""

    def __init__(self):
        self.n = 0

    def add(self, key=None):
        self.n += 1

    def __len__(self):
        return self.n


class C18(Check):
    pid = "C18"
    proof_modules = ["BlocV.Proofs.C18", "BlocV.Proofs.C18F"]      # C18F: file / sqlite3 halves
    harness = "modprobe"
    trusted_base = [
        "Lean 4.33 kernel + elaborator (theorems audited to depend only on propext, Classical.choice, Quot.sound)",
        "harness/modprobe.cpp + vlib comparator (canonical lines describe what CSVParser / UTF8String did; no call is guarded "
        "by the probe; `at` goes through a transcription of the plugin's range check, and through the real plugin in the blocprobe half)",
        "Lean compiler/runtime executing Model and Spec in blocv (correspondence only)",
        "the charmap tables' `code` field equals the packed UTF-8 bytes: checked for every Unicode scalar value by `u8 tableid` on every run",
    ]
    assumptions = ["csv/utf8 are exercised at the level of CSVParser and utf8helper::UTF8String plus a transcription of the "
                   "plugin's argument handling (null checks, int64 -> size_t / uint32 casts); the plugin glue itself (bloc::Value "
                   "marshalling, table copy in/out of deserialize_next) is not executed by this check"]
    rule = ("csv: for the pair (sep,enc)=(2c,22) ALL rows of k fields of length <= L over the alphabet {sep, enc, 20, 0a, 0d, 61} "
            "((k,L) in {(1,3),(2,3),(3,1)} quick; (1,3),(2,3),(3,3) thorough) and, for 10 more pairs (3b,27) (09,22) (2c,20) (2c,0a) "
            "(0a,22) (2c,0d) (0d,22) (2c,2c) (7c,7c) (e9,ff), a reduced exhaustive set, each row twice: `rt` (serialize then "
            "deserialize with the same parser) and `lines` (serialize, split after every 0a, feed through deserialize / "
            "deserialize_next as a client would); random larger rows (1..6 fields, length 0..12, bytes mostly from {sep,enc,20,0a,"
            "0d,61,62,00,ff}) for every pair; `de`: every string of length <= 5 over {sep,enc,20,0a,61} (3906 lines) plus random "
            "longer non-serialized lines (error flag / position); `feed`: every sequence of 1..3 lines, each of length <= 2 over "
            "{sep,enc,0a,61} (9723 sequences, reaches deserialize_next on an empty field table: the line starts a record) plus "
            "random sequences. utf8: `dec` of ALL byte strings of length <= 3 over {00 41 7f 80 bf c0 "
            "c1 c2 df e0 ed ef f0 f4 f5 ff} (4369) and of length 4 over {41 80 8f 90 9f a0 bf e0 ed f0 f4} (14641), random valid "
            "strings (scalars around 7f/80, 7ff/800, d7ff, e000, ffff/10000, 10ffff and inside/outside the charmap pages) and "
            "random ill-formed ones (byte mutated / deleted / inserted / truncated); at, substr (1 and 2 arguments), remove, "
            "insert (code point), insert (utf8 object) and insert of the object into itself on all boundary strings of length <= 2 + random strings with "
            "positions/counts from {-1,0,1,2,3,4,n-1,n,n+1,INT64_MAX,INT64_MIN,null}; `tableid`: for every Unicode scalar value "
            "1..10FFFF the decoder stores exactly the packed UTF-8 bytes (checked in C++); `at` outside the string (negative, "
            "count, far beyond) answers INDEX_RANGE. The implementation's canonical answer must equal the Lean model's answer "
            "textually (and the Lean spec's answer where the driver gives one); no hazard answer exists any more: a crash "
            "of the probe is a violation.")

    def __init__(self, tier, seed):
        super().__init__(tier, seed)
        # known_findings.json is authoritative; known_findings_c18f.json adds the findings not yet merged into it
        c18f.load_findings(self)
        # the blocprobe half (file, sqlite3, utf8 / csv plugin glue through the real .so files): its rule and assumptions
        self.rule = C18.rule + " || blocprobe half (vlib/props/c18f.py): " + c18f.RULE
        self.assumptions = [a.replace("the plugin glue itself (bloc::Value marshalling, table copy in/out of deserialize_next) is not "
                                      "executed by this check", "the plugin glue (constructors, null checks, casts, table copy in/out of "
                                      "deserialize_next, every utf8 method) is executed through the real .so files by the blocprobe half")
                            for a in C18.assumptions] + list(c18f.C18F.assumptions)
        self.sz = SIZES[tier]
        self.distinct = _Counter()
        self._n = 0
        self._seen = set()
        self._meta = {}
        self._kind_counts = {}
        self._sample_at = {}
        self._fast = 0

    # ---------------------------------------------------------------- case construction
    def mk(self, line, dedupe=True, impl_line=None):
        """Case for one protocol line (the same text for probe and driver unless `impl_line` is given); None when already generated."""
        if impl_line is not None:
            c = self.mk(line + " ", dedupe=False)      # distinct key; the trailing blank is ignored by the driver's word split
            return Case(c.cid, line, impl_line, c.meta)
        if dedupe:
            if line in self._seen:
                return None
            self._seen.add(line)
        kind = kind_of(line)
        meta = self._meta.get(kind)
        if meta is None:
            meta = self._meta[kind] = {"kind": kind}
        self._n += 1
        self._kind_counts[kind] = self._kind_counts.get(kind, 0) + 1
        return Case("%s%d" % (kind.replace(".", "_"), self._n), line, line, meta)

    def rows_of(self, alpha, shape):
        """all rows of k fields of length <= L, for (k, L) in shape, as canonical list texts (a generator)"""
        for k, L in shape:
            fh = [hexs(f) for f in strings_upto(alpha, L)]
            if k == 1:
                for a in fh:
                    yield a
            elif k == 2:
                for a in fh:
                    for b in fh:
                        yield a + "," + b
            else:
                for t in itertools.product(fh, repeat=k):
                    yield ",".join(t)

    @staticmethod
    def shape_count(alpha, shape):
        tot = 0
        for k, L in shape:
            nf = sum(len(alpha) ** i for i in range(L + 1))
            tot += nf ** k
        return tot

    def rand_bytes(self, pool, lo, hi, arbitrary=0.1):
        n = self.rng.randint(lo, hi)
        return bytes(self.rng.randrange(256) if self.rng.random() < arbitrary else self.rng.choice(pool) for _ in range(n))

    def rand_row(self, sep, enc):
        pool = [sep, enc, 0x20, 0x0a, 0x0d, 0x61, 0x62, 0x00, 0xff]
        k = self.rng.randint(1, 6)
        return [self.rand_bytes(pool, 0, 12) for _ in range(k)]

    def covered(self, row, alpha, shape):
        for k, L in shape:
            if len(row) == k and all(len(f) <= L and all(b in alpha for b in f) for f in row):
                return True
        return False

    def csv_small_cases(self):
        """every csv case except the exhaustive rt/lines sets of the main pair"""
        out = []
        sz = self.sz
        add = lambda line: (lambda c: out.append(c) if c else None)(self.mk(line))
        ex = self.stats.setdefault("exhaustive_sets", {})
        for sep, enc in PAIRS:
            pre = "csv %02x %02x " % (sep, enc)
            alpha = alphabet(sep, enc)
            shape = sz["main"] if (sep, enc) == MAIN else sz["second"] if (sep, enc) in SECOND else sz["others"]
            add(pre + "rt -")
            add(pre + "lines -")
            add(pre + "ser -")
            if (sep, enc) != MAIN:
                n = 0
                for r in self.rows_of(alpha, shape):
                    add(pre + "rt " + r)
                    add(pre + "lines " + r)
                    n += 1
                ex["csv %02x %02x rt+lines" % (sep, enc)] = {"shape(k,maxlen)": shape, "alphabet": [("%02x" % b) for b in alpha], "rows": n}
            # random larger rows
            for _ in range(sz["rand_rows"]):
                row = self.rand_row(sep, enc)
                while self.covered(row, alpha, shape):
                    row = self.rand_row(sep, enc)
                add(pre + "rt " + lst(row))
                add(pre + "lines " + lst(row))
            for _ in range(max(20, sz["rand_rows"] // 10)):
                add(pre + "ser " + lst(self.rand_row(sep, enc)))
            # de: non-serialized lines
            dalpha = []
            for b in (sep, enc, 0x20, 0x0a, 0x61):
                if b not in dalpha:
                    dalpha.append(b)
            dl = 5 if (sep, enc) == MAIN else 3
            dn = 0
            for s in strings_upto(dalpha, dl):
                add(pre + "de " + hexs(s))
                dn += 1
            ex["csv %02x %02x de" % (sep, enc)] = {"maxlen": dl, "alphabet": [("%02x" % b) for b in dalpha], "lines": dn}
            pool = [sep, enc, sep, enc, 0x20, 0x0a, 0x0d, 0x61, 0x62]
            for _ in range(sz["de_rand_main"] if (sep, enc) == MAIN else sz["de_rand"]):
                add(pre + "de " + hexs(self.rand_bytes(pool, 6, 20, 0.03)))
            # feed: sequences of lines
            falpha = []
            for b in (sep, enc, 0x0a, 0x61):
                if b not in falpha:
                    falpha.append(b)
            if (sep, enc) == MAIN:
                ls = strings_upto(falpha, 2)
                fn = 0
                for k in (1, 2, 3):
                    for t in itertools.product(ls, repeat=k):
                        add(pre + "feed " + lst(t))
                        fn += 1
                ex["csv 2c 22 feed"] = {"lines": "1..3", "line maxlen": 2, "alphabet": [("%02x" % b) for b in falpha], "sequences": fn}
            else:
                ls = strings_upto(falpha, 1)
                fn = 0
                for k in (1, 2, 3):
                    for t in itertools.product(ls, repeat=k):
                        add(pre + "feed " + lst(t))
                        fn += 1
                ex["csv %02x %02x feed" % (sep, enc)] = {"lines": "1..3", "line maxlen": 1, "sequences": fn}
            for _ in range(sz["feed_rand_main"] if (sep, enc) == MAIN else sz["feed_rand"]):
                k = self.rng.randint(1, 5)
                add(pre + "feed " + lst([self.rand_bytes(pool, 0, 8, 0.03) for _ in range(k)]))
        # the former hazard witnesses (deserialize_next on an empty field table): ordinary cases now
        add("csv 2c 22 feed .,61")
        add("csv 2c 22 feed 6122,61")
        add("csv 2c 22 feed 6122,.,61,2261")
        return out

    def main_row_batches(self):
        """exhaustive rt + lines cases of the main pair, in batches (the thorough set has 17.4M rows)"""
        sep, enc = MAIN
        alpha = alphabet(sep, enc)
        shape = self.sz["main"]
        self.stats.setdefault("exhaustive_sets", {})["csv 2c 22 rt+lines"] = {
            "shape(k,maxlen)": shape, "alphabet": [("%02x" % b) for b in alpha], "rows": self.shape_count(alpha, shape)}
        batch = []
        meta_rt = self._meta.setdefault("csv.rt", {"kind": "csv.rt"})
        meta_ln = self._meta.setdefault("csv.lines", {"kind": "csv.lines"})
        lim = self.sz["batch"]
        n = self._n
        for r in self.rows_of(alpha, shape):
            n += 1
            l1 = "csv 2c 22 rt " + r
            l2 = "csv 2c 22 lines " + r
            batch.append(Case("R%d" % n, l1, l1, meta_rt))
            batch.append(Case("L%d" % n, l2, l2, meta_ln))
            if len(batch) >= lim:
                self._kind_counts["csv.rt"] = self._kind_counts.get("csv.rt", 0) + len(batch) // 2
                self._kind_counts["csv.lines"] = self._kind_counts.get("csv.lines", 0) + len(batch) // 2
                self._n = n
                yield batch
                batch = []
        self._kind_counts["csv.rt"] = self._kind_counts.get("csv.rt", 0) + len(batch) // 2
        self._kind_counts["csv.lines"] = self._kind_counts.get("csv.lines", 0) + len(batch) // 2
        self._n = n
        if batch:
            yield batch

    # ---------------------------------------------------------------- utf8
    def rand_scalar(self):
        while True:
            lo, hi = self.rng.choice(SCALAR_RANGES)
            cp = self.rng.randint(lo, hi)
            if not 0xd800 <= cp <= 0xdfff:
                return cp

    def rand_valid(self):
        return b"".join(utf8_encode(self.rand_scalar()) for _ in range(self.rng.randint(1, 8)))

    def rand_invalid(self):
        b = bytearray(self.rand_valid())
        for _ in range(self.rng.randint(1, 2)):
            how = self.rng.randrange(4)
            i = self.rng.randrange(len(b)) if b else 0
            nb = self.rng.choice(U8_B16) if self.rng.random() < 0.6 else self.rng.randrange(256)
            if how == 0 and b:
                b[i] = nb
            elif how == 1 and b:
                del b[i]
            elif how == 2 and len(b) > 1:
                del b[self.rng.randint(1, len(b) - 1):]
            else:
                b.insert(i, nb)
        return bytes(b)

    @staticmethod
    def posset(n):
        out = []
        for v in (-1, 0, 1, 2, 3, 4, n - 1, n, n + 1, I64MAX, I64MIN):
            if v not in out:
                out.append(v)
        return [str(v) for v in out] + ["null"]

    def u8_cases(self):
        out = []
        sz = self.sz
        add = lambda line: (lambda c: out.append(c) if c else None)(self.mk(line))
        ex = self.stats.setdefault("exhaustive_sets", {})
        s3 = strings_upto(U8_B16, 3)
        for s in s3:
            add("u8 dec " + hexs(s))
        n4 = 0
        for t in itertools.product(U8_B11, repeat=4):
            add("u8 dec " + bytes(t).hex())
            n4 += 1
        ex["u8 dec"] = {"len<=3 over 16 boundary bytes": len(s3), "len 4 over 11 continuation-boundary bytes": n4}
        valid = [self.rand_valid() for _ in range(sz["u8_valid"])]
        invalid = [self.rand_invalid() for _ in range(sz["u8_invalid"])]
        for s in valid + invalid:
            add("u8 dec " + hexs(s))
        # every single scalar-boundary neighbourhood, one character strings
        for lo, hi in SCALAR_RANGES[:7]:
            for cp in range(lo, hi + 1):
                if not 0xd800 <= cp <= 0xdfff:
                    add("u8 dec " + hexs(utf8_encode(cp)))
        # operations
        subset = strings_upto(U8_B16, 2) + valid[:sz["u8_ops_rand"]] + invalid[:sz["u8_ops_rand"]]
        subset += [b"abc", "Aé€\U0001f600".encode("utf-8"), b"a\0b", b"\xef\xbb\xbfa"]
        nops = 0
        for s in subset:
            h = hexs(s)
            ps = self.posset(rough_count(s))
            n0 = len(out)
            for p in ps:
                add("u8 at %s %s" % (h, p))
                add("u8 substr %s %s -" % (h, p))
            pn = [(p, n) for p in ps for n in ps]
            if sz["pn_sample"] is not None:
                pn1 = self.rng.sample(pn, sz["pn_sample"])
                pn2 = self.rng.sample(pn, sz["pn_sample"])
            else:
                pn1 = pn2 = pn
            for p, n in pn1:
                add("u8 substr %s %s %s" % (h, p, n))
            for p, n in pn2:
                add("u8 remove %s %s %s" % (h, p, n))
            if sz["ins_sample"] is not None:
                pu = set()
                for p in ps:
                    for u in self.rng.sample(INSERT_U, sz["ins_sample"]):
                        pu.add((p, u))
                for u in INSERT_U:
                    pu.add((self.rng.choice(ps), u))
                pu = sorted(pu, key=lambda t: (ps.index(t[0]), INSERT_U.index(t[1])))
            else:
                pu = [(p, u) for p in ps for u in INSERT_U]
            for p, u in pu:
                add("u8 insert %s %s %s" % (h, p, u))
            for p in ps:
                for h2 in INSERTC_H2:
                    add("u8 insertc %s %s %s" % (h, p, h2))
                # the object inserted into itself (`u.insert(p, u)`: the plugin hands the receiver's own vector): same
                # result as inserting an equal copy
                if s and b"\0" not in s:       # (a NUL ends the receiver's text but not the argument's: not the same object)
                    c = self.mk("u8 insertc %s %s %s" % (h, p, h), impl_line="u8 insertc %s %s self" % (h, p))
                    out.append(c)
            nops += len(out) - n0
        self.stats["u8_ops"] = {"strings": len(subset), "cases": nops}
        add("u8 tableid")
        # the former out-of-bounds witnesses: INDEX_RANGE now
        add("u8 at 616263 10000000")
        add("u8 at 616263 -1")
        return out

    # ---------------------------------------------------------------- enumeration
    def case_batches(self):
        first = self.csv_small_cases() + self.u8_cases()
        self._seen = set()          # only needed while generating the deduplicated families
        yield first
        for b in self.main_row_batches():
            yield b

    def gen_cases(self):
        cases = []
        for b in self.case_batches():
            cases.extend(b)
        self.log_counts()
        return cases

    def log_counts(self):
        tot = sum(self._kind_counts.values())
        self.stats["cases"] = tot
        self.stats["kinds_generated"] = dict(sorted(self._kind_counts.items()))
        log("C18 %s: %d cases: %s" % (self.tier, tot, " ".join("%s=%d" % kv for kv in sorted(self._kind_counts.items()))))

    def case_timeout(self):
        return 60

    # ---------------------------------------------------------------- correspondence
    def step_correspondence(self):
        try:
            hbin = build_mod.modprobe_build()
        except build.BuildError as e:
            self.broken_ties.append("build: %s: %s" % (e.what, e.output[-800:]))
            return
        self.stats["exhaustive"] = True
        impl_s = model_s = 0.0
        driver_err = None
        for cases in self.case_batches():
            if not cases:
                continue
            lines = ["%s %s" % (c.cid, c.impl_line) for c in cases]
            # probe and driver run concurrently (both are pools of subprocesses)
            def timed(f, *a, **kw):
                t = time.time()
                r = f(*a, **kw)
                return r, time.time() - t
            with ThreadPoolExecutor(max_workers=2) as ex:
                fi = ex.submit(timed, run.run_harness, hbin, lines, timeout_s=self.case_timeout())
                fm = ex.submit(timed, run.run_driver, lines if all(c.model_line == c.impl_line for c in cases)
                               else ["%s %s" % (c.cid, c.model_line) for c in cases])
                try:
                    impl, dt = fi.result()
                    impl_s += dt
                    model, dt = fm.result()
                    model_s += dt
                except OSError as e:
                    self.broken_ties.append("correspondence could not be executed (probe or driver binary): %s" % e)
                    break
            if "#driver-error" in model and driver_err is None:
                driver_err = model["#driver-error"]
            del lines
            self.judge_batch(cases, impl, model)
        self.stats["impl_s"] = round(impl_s, 1)
        self.stats["model_s"] = round(model_s, 1)
        if driver_err is not None:
            self.broken_ties.append("driver: " + driver_err[-400:])
        self.log_counts()
        self.stats["kinds"] = self.stats.pop("kinds_generated")
        self.stats["fast_path_agreements"] = self._fast

    def judge_batch(self, cases, impl, model):
        for c in cases:
            self.evaluations += 1
            iraw = impl.get(c.cid)
            if iraw is None:
                self.record_violation("harness lost case", c, "?", {})
                continue
            mans = model.get(c.cid, "")
            # fast path (identical verdict to judge()): the driver answered exactly `model=<impl answer>`,
            # no spec= / kf= / note= and no hazard
            if len(mans) == len(iraw) + 6 and mans.endswith(iraw) and mans.startswith("model=") and "hazard" not in iraw \
                    and " spec=" not in iraw and " kf=" not in iraw and " note=" not in iraw:
                self._fast += 1
                self.distinct.add()
                self.tally(c, iraw, None)
                self.sample(c, iraw, iraw, None)
                continue
            self.judge(c, iraw, parse_model(mans), impl.get(c.cid + "#stderr", ""))

    def sample(self, c, iraw, mout, spec):
        kind = c.meta.get("kind", "?")
        at = self._sample_at.get(kind)
        if at is None:
            at = self._sample_at[kind] = [self.rng.randrange(40), 0]
        if at[1] == at[0] and len(self.samples) < 24:
            self.samples.append({"case": c.model_line, "impl": iraw[:300], "model": (mout or "")[:300] if mout is not None else None,
                                 "spec": spec})
        at[1] += 1

    def tally(self, c, iout, m):
        kind = c.meta.get("kind", "?")
        d = self.stats.setdefault("impl_outcomes", {})
        k = kind + " " + outcome_class(kind, iout)
        d[k] = d.get(k, 0) + 1

    def finding(self, kf):
        return next((f for f in self.findings if f["id"] == kf and f.get("status", "known") == "known"), None)

    def judge(self, c, iraw, m, stderr):
        kind = c.meta.get("kind", "?")
        mout = m.get("model")
        spec = m.get("spec")
        kf = m.get("kf")
        self.distinct.add()
        self.tally(c, iraw, m)
        self.sample(c, iraw, mout, spec)
        if mout is None:
            self.record_violation("model gave no answer", c, iraw, m, stderr)
            return
        entry = self.finding(kf) if kf else None
        raw = kind in ("csv.feedraw", "u8.atraw")
        if "hazard" in mout:
            # C-level hazard region (undefined behaviour in the C++): acceptable only as a listed known finding
            if not kf:
                self.record_violation("model reaches a C-level hazard outside every recorded region", c, iraw, m, stderr)
                return
            if entry is None:
                self.record_violation("hazard/defect region %s is not a listed known finding" % kf, c, iraw, m, stderr)
                return
            if raw:
                if not iraw.startswith("crash "):
                    self.record_violation("model predicts the hazard %s but the unguarded call survived" % kf, c, iraw, m, stderr)
                    return
                info = iraw
                for ln in stderr.split("\n"):
                    if "Assertion" in ln and "failed" in ln:
                        info += " (" + ln[ln.index("Assertion"):].strip() + ")"
                        break
                # the unguarded witness (a real abort) replaces a guarded example of the same region
                self.known_hits[kf] = {"what": entry["what"], "example": c.model_line, "impl": info}
                return
            if iraw != mout:
                self.record_violation("behaviour in known-finding region %s differs from the model's hazard answer" % kf,
                                      c, iraw, m, stderr)
                return
            self.known_hits.setdefault(kf, {"what": entry["what"], "example": c.model_line, "impl": iraw})
            return
        agree_model = iraw == mout
        agree_spec = spec is None or iraw == spec
        if kf:
            if entry is None:
                self.record_violation("hazard/defect region %s is not a listed known finding" % kf, c, iraw, m, stderr)
                return
            # dual oracle inside a known region: the recorded defect (model) or the specification
            if agree_model or (spec is not None and agree_spec):
                if agree_model and not (spec is not None and agree_spec):
                    self.known_hits.setdefault(kf, {"what": entry["what"], "example": c.model_line, "impl": iraw})
                return
            self.record_violation("behaviour in known-finding region %s matches neither the recorded defect nor the specification" % kf,
                                  c, iraw, m, stderr)
            return
        if not agree_model:
            self.record_violation("implementation differs from the model" + ("" if agree_spec else " and from the specification"),
                                  c, iraw, m, stderr)
            return
        if not agree_spec:
            self.record_violation("implementation and model agree but contradict the specification", c, iraw, m, stderr)

    # ---------------------------------------------------------------- driver
    def run(self):
        self.step_extract()
        self.step_proofs()
        self.step_correspondence()
        c18f.run_half(self)               # C18F: file and sqlite3 modules (real .so files through blocprobe)
        if self.broken_ties and not self.violations:
            self.search_failing_input()
        return self.finish()

    def replay(self, rep):
        """re-run the recorded violating case lines through probe and driver"""
        f_viol = [v for v in rep.get("violations", []) if (v.get("meta") or {}).get("full_model_line")]      # C18F
        if f_viol:
            return c18f.replay(self, f_viol)
        lines = [v.get("case") or v.get("impl_ops") for v in rep.get("violations", [])]
        cases = [c for c in (self.mk(ln) for ln in lines if ln) if c]
        for b in rep.get("broken_ties", []):
            print("  broken: " + b[:300])
        if not cases:
            print("replay: no case lines recorded")
            return 1 if rep.get("broken_ties") else 0
        ok, out = build.lean_build(["blocv"])
        if not ok:
            print("replay: lake build blocv failed")
            return 1
        hbin = build_mod.modprobe_build()
        text = ["%s %s" % (c.cid, c.impl_line) for c in cases]
        impl = run.run_harness(hbin, text, timeout_s=self.case_timeout())
        model = run.run_driver(text)
        self.judge_batch(cases, impl, model)
        for c in cases:
            print("case=%s\n  impl=%s\n  %s" % (c.model_line, impl.get(c.cid), model.get(c.cid)))
        for v in self.violations:
            print("VIOLATION property=%s %s: case=%s" % (self.pid, v["what"], v["case"]))
        return 1 if self.violations else 0
