"""C07 — errors reach the nearest matching handler and leave no residue once handled."""
import itertools

from .. import progen
from ..progen import I, L, S
from ..progcheck import ProgCheck

PROBE = [("let", "ZZ", I(0)), ("for", "QQ", I(1), I(3), None, "auto", [("let", "ZZ", ("bin", "ADD", ("var", "ZZ"), ("var", "QQ")))]),
         ("let", "ZW", I(0)), ("while", ("bin", "LT", ("var", "ZW"), I(2)), [("let", "ZW", ("bin", "ADD", ("var", "ZW"), I(1)))]),
         ("begin", [("raise", "PROBE")], [("PROBE", [("print", [S("probe handled")])])]),
         ("return", ("var", "ZZ"))]

FAILS = {
    "E1": ("raise", "E1"),
    "E2": ("raise", "E2"),
    "DIV": ("let", "X9", ("bin", "DIV", I(1), ("var", "ZERO"))),
    "RANGE": ("let", "S9", ("call", "chr", [("var", "BIG")])),
    "RAISE_DIV": ("raise", "DIVIDE_BY_ZERO"),
    "RAISE_RANGE": ("raise", "OUT_OF_RANGE"),
    "CONV": ("let", "X8", ("call", "int", [S("xyz")])),          # STRING_TO_NUM: not catchable
    "TYPE": ("let", "X7", ("bin", "SUB", ("fcall", "OPAQ", [S("str")]), I(1))),  # opaque function result holding a string: runtime INV_EXPRESSION
}
HANDLERS = [[], ["E1"], ["OTHERS"], ["E2", "OTHERS"], ["OTHERS", "E1"], ["DIVIDE_BY_ZERO"], ["OUT_OF_RANGE", "E2"], ["E1", "E2"]]


def wrap(kind, inner, tag):
    """wrap statement list `inner` into a control structure"""
    if kind == "for":
        return [("for", "K" + tag, I(1), I(2), None, "auto", [("print", [S("f" + tag), ("var", "K" + tag)])] + inner)]
    if kind == "while":
        w = "W" + tag
        return [("let", w, I(0)), ("while", ("bin", "LT", ("var", w), I(2)), [("let", w, ("bin", "ADD", ("var", w), I(1))), ("print", [S("w" + tag)])] + inner)]
    if kind == "if":
        return [("if", [(("bin", "EQ", ("var", "ZERO"), I(0)), inner)])]
    return inner


class C07(ProgCheck):
    pid = "C07"
    proof_modules = ["BlocV.Proofs.C07"]
    rule = ("generated nestings (depth <= 3) of begin/for/while/if/function around one failing operation (user raise, "
            "1/0, chr(300), raise of the catchable built-in names, a non-catchable conversion error, a runtime type error) "
            "x handler-name sets at two block levels (incl. OTHERS first/last, no handler); every program is followed, in the "
            "same context, by a probe program (for, while, begin/raise, return) whose result must be unaffected; observed: "
            "printed trace of which handler ran, error code reaching the host, variables, control/exec depth, constraint "
            "flags; plus seeded random programs with a raised error rate. distinct = program text.")

    def gen_cases(self):
        quick = self.tier == "quick"
        cases = []
        n = 0

        def add(p1, meta):
            nonlocal n
            n += 1
            cases.append(self.prog2_case("c%d" % n, p1, PROBE, meta))

        opaq = ("func", "OPAQ", ["X"], "?", [("return", ("var", "X"))], [])
        init = [opaq, ("let", "ZERO", I(0)), ("let", "BIG", I(300))]
        kinds = ["none", "for", "while", "if"]
        for fname, fail in FAILS.items():
            for h_in, h_out in itertools.product(HANDLERS, HANDLERS):
                if quick and (HANDLERS.index(h_in) + HANDLERS.index(h_out) + len(fname)) % 3:
                    continue
                for k_in, k_mid in itertools.product(kinds, kinds):
                    if quick and (kinds.index(k_in) + kinds.index(k_mid) + len(h_in)) % 2:
                        continue
                    body = wrap(k_in, [("print", [S("before")]), fail, ("print", [S("not reached?")])], "1")
                    inner = ("begin", body, [(nm, [("print", [S("inner " + nm)])]) for nm in h_in])
                    mid = wrap(k_mid, [inner, ("print", [S("after inner")])], "2")
                    outer = ("begin", mid, [(nm, [("print", [S("outer " + nm)])]) for nm in h_out])
                    add(init + [outer, ("print", [S("end")])], {"family": "nest", "fail": fname})
            # the failing operation inside a called function, handler in the caller / in the function
            for h_f, h_c in itertools.product(HANDLERS[:5], HANDLERS[:5]):
                f = ("func", "FF", ["I7"], "i", [("let", "ZERO", I(0)), ("let", "BIG", I(300)),
                                                 ("for", "K5", I(1), I(2), None, "auto", [fail]), ("return", I(1))],
                     [(nm, [("print", [S("in f " + nm)]), ("return", I(2))]) for nm in h_f])
                call = ("begin", [("for", "K6", I(1), I(2), None, "auto", [("let", "R", ("fcall", "FF", [("var", "K6")])), ("print", [S("r"), ("var", "R")])])],
                        [(nm, [("print", [S("caller " + nm)])]) for nm in h_c])
                add([opaq, f] + init[1:] + [call, ("print", [S("end")])], {"family": "func", "fail": fname})
            # error raised inside a handler
            for h_out in HANDLERS:
                inner = ("begin", [("raise", "E1")], [("E1", [("print", [S("h1")]), fail, ("print", [S("h1 not reached?")])])])
                outer = ("begin", wrap("for", [inner], "3"), [(nm, [("print", [S("outer " + nm)])]) for nm in h_out])
                add(init + [outer, ("print", [S("end")])], {"family": "in-handler", "fail": fname})
        for k in range(300 if quick else 5000):
            g = progen.Gen(self.rng, nvars=2, funcs=(k % 2 == 0), errors=0.25)
            add(g.program(nstmts=self.rng.randint(3, 6), depth=3), {"family": "random"})
        self.stats["cases"] = n
        return cases
