"""C07 — errors reach the nearest matching handler and leave no residue once handled."""
import itertools

from .. import progen
from ..progen import I, L, S, ERRPRINT, ERRITEM
from ..progcheck import ProgCheck, strip_flags
from ..core import Case, outcomes_agree
from ..run import hx

PROBE = [("let", "ZZ", I(0)), ("for", "QQ", I(1), I(3), None, "auto", [("let", "ZZ", ("bin", "ADD", ("var", "ZZ"), ("var", "QQ")))]),
         ("let", "ZW", I(0)), ("while", ("bin", "LT", ("var", "ZW"), I(2)), [("let", "ZW", ("bin", "ADD", ("var", "ZW"), I(1)))]),
         ("begin", [("raise", "PROBE")], [("PROBE", [("print", [S("probe handled")])])]),
         ("return", ("var", "ZZ"))]

FAILS = {
    "E1": ("raise", "E1"),
    "E2": ("raise", "E2"),
    "DIV": ("let", "X9", ("bin", "DIV", I(1), ("var", "ZERO"))),
    "RANGE": ("let", "S9", ("call", "chr", [("var", "BIG")])),
    "RAISE_DIV": ("raise", "DIVIDE_BY_ZERO"),
    "RAISE_RANGE": ("raise", "OUT_OF_RANGE"),
    "CONV": ("let", "X8", ("call", "int", [S("xyz")])),          # STRING_TO_NUM: not catchable
    "TYPE": ("let", "X7", ("bin", "SUB", ("fcall", "OPAQ", [S("str")]), I(1))),  # opaque function result holding a string: runtime INV_EXPRESSION
}
HANDLERS = [[], ["E1"], ["OTHERS"], ["E2", "OTHERS"], ["OTHERS", "E1"], ["DIVIDE_BY_ZERO"], ["OUT_OF_RANGE", "E2"], ["E1", "E2"]]


def wrap(kind, inner, tag):
    """wrap statement list `inner` into a control structure"""
    if kind == "for":
        return [("for", "K" + tag, I(1), I(2), None, "auto", [("print", [S("f" + tag), ("var", "K" + tag)])] + inner)]
    if kind == "while":
        w = "W" + tag
        return [("let", w, I(0)), ("while", ("bin", "LT", ("var", w), I(2)), [("let", w, ("bin", "ADD", ("var", w), I(1))), ("print", [S("w" + tag)])] + inner)]
    if kind == "if":
        return [("if", [(("bin", "EQ", ("var", "ZERO"), I(0)), inner)])]
    return inner


class C07(ProgCheck):
    pid = "C07"
    proof_modules = ["BlocV.Proofs.C07"]
    rule = ("generated nestings (depth <= 3) of begin/for/while/if/function around one failing operation (user raise, "
            "1/0, chr(300), raise of the catchable built-in names, a non-catchable conversion error, a runtime type error) "
            "x handler-name sets at two block levels (incl. OTHERS first/last, no handler); every program is followed, in the "
            "same context, by a probe program (for, while, begin/raise, return) whose result must be unaffected; observed: "
            "printed trace of which handler ran, error code reaching the host, variables, control/exec depth, constraint "
            "flags; plus seeded random programs with a raised error rate. Family errrec: the error record read through "
            "error@1/@2/@3 in the clause, after an inner handled block, in a function called from the clause, after the block, "
            "in an outer clause after the inner clause failed, by the next program of the same context after an error reached the "
            "host; random programs read error@N in every expression position and report it in clauses and functions. "
            "distinct = program text.")

    def gen_cases(self):
        quick = self.tier == "quick"
        cases = []
        n = 0

        def add(p1, meta):
            nonlocal n
            n += 1
            cases.append(self.prog2_case("c%d" % n, p1, PROBE, meta))

        opaq = ("func", "OPAQ", ["X"], "?", [("return", ("var", "X"))], [])
        init = [opaq, ("let", "ZERO", I(0)), ("let", "BIG", I(300))]
        kinds = ["none", "for", "while", "if"]
        for fname, fail in FAILS.items():
            for h_in, h_out in itertools.product(HANDLERS, HANDLERS):
                if quick and (HANDLERS.index(h_in) + HANDLERS.index(h_out) + len(fname)) % 3:
                    continue
                for k_in, k_mid in itertools.product(kinds, kinds):
                    if quick and (kinds.index(k_in) + kinds.index(k_mid) + len(h_in)) % 2:
                        continue
                    body = wrap(k_in, [("print", [S("before")]), fail, ("print", [S("not reached?")])], "1")
                    inner = ("begin", body, [(nm, [("print", [S("inner " + nm)])]) for nm in h_in])
                    mid = wrap(k_mid, [inner, ("print", [S("after inner")])], "2")
                    outer = ("begin", mid, [(nm, [("print", [S("outer " + nm)])]) for nm in h_out])
                    add(init + [outer, ("print", [S("end")])], {"family": "nest", "fail": fname})
            # the failing operation inside a called function, handler in the caller / in the function
            for h_f, h_c in itertools.product(HANDLERS[:5], HANDLERS[:5]):
                f = ("func", "FF", ["I7"], "i", [("let", "ZERO", I(0)), ("let", "BIG", I(300)),
                                                 ("for", "K5", I(1), I(2), None, "auto", [fail]), ("return", I(1))],
                     [(nm, [("print", [S("in f " + nm)]), ("return", I(2))]) for nm in h_f])
                call = ("begin", [("for", "K6", I(1), I(2), None, "auto", [("let", "R", ("fcall", "FF", [("var", "K6")])), ("print", [S("r"), ("var", "R")])])],
                        [(nm, [("print", [S("caller " + nm)])]) for nm in h_c])
                add([opaq, f] + init[1:] + [call, ("print", [S("end")])], {"family": "func", "fail": fname})
            # error raised inside a handler
            for h_out in HANDLERS:
                inner = ("begin", [("raise", "E1")], [("E1", [("print", [S("h1")]), fail, ("print", [S("h1 not reached?")])])])
                outer = ("begin", wrap("for", [inner], "3"), [(nm, [("print", [S("outer " + nm)])]) for nm in h_out])
                add(init + [outer, ("print", [S("end")])], {"family": "in-handler", "fail": fname})
        # ---- the error record (error@1 name, error@2 message, error@3 code)
        fread = ("func", "FREAD", [], "i", [ERRPRINT("in-f"), ("return", I(0))], [])
        host_probe = [ERRPRINT("host")] + PROBE
        ne = 0
        seen = set()
        for fname, fail in FAILS.items():
            for fname2, fail2 in FAILS.items():
                if quick and (len(fname) + 2 * len(fname2)) % 3 == 0 and fname != fname2:
                    continue
                for clause in (["OTHERS"], ["E1", "E2", "DIVIDE_BY_ZERO", "OUT_OF_RANGE"]):
                    def whens(body, names=clause):
                        return [(nm, list(body)) for nm in names]
                    pre = [opaq, fread] + init[1:]
                    # a: the clause reads its error; read again after the block
                    def add2(p1, meta):
                        cs = self.prog2_case("e%d" % len(cases), p1, host_probe, meta)
                        if cs.model_line not in seen:
                            seen.add(cs.model_line)
                            cases.append(cs)
                    add2(pre + [("begin", [fail], whens([ERRPRINT("h")])), ERRPRINT("after")], {"family": "errrec", "shape": "direct", "fail": fname})
                    # b: an inner block handles its own error, then the outer clause reads again   (finding C07.error_record_cleared_by_inner_handler)
                    inner = ("begin", [fail2], whens([ERRPRINT("inner")]))
                    add2(pre + [("begin", [fail], whens([ERRPRINT("h"), inner, ERRPRINT("hagain")]))],
                         {"family": "errrec", "shape": "inner-handled", "fail": fname, "same": [("h", "hagain", "C07.error_record_cleared_by_inner_handler")]})
                    # c: an inner block that does not fail leaves the record alone
                    quiet = ("begin", [("print", [S("quiet")])], whens([ERRPRINT("never")]))
                    add2(pre + [("begin", [fail], whens([ERRPRINT("h"), quiet, ERRPRINT("hagain")]))],
                         {"family": "errrec", "shape": "inner-quiet", "fail": fname, "same": [("h", "hagain", "C07.error_record_cleared_by_inner_handler")]})
                    # d: a function called from the clause reads the record of ITS context
                    add2(pre + [("begin", [fail], whens([ERRPRINT("h"), ("let", "R9", ("fcall", "FREAD", [])), ERRPRINT("hagain")]))],
                         {"family": "errrec", "shape": "function-in-clause", "fail": fname, "same": [("h", "hagain", "C07.error_record_cleared_by_inner_handler")]})
                    # e: the clause fails in turn; an outer clause / the host / the next program read the record
                    failing = ("begin", [fail], whens([ERRPRINT("h"), fail2, ERRPRINT("h not reached?")]))
                    add2(pre + [("begin", [failing], whens([ERRPRINT("outer")])), ERRPRINT("after")], {"family": "errrec", "shape": "clause-fails-caught", "fail": fname})
                    add2(pre + [failing, ERRPRINT("after")], {"family": "errrec", "shape": "clause-fails-to-host", "fail": fname})
                    # e2: inside the clause, a block handles the failure of an inner clause, then the clause reads again
                    #     (finding C07.error_record_stale_after_failed_inner_clause)
                    inner_failing = ("begin", [("raise", "E1")], [("E1", [fail2])])
                    add2(pre + [("begin", [fail], whens([ERRPRINT("h"), ("begin", [inner_failing], whens([ERRPRINT("mid")])), ERRPRINT("hagain")]))],
                         {"family": "errrec", "shape": "inner-clause-fails-handled", "fail": fname, "same": [("h", "hagain", "C07.error_record_stale_after_failed_inner_clause")]})
                    # f: handled errors inside a loop inside the clause
                    loop = ("for", "K8", I(1), I(2), None, "auto", [("begin", [("if", [(("bin", "EQ", ("var", "K8"), I(2)), [fail2])])], whens([ERRPRINT("inloop")])), ERRPRINT("iter")])
                    add2(pre + [("begin", [fail], whens([loop, ERRPRINT("hend")]))], {"family": "errrec", "shape": "loop-in-clause", "fail": fname})
                    ne += 8
        self.stats["errrec_cases"] = sum(1 for c in cases if c.meta.get("family") == "errrec")
        for k in range(300 if quick else 5000):
            g = progen.Gen(self.rng, nvars=2, funcs=(k % 2 == 0), errors=0.25, errrec=(0.08 if k % 3 else 0.0), extras=(0.15 if k % 2 else 0.0), mathx=(0.2 if k % 4 == 3 else 0.0))
            add(g.program(nstmts=self.rng.randint(3, 6), depth=3), {"family": "random"})
            for kk, vv in g.stats.items():
                if kk.startswith(("error-", "handler-reports", "function-clause", "function-reads", "isnull", "mathx-")):
                    self.stats.setdefault("errrec_random", {})[kk] = self.stats.get("errrec_random", {}).get(kk, 0) + vv
        cases += self.interactive_cases(quick)
        self.stats["cases"] = len(cases)
        shapes = {}
        for c in cases:
            if c.meta.get("family") == "errrec":
                k2 = c.meta["shape"] + "/" + c.meta["fail"]
                shapes[k2] = shapes.get(k2, 0) + 1
        self.stats["errrec_distribution"] = shapes
        return cases

    # ------------------------------------------------------------------ the interactive runner (`bloc -i`), probe op `istep`
    KF_INTER = "C07.interactive_runner_keeps_control_entry"

    def inter_case(self, cid, prog, meta):
        src = progen.program_src(prog)
        m = dict(meta)
        m["src"] = src
        m["family"] = "interactive"
        return Case(cid, "isteps %d %s" % (self.fuel, hx(progen.program_sexp(prog))),
                    "|".join(["new 0", "istep 0 %s" % hx(src), "out 0", "dump 0"]), m)

    def interactive_cases(self, quick):
        r = self.rng
        # the probe op `istep` is a hand copy of the cli's main loop: the tie to apps/cli_parser.cpp is the shape of its source
        import os, re
        from .. import build
        try:
            cli = open(os.path.join(build.REPO, "apps", "cli_parser.cpp"), encoding="latin-1").read()
        except OSError as e:
            cli = ""
        m = re.search(r"try\s*\{\s*r\s*=\s*r->execute\(ctx\);\s*\}\s*catch\s*\(bloc::RuntimeError&\s*\w+\)\s*\{(.*?)break;", cli, flags=re.S)
        if not m or "ctx.onRuntimeError();" not in m.group(1):
            self.broken_ties.append("apps/cli_parser.cpp: the interactive loop is not `try { r = r->execute(ctx); } catch (RuntimeError&) { … ctx.onRuntimeError(); … break; }` "
                                    "(the probe op istep and Model stepTop mirror that shape)")
        cases = []
        fresh = [0]

        def nm(p):
            fresh[0] += 1
            return "%s%d" % (p, fresh[0])

        div0 = ("bin", "GT", ("bin", "DIV", I(1), ("var", "ZERO")), I(0))

        def atom(kind):
            """one statement typed at the prompt (sometimes preceded by the assignment it needs) -> (statements, leaves an entry?, purges?)"""
            if kind == "while-cond-fails":
                return [("while", div0, [("nop",)])]
            if kind == "while-cond-fails-later":
                w = nm("W")
                return [("let", w, I(0)), ("while", ("bin", "GT", ("bin", "DIV", I(10), ("bin", "SUB", I(1), ("var", w))), I(0)),
                                           [("let", w, ("bin", "ADD", ("var", w), I(1))), ("print", [S("it"), ("var", w)])])]
            if kind == "while-body-fails":
                w = nm("W")
                return [("let", w, I(0)), ("while", ("bin", "LT", ("var", w), I(3)), [("let", w, ("bin", "ADD", ("var", w), I(1))), r.choice(list(FAILS.values()))])]
            if kind == "while-ok":
                w = nm("W")
                return [("let", w, I(0)), ("while", ("bin", "LT", ("var", w), I(2)), [("let", w, ("bin", "ADD", ("var", w), I(1))), ("print", [S("w"), ("var", w)])])]
            if kind == "for-var-null":
                k = nm("K")
                return [("for", k, I(1), I(3), None, r.choice(["auto", "asc"]), [("print", [S("k"), ("var", k)]), ("let", k, L("N:i0"))])]
            if kind == "for-body-fails":
                k = nm("K")
                return [("for", k, I(1), I(3), None, "auto", [("print", [S("k"), ("var", k)]), r.choice(list(FAILS.values()))])]
            if kind == "for-header-fails":
                k = nm("K")
                return [("for", k, I(1), ("bin", "DIV", I(3), ("var", "ZERO")), None, "auto", [("nop",)])]
            if kind == "for-ok":
                k = nm("K")
                return [("for", k, I(1), I(2), None, "auto", [("print", [S("q"), ("var", k)])])]
            if kind == "for-break":
                k = nm("K")
                return [("for", k, I(1), I(5), None, "auto", [("if", [(("bin", "EQ", ("var", k), I(2)), [("break",)])]), ("print", [S("b"), ("var", k)])])]
            if kind == "simple-fails":
                return [r.choice(list(FAILS.values()))]
            if kind == "if-cond-fails":
                return [("if", [(div0, [("print", [S("never")])])])]
            if kind == "if-body-fails":
                return [("if", [(("bin", "EQ", ("var", "ZERO"), I(0)), [r.choice(list(FAILS.values()))])])]
            if kind == "begin-handles":
                return [("begin", [("raise", "E1")], [("E1", [ERRPRINT("h")])])]
            if kind == "begin-unmatched":
                return [("begin", [("for", nm("K"), I(1), I(2), None, "auto", [("raise", "E2")])], [("E1", [("nop",)])])]
            if kind == "begin-loop-header-fails":
                return [("begin", [("while", div0, [("nop",)])], [])]
            if kind == "print":
                return [("print", [S("alive"), ERRITEM(3)])]
            raise ValueError(kind)

        kinds = ["while-cond-fails", "while-cond-fails-later", "while-body-fails", "while-ok", "for-var-null", "for-body-fails", "for-header-fails",
                 "for-ok", "for-break", "simple-fails", "if-cond-fails", "if-body-fails", "begin-handles", "begin-unmatched", "begin-loop-header-fails", "print"]
        opaq = ("func", "OPAQ", ["X"], "?", [("return", ("var", "X"))], [])
        init = [opaq, ("let", "ZERO", I(0)), ("let", "BIG", I(300))]
        dist = {}
        n = 0

        def add(seq):
            nonlocal n
            prog = list(init)
            for k in seq:
                dist[k] = dist.get(k, 0) + 1
                prog += atom(k)
            n += 1
            cases.append(self.inter_case("i%d" % n, prog, {"kinds": seq}))

        for k1 in kinds:                      # every kind alone, and followed by every kind (complete)
            add([k1])
            for k2 in kinds:
                add([k1, k2, "print"])
        for _ in range(200 if quick else 4000):
            add([r.choice(kinds) for _ in range(r.randint(3, 6))])
        # random programs, their top-level statements typed one by one
        for k in range(150 if quick else 3000):
            g = progen.Gen(r, nvars=2, funcs=(k % 2 == 0), errors=0.25, errrec=(0.08 if k % 3 == 0 else 0.0))
            n += 1
            cases.append(self.inter_case("i%d" % n, g.program(nstmts=r.randint(3, 6), depth=3), {"kinds": ["random"]}))
        self.stats["interactive_cases"] = n
        self.stats["interactive_distribution"] = dist
        return cases

    def judge(self, c, iraw, m, stderr):
        if c.meta.get("family") != "interactive":
            return ProgCheck.judge(self, c, iraw, m, stderr)
        outcome, out, dump = self.split_impl(c, iraw)
        self.tally(c, "interactive", m)
        mout = m.get("model")
        if mout is None:
            return self.record_violation("model gave no answer", c, outcome, m)
        import re
        mm = re.match(r"^(.*?) out=([0-9a-f]*) vars=(.*)$", mout)
        if not mm:
            return self.record_violation("unparsable model answer", c, outcome, m)
        moutc, mo, mvars = mm.group(1), mm.group(2), mm.group(3)
        self.distinct.add((c.model_line,))
        if "unmodelled" in moutc or "oof" in moutc:
            self.stats["interactive_unmodelled"] = self.stats.get("interactive_unmodelled", 0) + 1
            return
        m2 = dict(m)
        m2["model"] = moutc
        if "hazard" in moutc:
            return self.record_violation("model reaches a C-level hazard in an interactive run", c, outcome, m2, stderr)
        if outcome is None or dump is None:
            return self.record_violation("interactive run did not complete: %s" % iraw[:200], c, outcome, m2, stderr)
        if outcome != moutc:
            return self.record_violation("interactive run: statement outcomes differ from the model", c, outcome, m2, stderr)
        if out != mo:
            return self.record_violation("interactive run: printed output differs from the model: impl %r model %r" % (
                bytes.fromhex(out or "").decode("latin-1")[:300], bytes.fromhex(mo).decode("latin-1")[:300]), c, outcome, m2)
        for ent in mvars.split(";") if mvars else []:
            name, _, val = ent.partition(":")
            got = dump["syms"].get(name)
            if got is None:
                continue            # a statement the parser refused, or one never reached, registers nothing
            if strip_flags(got[2]) != val:
                return self.record_violation("interactive run: variable %s = %s, the model gives %s" % (name, strip_flags(got[2]), val), c, outcome, m2)
        mcd = int((m.get("note") or "cd=-1").split("=")[1])
        if dump["cd"] != mcd:
            return self.record_violation("interactive run: control depth %d after the session, the model gives %d" % (dump["cd"], mcd), c, outcome, m2)
        if dump["ed"] != 0 or dump["tmp"] != 0:
            return self.record_violation("interactive run: exec depth %d, temporaries %d after the session" % (dump["ed"], dump["tmp"]), c, outcome, m2)
        d = self.stats.setdefault("interactive_control_depth", {})
        d[str(mcd)] = d.get(str(mcd), 0) + 1
        if mcd != 0:
            # the property (no residue after a reported error) is contradicted; model and implementation agree: recorded finding
            entry = next((f for f in self.findings if f["id"] == self.KF_INTER and f.get("status", "known") == "known"), None)
            if entry is None:
                return self.record_violation("interactive run leaves %d control entries (model agrees) and no known finding covers it" % mcd, c, outcome, m2)
            self.known_hits.setdefault(self.KF_INTER, {"what": entry["what"], "example": c.meta.get("src", "")[-160:].replace("\n", " "),
                                                       "impl": "%s cd=%d" % (outcome, dump["cd"])})
