"""C01 — any source text is either executed or rejected with an error; never a crash."""
import itertools
import re

from .. import progen
from .. import fe
from ..core import Case, Check, outcomes_agree
from ..progen import I, L, S
from ..run import hx
from .c02 import VALS, sty
from .c03 import OPS, CMP
from .c04 import LOGIC
from .c05 import IDF, UNOPS

ALLOWED = ("ok", "perr", "rerr")
MEMBERS = ["at", "put", "insert", "delete", "concat", "count"]
# Built-ins whose outcome class (value / parse error code / runtime error code) is also compared with the Lean model
# (`bi` command of the driver = Model/Builtins.lean `evalBuiltin`) when every operand is a typed variable: the two
# built-ins modelled after the repairs fde74fa (abs) and eec6e8e (pow). Their values are compared by ./check C10.
MODEL_COMPARED = ("abs", "pow")
# fuel of the model front end for the `text` family (a mutated program may loop: `oof` answers are counted, not compared)
FE_FUEL = 20000


def crash_class(iout):
    if iout.endswith("diverges"):
        return "diverges"
    cls = iout.split(" ", 1)[1] if " " in iout else iout
    if cls in ("ubsan:null", "segv") or cls.startswith("asan:"):
        return "memory"
    if cls.startswith("ubsan:float-cast"):
        return "floatcast"
    if cls.startswith("ubsan:signed"):
        return "overflow"
    if cls.startswith("exc:") or cls == "abort":
        return "foreign-exception"
    if cls in ("fpe", "ubsan:div-overflow", "ubsan:div-by-zero"):
        return "fpe"
    return cls.replace(":", "-")


TOKEN_RE = re.compile(r'"(?:[^"\\]|\\.)*"|[A-Za-z_$][A-Za-z0-9_]*|\d+\.\d+|\d+|\*\*|<<|>>|==|!=|<=|>=|<>|&&|\|\||\S')


class C01(Check):
    pid = "C01"
    proof_modules = ["BlocV.Proofs.C01"]
    rule = ("(a) every built-in function of BuiltinExpression::KEYWORDS (generated list) x arity 0..2 (3 for selected) x operand "
            "classes (integer, decimal, boolean, string, bytes, typed/untyped nulls, tables, tuple; boundary numbers) x operand "
            "source (typed variable | opaque function result), every operator and member method likewise, run under "
            "ASan+UBSan(+float-cast): the outcome must be a value, a parse error or a runtime error; (b) source texts: generated "
            "valid programs mutated at EVERY token position (delete, duplicate, replace, truncate) and by byte edits (NUL, high "
            "bytes, unterminated strings/comments, >1023-byte lines), through Parser::parse+run, the C API and the "
            "statement-at-a-time path; (c) the witnesses of repaired crashes (e.g. a for body that nulls its control variable: "
            "NOT_INTEGER since the repair). A crash is a violation unless it is a listed known finding with status 'known' (identified "
            "by construct + crash class; the overflow findings of substr, subraw, hex, abs and the float-cast finding of pow "
            "are 'fixed' and suppress nothing). For abs and pow on typed variables the outcome class and the error code are "
            "also compared with the Lean model. (fe) Every text of (b) that is run as one unit goes, byte for byte, ALSO through the model "
            "front end (driver `src` = Stepwise.runText: Lex, Parse, Elab, compile checks, parse-time lock, runProgram — the function "
            "C01.text_no_hazard_partial is about): a hazard answer of the model is a violation; inside the fragment (model neither "
            "unsupported nor out of fuel / unmodelled) the outcome class must agree with the library — value, parse error (same code "
            "where the parser model transcribes the rule), runtime error (same code); plus 22 forall bodies that write / do not write "
            "to the traversed table, as one unit and statement by statement (CONST_VIOLATION on both sides, or run on both sides). "
            "The distribution is in stats.fe_text. distinct = case text.")

    def gen_cases(self):
        quick = self.tier == "quick"
        cases = []
        n = 0

        def add(kind, name, expr, setup, mode="prog", model=""):
            nonlocal n
            n += 1
            src = "r = %s;" % expr if mode == "prog" else expr
            ops = ["new 0", "prog 0 " + hx(IDF)] + setup + ["%s 0 %s" % ("prog" if mode != "capi" else "capi", hx(src))]
            cases.append(Case("c%d" % n, model, "|".join(ops), {"family": kind, "name": name, "expr": expr}))

        import sys, os
        kws = self.builtin_keywords()
        skip = {"read", "readln", "input", "getsys", "getenv", "random"}     # I/O and environment: not this property's domain
        vals = VALS + [("i", "I:%d" % (2 ** 63 - 1)), ("i", "I:%d" % (-2 ** 63)), ("i", "I:-1"), ("d", "D:7ff8000000000000"), ("d", "D:46293e5939a08cea"),
                       ("d", "D:7ff0000000000000"), ("d", "D:bff8000000000000"), ("s", "S:"), ("r", "R:"), ("ti", "Ti1[]"), ("c", "C:3ff0000000000000,4000000000000000")]

        def operand(v, slot, kind):
            return (slot if kind == "var" else "idf(%s)" % slot), ["set 0 %s %s" % (hx(slot.upper()), v)]

        for f in kws:
            if f in skip:
                continue
            add("bi", f, "%s()" % f, [])
            for (t1, v1) in vals:
                for k1 in ("var", "tmp"):
                    e1, s1 = operand(v1, "x", k1)
                    add("bi", f, "%s(%s)" % (f, e1), s1, model=("bi %s %s" % (f, v1)) if (f in MODEL_COMPARED and k1 == "var") else "")
                    if k1 == "tmp" and quick:
                        continue
                    for (t2, v2) in vals:
                        # quick tier: the boundary values (INT64 extremes, -1, NaN, inf, huge, empty) always, the ordinary ones thinned
                        # (every null — typed or not — is a boundary value too: seeded C01-m5, a typed-null separator of tokenize,
                        #  was thinned away when nulls sat at the odd positions of VALS)
                        if quick and (len(t2) > 1 or ((t2, v2) in VALS and VALS.index((t2, v2)) % 2 and not v2.startswith("N:"))):
                            continue
                        e2, s2 = operand(v2, "y", "var")
                        add("bi", f, "%s(%s, %s)" % (f, e1, e2), s1 + s2,
                            model=("bi %s %s %s" % (f, v1, v2)) if (f in MODEL_COMPARED and k1 == "var") else "")
            if f in ("substr", "subraw", "strpos", "replace", "tokenize", "clamp", "raw"):
                for (t1, v1), (t2, v2), (t3, v3) in itertools.product(vals[:12], vals[:12], vals[:12]):
                    if quick and (vals.index((t1, v1)) + vals.index((t2, v2)) + vals.index((t3, v3))) % 5:
                        continue
                    e1, s1 = operand(v1, "x", "var")
                    e2, s2 = operand(v2, "y", "tmp")
                    e3, s3 = operand(v3, "z", "var")
                    add("bi", f, "%s(%s, %s, %s)" % (f, e1, e2, e3), s1 + s2 + s3)
        for (opname, optext) in OPS + CMP + [(a, b) for a, b in LOGIC if b in ("and", "or", "xor")]:
            for (t1, v1), (t2, v2) in itertools.product(vals, vals):
                for k1, k2 in (("var", "var"), ("tmp", "tmp")):
                    if quick and (k1 == "tmp") and (vals.index((t1, v1)) + vals.index((t2, v2))) % 3:
                        continue
                    e1, s1 = operand(v1, "x", k1)
                    e2, s2 = operand(v2, "y", k2)
                    add("op", opname, "%s %s %s" % (e1, optext, e2), s1 + s2)
        for (opname, optext) in UNOPS:
            for (t1, v1) in vals:
                for k1 in ("var", "tmp"):
                    e1, s1 = operand(v1, "x", k1)
                    add("un", opname, "%s(%s)" % (optext, e1), s1)
        for mname in MEMBERS:
            for (t1, v1) in vals:
                for k1 in ("var", "tmp"):
                    e1, s1 = operand(v1, "x", k1)
                    if mname == "count":
                        add("mb", mname, "%s.count()" % e1, s1)
                        continue
                    for (t2, v2) in vals:
                        e2, s2 = operand(v2, "y", "var")
                        if mname in ("at", "delete", "concat"):
                            add("mb", mname, "%s.%s(%s)" % (e1, mname, e2), s1 + s2)
                        else:
                            for (t3, v3) in (vals if not quick else vals[::3]):
                                e3, s3 = operand(v3, "z", "var")
                                add("mb", mname, "%s.%s(%s, %s)" % (e1, mname, e2, e3), s1 + s2 + s3)
        # tuple item access
        for nn in ("0", "1", "2", "3", "255", "4294967297", "99999999999999999999", "18446744073709551616"):
            for (t1, v1) in vals:
                e1, s1 = operand(v1, "x", "var")
                add("item", "at", "%s@%s" % (e1, nn), s1)
                add("item", "set", "%s.set@%s(y)" % (e1, nn), s1 + ["set 0 %s I:1" % hx("Y")])
        # (b) texts
        ntext = 60 if quick else 600
        for k in range(ntext):
            g = progen.Gen(self.rng, nvars=2, funcs=(k % 2 == 0), errors=0.05)
            prog = g.program(nstmts=self.rng.randint(2, 5), depth=2)
            src = progen.program_src(prog)
            toks = [(m.start(), m.end()) for m in TOKEN_RE.finditer(src)]
            muts = []
            for i, (a, b) in enumerate(toks):
                muts.append(src[:a] + src[b:])                      # delete
                if not quick or i % 3 == 0:
                    muts.append(src[:b] + " " + src[a:b] + src[b:])     # duplicate
                    j = self.rng.randrange(len(toks))
                    muts.append(src[:a] + src[toks[j][0]:toks[j][1]] + src[b:])   # replace by another token
                if not quick or i % 2 == 0:
                    muts.append(src[:a])                                # truncate
            for _ in range(10):
                p = self.rng.randrange(len(src) + 1)
                muts.append(src[:p] + self.rng.choice(["\x00", "\xff", '"', "/*", "\\", "\r", "@", "#", "'", "(", ")" * 3, "1" * 1100, " " * 1030]) + src[p:])
            for mi, mtxt in enumerate(muts):
                mode = ("prog", "capi", "step")[mi % 3] if not quick else ("prog", "capi", "step")[(mi + k) % 3]
                n += 1
                # BEGIN C01X2 (fe): the texts run through `Parser::parse` + `Executable::run` as one unit ALSO go, byte for byte, through the
                # model front end (`src`: Stepwise.runText = Lex -> Parse -> Elab -> compile checks -> lock -> runProgram), the function
                # `C01.text_no_hazard_partial` is about
                mbytes = mtxt.encode("latin-1", "replace")
                cases.append(Case("c%d" % n, ("src %d %s" % (FE_FUEL, hx(mbytes))) if mode == "prog" else "",
                                  "|".join(["new 0", "%s 0 %s" % (mode, hx(mbytes))]),
                                  {"family": "text", "name": mode, "expr": mtxt[:4000], "fe": mode == "prog"}))
                # END C01X2
        # (c) witnesses of repaired crashes, replayed on every run through all three paths (a re-introduced defect is a violation)
        # BEGIN r06
        fixed_witnesses = [
            "for k in 1 to 3 loop k = int(); end loop;",                                   # dcf5ae2 (was C06.for_iterator_set_null / C01.un.for_iterator_null)
            "z = int(); for k in 3 to 1 loop print k; k = z; end loop; print \"after\";",
            "begin for k in 1 to 3 loop k = int(); continue; end loop; exception when others then print \"no\"; end;",
        ]
        for wtxt in fixed_witnesses:
            for mode in ("prog", "capi", "step"):
                n += 1
                cases.append(Case("c%d" % n, "", "|".join(["new 0", "%s 0 %s" % (mode, hx(wtxt.encode("latin-1")))]),
                                  {"family": "text", "name": mode, "expr": wtxt}))
        # END r06
        # BEGIN C01X2 (fe-lock): texts that write to a table while a `forall` traverses it — the parser refuses them (CONST_VIOLATION);
        # run, they would leave the iterator pointing past the end (`C01.lock_hypothesis_needed`). Library and model front end must
        # both REJECT; the legal variants (write through the iterator, non-mutating members, another table) must both run.
        lock_bodies = ["t.delete(0);", "t.delete(0); t.delete(0);", "t.concat(1);", "t.put(0, 9);", "t.insert(0, 9);", "t = tab(1, 1);", "t = null;",
                       "t.delete(0).delete(0);", "for t in 1 to 2 loop nop; end loop;", "forall t in tab(1, 1) loop nop; end loop;",
                       "forall g in t loop e = 1; g = 2; end loop;", "forall g in t loop t.concat(5); end loop;", "if false then t.delete(0); end if;",
                       "begin t.delete(0); exception when others then nop; end;", "while false loop t.concat(1); end loop;",
                       "e = e + 1;", "x = t.count() + t.at(0);", "u.delete(0);", "u = t;", "print t.at(0);", "do t.at(0);", "x = t.concat(1).count();"]
        for body in lock_bodies:
            for tail in ("print e;", ""):
                wtxt = "t = tab(3, 7);\nu = tab(3, 7);\nforall e in t loop\n  %s\n  %s\nend loop;\nprint t.count();\n" % (body, tail)
                n += 1
                cases.append(Case("c%d" % n, "src %d %s" % (FE_FUEL, hx(wtxt.encode("latin-1"))), "|".join(["new 0", "prog 0 %s" % hx(wtxt.encode("latin-1"))]),
                                  {"family": "text", "name": "prog", "expr": wtxt, "fe": True, "lock": True}))
                # the same text statement by statement (`srcstep`: Stepwise.runStepwise, which refuses the `forall` statement alike)
                n += 1
                cases.append(Case("c%d" % n, "srcstep %d %s" % (FE_FUEL, hx(wtxt.encode("latin-1"))), "|".join(["new 0", "step 0 %s" % hx(wtxt.encode("latin-1"))]),
                                  {"family": "text", "name": "step", "expr": wtxt, "fe": True, "lock": True}))
        # END C01X2
        # (c2) expressions the PARSER evaluates (the file name of `include`, the path of `import`): in a TRUSTED context (the command
        #      line interpreter's) an expression that raises a run-time error, yields null, or names no file must reject the statement
        #      (finding C01.include_expr_runtime_error_escapes, fixed in 8b0461e: `include str(1/0);` aborted bloc with an uncaught
        #      RuntimeError); in an untrusted one the statement is refused before anything is evaluated.
        raising = ['str(1/0)', 'str(1 % 0)', 'chr(999)', 'str(int("x"))', '"a" + str(1/0)', 'substr("abc", 1/0)', 'str(hash("x", 0))',
                   'str()', 'lower(str())', '"/nonexistent/file.bloc"', '""', 'str(tab(1,1).at(5))', 'str(tup(1,2)@1 / 0)', 'b64enc(raw(300))']
        for ex in raising:
            for stmt in ("include %s;", "import %s;", "import (%s);", "if true then include %s; end if;", "x = 1; include %s; print x;"):
                for trust in ("t", ""):
                    for mode in ("prog", "step"):
                        n += 1
                        wtxt = stmt % ex
                        cases.append(Case("c%d" % n, "", "|".join([("new 0 " + trust).strip(), "%s 0 %s" % (mode, hx(wtxt.encode("latin-1"))),
                                                                   "%s 0 %s" % (mode, hx(b'print "alive";'))]),
                                          {"family": "parse-time-eval", "name": mode + ("/trusted" if trust else "/untrusted"), "expr": wtxt}))
        # (d) sessions: several texts in ONE context, some rejected, then calls of every declared signature — the state a rejected
        #     text leaves behind (function table, backups, symbols) must never make a LATER valid text crash. Exhaustive over all
        #     sequences of 3 declarations (valid | body with a syntax error | body with an undefined symbol | unterminated) of the
        #     signatures F/0, F/1, G/0 followed by a call of each signature; every sequence through all three paths.
        sigs = [("f", 0), ("f", 1), ("g", 0)]

        def decl(sig, kind, ver):
            name, ar = sig
            par = "(a)" if ar else "()"
            body = {"ok": "return %d%s;" % (ver, " + a" if ar else ""),
                    "syn": "return %d + ;" % ver,
                    "und": "return %d + nosuchvar_%d;" % (ver, ver),
                    "eof": "return %d;" % ver}[kind]
            tail = " end;" if kind != "eof" else ""
            return "function %s%s return integer is begin %s%s" % (name, par, body, tail)

        def call(sig):
            name, ar = sig
            return "print %s(%s);" % (name, "1" if ar else "")

        steps = [(s, k) for s in sigs for k in ("ok", "syn", "und", "eof")]
        nsess = 0
        for seq in itertools.product(steps, repeat=3):
            for mode in ("prog", "capi", "step"):
                ops = ["new 0"]
                for ver, (sig, kind) in enumerate(seq):
                    ops.append("%s 0 %s" % (mode, hx(decl(sig, kind, ver + 1))))
                txts = [decl(sig, kind, ver + 1) for ver, (sig, kind) in enumerate(seq)]
                for sg in sigs:
                    ops.append("%s 0 %s" % (mode, hx(call(sg))))
                n += 1
                nsess += 1
                cases.append(Case("c%d" % n, "", "|".join(ops), {"family": "session", "name": mode, "expr": " ## ".join(txts + [call(sg) for sg in sigs])}))
        self.stats["session_cases"] = nsess
        # (e) arguments that change the receiver (or the other operand) while the call is being evaluated: every member method on a
        #     table / string / bytes / tuple variable x every argument slot filled with an expression that shrinks, grows or re-types
        #     the SAME variable in place and yields a value of the slot's type; positions first / last / one past the end.
        recvs = [("Ti1[I:1,I:2,I:3]", "7", "tab(2, 9)"), ("S:616263", '"z"', '"yy"'), ("R:616263", "65", 'raw("yy")'),
                 ("Ts1[S:61,S:62,S:63]", '"q"', 'tab(2, "w")'), ("Ti2[Ti1[I:1],Ti1[I:2],Ti1[I:3]]", "tab(1, 7)", "tab(2, tab(1, 9))")]
        nself = 0
        for (rv, el, coll) in recvs:
            shrink = ["x.delete(0)", "x.delete(0).delete(0)", "x.delete(0).delete(0).delete(0)"]
            grow = ["x.concat(%s)" % el, "x.insert(0, %s)" % el, "x.concat(%s)" % coll]
            muts_x = shrink + grow
            int_slots = ["%s.count()" % mx for mx in muts_x] + ["%s.count() - 1" % mx for mx in muts_x]
            elem_slots = ["%s.at(0)" % mx for mx in muts_x]
            whole_slots = muts_x
            for pos in ["0", "2", "3", "x.count() - 1"] + int_slots:
                for mname, tmpl in (("at", "x.at(%s)"), ("delete", "x.delete(%s)")):
                    if pos in ("0", "2", "3", "x.count() - 1"):
                        continue
                    add("self", mname, tmpl % pos, ["set 0 %s %s" % (hx("X"), rv)])
                    nself += 1
                for mname in ("put", "insert"):
                    for e in ([el] if pos in int_slots else []) + elem_slots + (whole_slots if mname == "insert" else []):
                        add("self", mname, "x.%s(%s, %s)" % (mname, pos, e), ["set 0 %s %s" % (hx("X"), rv)])
                        nself += 1
            for e in elem_slots + whole_slots:
                add("self", "concat", "x.concat(%s)" % e, ["set 0 %s %s" % (hx("X"), rv)])
                nself += 1
            for (opname, optext) in (("EQ", "=="), ("NE", "!="), ("ADD", "+"), ("LT", "<")):
                for e in muts_x:
                    add("self", opname, "x %s %s" % (optext, e), ["set 0 %s %s" % (hx("X"), rv)])
                    add("self", opname, "%s %s x" % (e, optext), ["set 0 %s %s" % (hx("X"), rv)])
                    nself += 2
        tupv = "Uu0{i0,s0}(I:1,S:61)"
        for e in ("x.set@1(2)@1", "x.set@2(\"k\")@1", "x@1"):
            add("self", "set", "x.set@1(%s)" % e, ["set 0 %s %s" % (hx("X"), tupv)])
            nself += 1
        self.stats["self_cases"] = nself
        self.stats["cases"] = n
        return cases

    # BEGIN C01X2 (fe)
    def judge_fe_text(self, c, out, head, m, stderr):
        """The model front end on the SAME bytes. Returns True when a violation was recorded. (a) a hazard answer of the model is a
        violation whatever the library did (C01.text_no_hazard_partial says there is none but signedOverflow); (b) inside the fragment
        (the model neither `unsupported` nor `oof` / `unmodelled`) the outcome classes must agree: value / parse error (same code where
        Model/Parse.lean transcribes the rule) / runtime error (same code). Rejections the library makes for reasons the front end
        leaves out (checks of user-function calls and members: fe.SYNTACTIC / fe.AMBIGUOUS) are counted, not failed."""
        st = self.stats.setdefault("fe_text", {"texts": 0, "model_hazard": 0, "unsupported": 0, "oof_or_unmodelled": 0, "library_crash_or_loop": 0,
                                               "in_fragment": 0, "agree": {}, "library_semantic_reject": {}, "semantic_first": 0,
                                               "unsupported_notes": {}, "lock_texts": 0, "lock_rejected_both": 0})
        st["texts"] += 1
        mout = m.get("model")
        if mout is None:
            self.record_violation("the model front end gave no answer for `%s`" % c.meta["expr"][:200], c, out, m, stderr)
            return True
        mh = mout.split(" out=")[0]
        if mh.startswith("hazard"):
            st["model_hazard"] += 1
            self.record_violation("the model front end answers `%s` on the text `%s` (library: %s)" % (mh, c.meta["expr"][:300], out[:60]), c, out, m, stderr)
            return True
        if mh == "unsupported":
            st["unsupported"] += 1
            note = m.get("note", "?")
            st["unsupported_notes"][note] = st["unsupported_notes"].get(note, 0) + 1
            return False
        if mh in ("oof", "unmodelled"):
            st["oof_or_unmodelled"] += 1
            return False
        if head not in ALLOWED:
            st["library_crash_or_loop"] += 1      # judged by the crash rules below
            return False
        st["in_fragment"] += 1
        lib_perr = fe.perr_code(out)
        mod_perr = fe.perr_code(mh)
        if c.meta.get("lock"):
            st["lock_texts"] += 1
            if lib_perr == 32 and mod_perr == 32:
                st["lock_rejected_both"] += 1
        key = None
        if mod_perr is not None and lib_perr is None:
            self.record_violation("the model front end rejects (perr %d) the text `%s`, which the library compiles (%s)" % (mod_perr, c.meta["expr"][:300], out[:60]), c, out, m, stderr)
            return True
        if mod_perr is not None and lib_perr is not None:
            if mod_perr == lib_perr:
                key = "perr/perr same code"
            elif lib_perr not in fe.SYNTACTIC:
                st["semantic_first"] += 1
                key = "perr/perr (library met a type or symbol error first)"
            else:
                self.record_violation("`%s`: rejected with parse error %d by the library, %d by the model front end" % (c.meta["expr"][:300], lib_perr, mod_perr), c, out, m, stderr)
                return True
        elif lib_perr is not None:
            if lib_perr in fe.SYNTACTIC:
                self.record_violation("`%s`: the library rejects with the syntax error %d, the model front end accepts (%s)" % (c.meta["expr"][:300], lib_perr, mh[:60]), c, out, m, stderr)
                return True
            st["library_semantic_reject"][str(lib_perr)] = st["library_semantic_reject"].get(str(lib_perr), 0) + 1
            return False
        else:
            mclass = mh.split(" ")[0].split("-")[0]
            if head == "ok" and mclass == "ok":
                key = "ok/ok"
            elif head == "rerr" and mclass == "rerr" and out.split()[1] == mh.split()[1]:
                key = "rerr/rerr same code"
            else:
                self.record_violation("`%s` ends in %s, the model front end gives %s" % (c.meta["expr"][:300], out[:60], mh[:60]), c, out, m, stderr)
                return True
        st["agree"][key] = st["agree"].get(key, 0) + 1
        return False
    # END C01X2

    def builtin_keywords(self):
        import os
        from .. import build
        txt = open(os.path.join(build.LEAN, "BlocV", "Gen", "Keywords.lean")).read()
        m = re.search(r"def builtinKeywords : List String := \[(.*?)\]", txt, flags=re.S)
        return re.findall(r'"([^"]*)"', m.group(1))

    def case_timeout(self):
        return 10

    def judge(self, c, iraw, m, stderr):
        if iraw.startswith("crash ") or iraw.endswith("diverges"):
            out = iraw
        else:
            out = iraw.split("|")[-1]
        head = out.split(" ")[0].split("-")[0]
        self.tally(c, out if out.startswith(("crash", "perr", "rerr")) else head, m)
        self.distinct.add(c.impl_line)
        if len(self.samples) < 10 and self.rng.random() < 0.0005:
            self.samples.append({"family": c.meta["family"], "case": c.meta["expr"][:200], "impl": out[:80]})
        # BEGIN C01X2 (fe)
        if c.meta.get("fe") and c.model_line:
            if self.judge_fe_text(c, out, head, m, stderr):
                return
        # END C01X2
        if head in ALLOWED and "foreign-exception" not in iraw and "uncaught" not in iraw:
            mout = m.get("model") if (c.model_line and not c.meta.get("fe")) else None
            if mout and mout != "unmodelled":
                # outcome class against the model: value <-> value, error code <-> error code
                self.stats["model_compared"] = self.stats.get("model_compared", 0) + 1
                if mout.startswith("hazard "):
                    return self.record_violation("model reaches a C-level hazard on `%s`" % c.meta["expr"][:200], c, out, m, stderr)
                same = (head == "ok") if mout.startswith("ok ") else outcomes_agree(out, mout)
                if not same:
                    return self.record_violation("`%s` ends in %s, the model gives %s" % (c.meta["expr"][:200], out[:60], mout[:60]), c, out, m, stderr)
            return
        if "asan:alloc-too-big" in out or "std::bad_alloc" in out or "std::length_error" in out:
            # a requested allocation size beyond memory: outside the property's domain (bounded sizes)
            self.stats["out_of_domain_alloc"] = self.stats.get("out_of_domain_alloc", 0) + 1
            return
        if c.meta["family"] == "text" and out.endswith("diverges"):
            # a mutated program may legitimately loop for ever (e.g. the loop increment was deleted): not decidable here
            self.stats["text_may_loop"] = self.stats.get("text_may_loop", 0) + 1
            return
        cls = crash_class(out) if (out.startswith("crash") or out.endswith("diverges")) else "foreign-exception"
        kf = "C01.%s.%s.%s" % (c.meta["family"], c.meta["name"], cls)
        entry = next((f for f in self.findings if f["id"] == kf and f.get("status", "known") == "known"), None)
        if entry is not None:
            self.known_hits.setdefault(kf, {"what": entry["what"], "example": c.meta["expr"][:120], "impl": out[:60]})
            return
        self.record_violation("[%s] `%s` ends in %s instead of a value or a BLOC error" % (kf, c.meta["expr"][:300], out[:80]), c, out, m, stderr)
