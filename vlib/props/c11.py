"""C11 — a rejected source text does not disturb anything that was valid before it.

Valid prefix programs build a context (variables of every type incl. `$`-qualified safe ones, typed declarations,
functions incl. overloads, loops that have run). Every text (hand-written ones exercising every clause kind, seeded
random ones) is truncated at EVERY token position and corrupted at EVERY token position (drop, duplicate, replace by
a token of another class). Texts are rendered one token per line, so the library asks its reader for more text
between any two tokens: the probe op `ptrace` snapshots the context at each of these calls.

pass 1, per variant and per path (library `Parser::parse`, C API `bloc_parse_executable`, interactive
`parseStatement` one statement at a time):
    dump + function identities before / after the text; for a REJECTED variant
      impl_after == impl_before on everything that existed before (types, decls, flags, VALUES with flags, function
                    definitions and bodies, exec depth, control depth, temporaries, parsing flag, backup count)   [Spec]
      impl_after == model_after, the Lean model (BlocV/Model/ParseCtx.lean) run by `blocv pctx` on the OBSERVED
                    snapshots: every snapshot must be explained as a model event, then catch blocks + rollback +
                    parsingEnd are the model's                                                                  [Model]
    an ACCEPTED variant is compared with the model as well (flags / exec depth as before: accept_keeps_flags).
pass 2, per rejected variant: probe programs (call every pre-existing function, read / assign every variable,
    loops over them) run in the disturbed context and in an undisturbed twin (a second context built the same
    way; for the interactive path the clone taken before the rejected statement): results, output, dumps equal.

histories (goal: `later_parse_independent_of_rejected`, `history_without_rejected`): sequences of 2..4 texts (valid /
    rejected at every token position / redefinition / new function with a broken body / call) submitted to ONE context.
    library path, `ptrace` per text: the driver command `hist` CARRIES the model context from text to text (left-over names,
    function table, `_backed`), explains every trace from the carried context, reads the events back as statement heads
    by name and runs the statement-level machine (`parseTextN`: raw clause entries) on them, and predicts the history
    WITHOUT each rejected text (`runHistory`); the check runs that twin history in the library and compares verdicts and
    final tables with the prediction and with the disturbed run. Behaviour: the same histories through Parser::parse+run,
    the C API and the interactive path next to a twin without the rejected text: results, output and values equal.

Known finding (region decided by the driver from the event sequence): C11.complete_redefinition_survives_reject.
Repaired in /repo and now required to hold: a failed redefinition is rolled back wherever its entry is (3e9e0ba), a
variable holding a null tuple keeps its type (353443e).
"""
import os
import re

from .. import build, run
from ..core import Check, log
from ..run import hx

KF_COMPLETE = "C11.complete_redefinition_survives_reject"
# repaired in /repo (3e9e0ba, 353443e): C11.failed_redefinition_not_rolled_back, C11.null_tuple_symbol_restored_opaque —
# their witnesses stay in witness_variants() and must now satisfy the Spec

DEFAULT_FINDINGS = [
    {"property": "C11", "id": KF_COMPLETE, "status": "known",
     "site": "blocc/statement_function.cpp:FUNCTIONStatement::parse, blocc/functor_manager.cpp:FunctorManager::createOrReplace, blocc/parser.cpp:Parser::parse",
     "witness": "function f(x) return integer is begin return 1; end;   then the rejected text   "
                "function f(x) return integer is begin return 10; end; z = ;   then   print f(0);  prints 10",
     "expected": "f keeps its definition (prints 1)", "observed": "the redefinition parsed before the error stays installed (prints 10)",
     "what": "a COMPLETE redefinition of an existing function earlier in a rejected text stays installed: createOrReplace "
             "swaps the new functor into the table at parse time and nothing undoes it when a later statement of the same "
             "text fails (rollback only covers the declaration being parsed)"},
]

# ---------------------------------------------------------------------------------------------- contexts
PREFIX_A = ['''b = true ; i = 42 ; d = 1.5 ; s = "abc" ; r = raw ( 3 , 65 ) ; u = tup ( 1 , "x" , 2.5 ) ; t = tab ( 3 , 7 ) ;
tu = tab ( 2 , tup ( 1 , "a" ) ) ; ts = tab ( 2 , "z" ) ;
$si = 5 ; $ss = "safe" ; $st = tab ( 2 , 1 ) ; $su = tup ( 2 , "y" ) ; n : integer ; nt : table ; nu : tuple ;
function f ( x ) return integer is begin return x + 1 ; end ;
function f ( x , y ) return integer is begin return x + y ; end ;
function g ( ) return string is begin return "g0" ; end ;
function h ( x : table ) return integer is begin return x . count ( ) ; end ;
for k in 1 to 3 loop i = i + k ; end loop ;
forall e in t loop i = i + e ; end loop ;''']
PROBES_A = [
    'print f ( 1 ) ; print f ( 1 , 2 ) ; print g ( ) ; print h ( t ) ; print h ( $st ) ; pz1 = f ( f ( 2 ) , 3 ) ; print pz1 ;',
    'print b ; print i ; print d ; print s ; print r ; print u @ 1 ; print t . count ( ) ; print tu . at ( 0 ) @ 2 ; print ts . at ( 1 ) ; '
    'print $si ; print $ss ; print $st . at ( 0 ) ; print $su @ 2 ; print isnull ( n ) ; print isnull ( nt ) ; print isnull ( nu ) ; print k ; print isnull ( e ) ;',
    'b = false ; i = i + 1 ; d = d * 2 ; s = s + "!" ; r = raw ( 1 , 66 ) ; u = tup ( 9 , "n" , 0.5 ) ; t . put ( 0 , 8 ) ; tu = tab ( 1 , tup ( 3 , "c" ) ) ; '
    'ts . insert ( 0 , "y" ) ; $si = $si + 1 ; $ss = "still" ; $st . put ( 1 , 4 ) ; $su = tup ( 7 , "w" ) ; n = 3 ; nt = tab ( 1 , 1 ) ; '
    'for k in 1 to 2 loop i = i + k ; forall e in t loop i = i + e ; end loop ; end loop ; forall q in tu loop print q @ 1 ; end loop ; '
    'print i ; print t . at ( 0 ) ; print $st . at ( 1 ) ; b = 1 ; i = "retyped" ; print typeof ( i ) ;',
]
TEXTS_A = [
    # every clause kind, upgrades (also repeated) of pre-existing symbols at every depth, redefinitions
    '''i = "nowastring" ; for k in 1 to 2 loop s = 7 ; forall e in tu loop d = e @ 1 ; b = 3 ; end loop ; i = 2.5 ; end loop ;
if b == 3 then u = 1 ; elsif true then u = "x" ; else u = 2.5 ; end if ;
begin t = "t" ; raise boom ; exception when boom then t = 1 ; when others then t = 2 ; end ;
while false loop $si = 6 ; $st = tab ( 1 , 2 ) ; nt = tab ( 1 , "q" ) ; end loop ;
function f ( x ) return integer is begin for j in 1 to 2 loop x = x + j ; end loop ; return x ; end ;
function nw ( a , b ) return string is begin if a then return "a" ; end if ; return b ; end ;
zz = f ( 1 ) + f ( 1 , 2 ) ; print g ( ) ;''',
    # redefinition of a function that is not the last declared, of the last declared, of a new one
    '''function g ( ) return string is begin return "g1" ; end ; x1 = 1 ;
function h ( x : table ) return integer is begin return 0 ; end ;
function nw ( ) return integer is begin return 1 ; end ; function nw ( ) return integer is begin return 2 ; end ;
function f ( x , y ) return integer is begin begin x = y ; exception when others then y = x ; end ; return x ; end ; x1 = "s" ;''',
    # lock / safety: nested forall over the same table, iterators, typed-safe symbols, a registration refused in a body
    '''forall e in t loop forall e2 in t loop n = e + e2 ; end loop ; for k in e to 2 loop nu = tup ( k , "k" ) ; end loop ; end loop ;
forall e in $st loop $si = e ; forall x3 in tu loop u = x3 ; s = x3 @ 2 ; end loop ; end loop ;
for $si in 1 to 2 loop for $si in 3 to 4 loop i = $si ; end loop ; i = "s" ; i = 1.5 ; i = true ; end loop ;
forall e in ts loop ts = 5 ; end loop ;''',
]

PREFIX_B = ['''function fa ( x ) return integer is begin return 1 ; end ; function fb ( x ) return integer is begin return 2 ; end ;
function fc ( ) return integer is begin return 3 ; end ; a = fa ( 0 ) ; b = fb ( 0 ) ; w = "w" ; tt = tab ( 2 , 2.5 ) ;''',
            'print fa ( 1 ) ; print fb ( 1 ) ; print fc ( ) ;']
PROBES_B = ['print fa ( 5 ) ; print fb ( 5 ) ; print fc ( ) ;', 'print a ; print b ; print w ; print tt . at ( 1 ) ;',
            'a = fa ( a ) ; b = "s" ; w = 1 ; forall e in tt loop print e ; end loop ; print a ; print typeof ( b ) ;']
TEXTS_B = [
    '''w = 1 ; function fa ( x ) return integer is begin return 10 ; end ; w = 2.5 ; function fc ( ) return integer is begin return 30 ; end ;
for i in 1 to 2 loop w = true ; a = "a" ; end loop ; function fb ( x ) return integer is begin w = 1 ; return 20 ; end ; a = 1.5 ;''',
    '''function fn ( ) return integer is begin return 7 ; end ; function fc ( ) return integer is begin if true then return 31 ; end if ; return 32 ; end ;
function fa ( x , y ) return integer is begin return x ; end ; b = fa ( 1 , 2 ) ;''',
]

# a variable holding a null tuple of a known structure (the run of the first program stops before the assignment)
PREFIX_C = ['raise oops ; u = tup ( 1 , "x" ) ;', 'v = 1 ; v = u ; w = 5 ; t = tab ( 2 , 1 ) ;']
PROBES_C = ['print isnull ( v ) ; print w ; print typeof ( v ) ;', 'w = w + 1 ; print w ; forall e in t loop print e ; end loop ;', 'v = tup ( 2 , "y" ) ; print v @ 1 ;']
TEXTS_C = ['w = "s" ; v = 2 ; for i in 1 to 2 loop v = "s" ; w = 1.5 ; end loop ; u = 1 ;']

# context D (histories only): inside the subset the source-text front end + interpreter model run, so that the session model
# predicts the behaviour of histories with loops, foralls, upgrades, declarations and calls
PREFIX_D = ['b = true ; i = 42 ; d = 1.5 ; s = "abc" ; t = tab ( 3 , 7 ) ; w = 0 ;',
            'function f ( x ) return integer is begin return x + 1 ; end ; function g ( ) return integer is begin return 7 ; end ; print f ( 1 ) ;',
            'for k in 1 to 2 loop w = w + k ; end loop ; forall e in t loop w = w + e ; end loop ; print w ;']
PREFIXES = {"A": (PREFIX_A, PROBES_A, TEXTS_A), "B": (PREFIX_B, PROBES_B, TEXTS_B), "C": (PREFIX_C, PROBES_C, TEXTS_C),
            "D": (PREFIX_D, [], [])}

# names the random texts draw from, per prefix: (plain variables, table variables, safe variables, functions (name, arity))
INVENTORY = {
    "A": (["b", "i", "d", "s", "u", "n", "nu", "k", "e"], ["t", "tu", "ts", "nt"], ["$si", "$ss"], [("f", 1), ("f", 2), ("g", 0), ("h", 1)]),
    "B": (["a", "b", "w"], ["tt"], [], [("fa", 1), ("fb", 1), ("fc", 0)]),
    "C": (["v", "w", "u"], ["t"], [], []),
    "D": (["b", "i", "d", "s", "w"], ["t"], [], [("f", 1), ("g", 0)]),
}
LITERALS = ['1', '2.5', '"s"', 'true', 'tup ( 1 , "a" )', 'tab ( 1 , 1 )', 'raw ( 1 , 65 )', 'null']
TYPES = ["integer", "decimal", "string", "boolean", "table", "tuple", "bytes"]


def src_of(toks):
    return "\n".join(toks)


class Variant:
    __slots__ = ("vid", "pfx", "base", "kind", "k", "toks")

    def __init__(self, vid, pfx, base, kind, k, toks):
        self.vid, self.pfx, self.base, self.kind, self.k, self.toks = vid, pfx, base, kind, k, toks

    def meta(self):
        return {"prefix": self.pfx, "base": self.base, "kind": self.kind, "k": self.k, "tokens": self.toks}


def token_class(t):
    if re.fullmatch(r"[0-9]+", t) or re.fullmatch(r"[0-9]*\.[0-9]+", t):
        return "num"
    if t.startswith('"'):
        return "str"
    if re.fullmatch(r"[A-Za-z_$][A-Za-z0-9_$]*", t):
        return "word"
    return "punct"


REPLACEMENT = {"num": ['"r"', "loop"], "str": ["7", "end"], "word": ["7", '"r"', ";"], "punct": ["zq", "3"]}


class Dump:
    """a `dump K` answer (+ the `fnid K` answer) in pieces"""

    def __init__(self, dump, fnid):
        m = re.match(r"dump=(.*) cd=(\d+) ed=(\d+) tmp=(\d+) bk=(\d+) cond=(\d+) fn=(.*)$", dump)
        if not m:
            raise ValueError("bad dump: " + dump[:200])
        self.syms = []          # (hexname, ty, flags, value)
        if m.group(1):
            for part in m.group(1).split(";"):
                left, _, val = part.partition("=")
                name, _, rest = left.partition(":")
                ty, _, fl = rest.rpartition(":")
                self.syms.append((name, ty, fl[1] + fl[3], val))
        self.cd, self.ed, self.tmp, self.bk, self.cond = (int(m.group(i)) for i in range(2, 7))
        self.fns = []           # (hexname, arity, body, ptr)
        f = fnid[len("fnid="):] if fnid.startswith("fnid=") else ""
        if f:
            for part in f.split(";"):
                n, a, b, p = part.split("~")
                self.fns.append((n, a, b, p))

    def snap(self, nsyms=None, nfns=None, ids=None):
        syms = self.syms if nsyms is None else self.syms[:nsyms]
        fns = self.fns if nfns is None else self.fns[:nfns]
        return "S%s!E%d!B%d!C%d!F%s" % (";".join("%s~%s~%s" % (n, t, f) for n, t, f, _ in syms), self.ed, self.bk, self.cond,
                                         ";".join("%s~%s~%s~%s" % (n, a, b, canon_id(p, ids)) for n, a, b, p in fns))


def canon_id(p, ids):
    if ids is None:
        return p
    return ids.get(p, "new")


def canon_snap(s, ids):
    """replace functor pointers of a snapshot string by their canonical ids"""
    head, _, f = s.partition("!F")
    if not f:
        return s
    out = []
    for part in f.split(";"):
        bits = part.split("~")
        bits[3] = canon_id(bits[3], ids)
        out.append("~".join(bits))
    return head + "!F" + ";".join(out)


def snap_prefix(s, nsyms, nfns):
    m = re.match(r"S(.*)!E(\d+)!B(\d+)!C(\d+)!F(.*)$", s)
    syms = m.group(1).split(";") if m.group(1) else []
    fns = m.group(5).split(";") if m.group(5) else []
    return "S%s!E%s!B%s!C%s!F%s" % (";".join(syms[:nsyms]), m.group(2), m.group(3), m.group(4), ";".join(fns[:nfns]))


def parse_driver(ans):
    d = {}
    for key in ("model", "spec", "kf", "ev", "note"):
        m = re.search(r"(?:^| )%s=(.*?)(?= (?:model|spec|kf|ev|note)=|$)" % key, ans or "")
        if m:
            d[key] = m.group(1)
    return d


class C11(Check):
    pid = "C11"
    proof_modules = ["BlocV.Proofs.C11"]
    rule = ("contexts = 3 prefix program sequences (variables of every type, `$`-safe ones, typed declarations, overloaded "
            "functions, loops that ran; a function table with non-last entries; a null tuple variable). texts = hand-written "
            "programs covering every clause kind / repeated upgrades / redefinitions / lock and safety refusals + seeded random "
            "programs over the same names, one token per line. variants = truncation at EVERY token position and drop / "
            "duplicate / replace-by-another-class at EVERY position. paths = Parser::parse (traced at every reader call), "
            "bloc_parse_executable, parseStatement one statement at a time. For every rejected variant: after == before on all "
            "that pre-existed (types, decls, flags, values, functions by identity, depths) and after == Lean model run on the "
            "observed snapshots; then 3 probe programs in the disturbed context vs an undisturbed twin. "
            "distinct = (context, token list, path). histories = sequences of 2..4 texts (valid pool / fixed rejected texts / "
            "EVERY truncation position of every valid pool text) in one context (A, B, D), shapes RV VR VRV RRV VRVR RVRV + random: "
            "library path traced per text with the model context CARRIED from text to text and the statement-level machine run on "
            "the decompiled heads; twin history without each rejected text (library vs model prediction vs disturbed run); the "
            "same histories RUN through the three paths next to a twin; session model (front end + interpreter) predicting the output. "
            "A history counts once as (context, token lists, 'hist').")
    assumptions = [
        "events that happen between the last reader call and the ParseError are not observed (their restoration is still "
        "checked by after == before)",
        "the expression parser does not modify the context (checked: every observed snapshot must be explained by a model event)",
        "function identity = address of the Functor object within one probe case (sanitizer build: freed memory is quarantined)"]

    def __init__(self, tier, seed):
        super().__init__(tier, seed)
        have = {f["id"] for f in self.findings}
        for d in DEFAULT_FINDINGS:
            if d["id"] not in have:
                self.findings.append(dict(d))
                self.stats.setdefault("findings_not_in_known_findings_json", []).append(d["id"])
        self.hbin = None

    # ------------------------------------------------------------------------------------------ generation
    def random_text(self, pfx, rng, size):
        plain, tables, safe, funcs = INVENTORY[pfx]
        fresh = ["q%d" % i for i in range(4)]
        out = []

        def lit():
            return rng.choice(LITERALS)

        def stmt(depth, infn, locked):
            r = rng.random()
            if depth <= 0 or r < 0.42:
                # never assign the control variable of an enclosing FOR (same-type assignment = a loop that never ends
                # when the C API / interactive path runs the text); `locked` carries them as "for:<name>"
                v = rng.choice([x for x in plain + fresh + (safe if rng.random() < 0.3 else []) + (tables if rng.random() < 0.3 else [])
                                if "for:" + x not in locked] or ["zq9"])
                if rng.random() < 0.15:
                    return "%s : %s ;" % (v, rng.choice(TYPES))
                return "%s = %s ;" % (v, lit())
            if r < 0.55:
                v = rng.choice(plain + fresh + safe)
                return "for %s in 1 to 2 loop %s end loop ;" % (v, block(depth - 1, infn, locked + ["for:" + v]))
            if r < 0.68 and tables and not infn:
                tb = rng.choice(tables)
                v = rng.choice(plain + fresh)
                return "forall %s in %s loop %s end loop ;" % (v, tb, block(depth - 1, infn, locked + [tb]))
            if r < 0.78:
                s = "if true then %s " % block(depth - 1, infn, locked)
                if rng.random() < 0.5:
                    s += "elsif false then %s " % block(depth - 1, infn, locked)
                if rng.random() < 0.5:
                    s += "else %s " % block(depth - 1, infn, locked)
                return s + "end if ;"
            if r < 0.85:
                return "while false loop %s end loop ;" % block(depth - 1, infn, locked)
            if r < 0.93:
                return "begin %s exception when others then %s end ;" % (block(depth - 1, infn, locked), block(depth - 1, infn, locked))
            if funcs and rng.random() < 0.5:
                f, a = rng.choice(funcs)
                return "print %s ( %s ) ;" % (f, " , ".join(["1"] * a)) if (f, a) != ("h", 1) else "print h ( t ) ;"
            return "print 1 ;"

        def block(depth, infn, locked):
            return " ".join(stmt(depth, infn, locked) for _ in range(rng.randint(1, 2)))

        for _ in range(size):
            if rng.random() < 0.3:
                if funcs and rng.random() < 0.6:
                    f, a = rng.choice(funcs)
                else:
                    f, a = rng.choice(["nf", "ng"]), rng.randint(0, 2)
                ps = " , ".join("p%d" % i for i in range(a))
                out.append("function %s ( %s ) return integer is begin %s return %d ; end ;" % (f, ps, block(2, True, []), rng.randint(100, 999)))
            else:
                out.append(stmt(3, False, []))
        return " ".join(out)

    def variants_of(self, pfx, base_id, toks, kinds=("base", "trunc", "drop", "dup", "repl")):
        vs = []
        n = len(toks)
        if "base" in kinds:
            vs.append(Variant("%s.%s.base" % (pfx, base_id), pfx, base_id, "base", 0, list(toks)))
        for k in range(n):
            if "trunc" in kinds and k > 0:
                vs.append(Variant("%s.%s.t%d" % (pfx, base_id, k), pfx, base_id, "trunc", k, toks[:k]))
            if "drop" in kinds:
                vs.append(Variant("%s.%s.d%d" % (pfx, base_id, k), pfx, base_id, "drop", k, toks[:k] + toks[k + 1:]))
            if "dup" in kinds:
                vs.append(Variant("%s.%s.u%d" % (pfx, base_id, k), pfx, base_id, "dup", k, toks[:k + 1] + toks[k:]))
            if "repl" in kinds:
                alts = REPLACEMENT[token_class(toks[k])]
                rep = alts[(k + len(toks)) % len(alts)]
                vs.append(Variant("%s.%s.r%d" % (pfx, base_id, k), pfx, base_id, "repl", k, toks[:k] + [rep] + toks[k + 1:]))
        return vs

    def all_variants(self):
        vs = []
        nrand = {"quick": {"A": 3, "B": 2, "C": 1}, "thorough": {"A": 24, "B": 12, "C": 6}}[self.tier]
        for pfx, (_, _, texts) in PREFIXES.items():
            for i, t in enumerate(texts):
                vs += self.variants_of(pfx, "h%d" % i, t.split())
            for j in range(nrand.get(pfx, 0)):
                txt = self.random_text(pfx, self.rng, self.rng.randint(3, 5))
                vs += self.variants_of(pfx, "r%d" % j, txt.split())
        return vs

    # ------------------------------------------------------------------------------------------ case lines
    @staticmethod
    def build_ops(slot, pfx):
        return ["new %d" % slot] + ["prog %d %s" % (slot, hx(src_of(p.split()))) for p in PREFIXES[pfx][0]]

    def pass1_lines(self, v):
        t = hx(src_of(v.toks)) or hx("\n")
        b0 = self.build_ops(0, v.pfx)
        lib = b0 + ["dump 0", "fnid 0", "ptrace 0 " + t, "dump 0", "fnid 0"]
        capi = b0 + ["dump 0", "fnid 0", "capi 0 " + t, "dump 0", "fnid 0"]
        step = b0 + ["stepc 0 1 " + t, "dump 0", "fnid 0", "free 1"]
        return {"lib": "|".join(lib), "capi": "|".join(capi), "step": "|".join(step)}

    def pass2_line(self, v, path):
        t = hx(src_of(v.toks)) or hx("\n")
        ops = self.build_ops(0, v.pfx)
        if path == "step":
            ops += ["stepc 0 1 " + t]
        else:
            ops += [("parse 0 0 " if path == "lib" else "capi 0 ") + t] + self.build_ops(1, v.pfx)
        ops += ["out 0", "out 1"]     # drain what the prefix / the text printed
        for q in PREFIXES[v.pfx][1]:
            qs = hx(src_of(q.split()))
            ops += ["prog 0 " + qs, "out 0", "prog 1 " + qs, "out 1"]
        ops += ["dump 0", "dump 1"]
        if path == "step":
            ops += ["free 1"]
        return "|".join(ops)

    # ------------------------------------------------------------------------------------------ judging
    def violation(self, what, v, path, impl, m=None, stderr="", lines=None):
        self.violations.append({"what": what, "case": "%s/%s" % (v.vid, path), "impl_ops": (lines or ""), "impl": (impl or "")[:3000],
                                "model": (m or {}).get("model"), "spec": (m or {}).get("spec"), "kf": (m or {}).get("kf"),
                                "meta": dict(v.meta(), path=path, events=(m or {}).get("ev")), "stderr_tail": stderr[-1500:] if stderr else ""})

    def known(self, kf, v, path, what_impl):
        entry = next((f for f in self.findings if f["id"] == kf and f.get("status", "known") == "known"), None)
        if entry is None:
            return False
        self.known_hits.setdefault(kf, {"what": entry["what"], "example": "%s/%s: %s" % (v.vid, path, " ".join(v.toks)[:160]), "impl": what_impl[:200]})
        self.stats.setdefault("known_finding_cases", {}).setdefault(kf, 0)
        self.stats["known_finding_cases"][kf] += 1
        return True

    def evaluate(self, variants, paths=("lib", "capi", "step")):
        # ---------------- pass 1
        lines, index = [], {}
        for v in variants:
            pl = self.pass1_lines(v)
            for p in paths:
                cid = "%s/%s" % (v.vid, p)
                lines.append("%s %s" % (cid, pl[p]))
                index[cid] = (v, p, pl[p])
        impl = run.run_harness(self.hbin, lines, timeout_s=20)
        parsed = {}
        mlines = []
        for cid, (v, p, ln) in index.items():
            raw = impl.get(cid)
            self.evaluations += 1
            if raw is None or raw.startswith("crash ") or raw.endswith("diverges") or "foreign-exception" in raw or "uncaught-" in raw:
                libv = parsed.get("%s/lib" % v.vid)
                if p != "lib" and libv and libv[0].startswith("ok"):
                    # the text is VALID (the library path accepted it); the C API / interactive op went on to RUN it and
                    # the run crashed: not a rejected text, outside C11 (see NOTES-C11: call before a redefinition in one text)
                    d = self.stats.setdefault("crash_while_running_an_accepted_text", {})
                    d[str(raw)[:60]] = d.get(str(raw)[:60], 0) + 1
                    if "example" not in d:
                        d["example"] = " ".join(v.toks)[:400]
                    continue
                self.violation("the implementation crashed / diverged / threw a foreign exception while handling the text",
                               v, p, raw, stderr=impl.get(cid + "#stderr", ""), lines=ln)
                continue
            parts = raw.split("|")
            nb = len(PREFIXES[v.pfx][0]) + 1
            try:
                if p == "step":
                    res = parts[nb]
                    m = re.match(r"(.*?) n=(\d+) trace=(.*) pre=([0-9a-f]*) prefn=([0-9a-f]*)$", res)
                    verdict, trace = m.group(1), m.group(3)
                    after = Dump(parts[nb + 1], parts[nb + 2])
                    before = Dump(bytes.fromhex(m.group(4)).decode("latin-1"), bytes.fromhex(m.group(5)).decode("latin-1"))
                else:
                    before = Dump(parts[nb], parts[nb + 1])
                    res = parts[nb + 2]
                    after = Dump(parts[nb + 3], parts[nb + 4])
                    if p == "lib":
                        m = re.match(r"(.*?) trace=(.*)$", res)
                        verdict, trace = m.group(1), m.group(2)
                    else:
                        verdict, trace = res, None
            except (ValueError, AttributeError, IndexError) as e:
                self.violation("unreadable probe answer (%s)" % e, v, p, raw, lines=ln)
                continue
            parsed[cid] = (verdict, trace, before, after)
            if trace:
                snaps = [s.split("@", 1)[1] for s in trace.split("^") if "@" in s]
                if p == "step" and snaps:
                    # the first reader call of parseStatement comes before parsingBegin: set the parsing bit there too
                    snaps[0] = re.sub(r"!C(\d+)!", lambda mm: "!C%d!" % (int(mm.group(1)) | 8), snaps[0])
                    snaps = [s for i, s in enumerate(snaps) if i == 0 or s != snaps[i - 1]]
                rej = verdict.startswith("perr")
                if p == "lib" or rej:
                    # library path: the FOR / FORALL heads of the text, which the explained clause entries must follow (the
                    # interactive path traces the last statement only)
                    heads = self.forall_heads(v.toks) if p == "lib" else "*"
                    mlines.append("%s pctx %s %s %s %s" % (cid, "rej" if rej else "acc", "^".join(snaps), after.snap(), heads))
        model = run.run_driver(mlines) if mlines else {}
        if "#driver-error" in model:
            self.broken_ties.append("driver: " + model["#driver-error"][-400:])
        rejected = []
        for cid, (v, p, ln) in index.items():
            if cid not in parsed:
                continue
            verdict, trace, before, after = parsed[cid]
            key = (v.pfx, tuple(v.toks), p)
            tally = self.stats.setdefault("verdicts", {}).setdefault(p, {})
            vk = verdict.split(" ")[0] + ((" " + verdict.split(" ")[1]) if verdict.startswith("perr") else "")
            tally[vk] = tally.get(vk, 0) + 1
            is_rej = verdict.startswith("perr")
            if p == "lib":
                m = parse_driver(model.get(cid))
            elif p == "step":
                m = parse_driver(model.get(cid)) if is_rej else {}
            else:
                m = parse_driver(model.get("%s/lib" % v.vid)) if is_rej else {}
                libv = parsed.get("%s/lib" % v.vid)
                if libv and (libv[0].startswith("perr") or is_rej) and libv[0].split(" ")[:2] != verdict.split(" ")[:2]:
                    self.violation("C API and library disagree on the verdict for the same text", v, p, verdict + " vs " + libv[0], lines=ln)
            if not is_rej and p != "lib":
                continue
            self.distinct.add(key)
            ids = {ptr: "f%d" % i for i, (_, _, _, ptr) in enumerate(before.fns)}
            n0, m0 = len(before.syms), len(before.fns)
            impl_final = after.snap(ids=ids)
            if not m or "model" not in m:
                self.violation("the model gave no answer", v, p, verdict, m, lines=ln)
                continue
            if m["model"] in ("bad-snap", "open-clause-at-accept"):
                self.violation("the observed trace is not a run of the model (%s)" % m["model"], v, p, impl_final, m, lines=ln)
                continue
            if m.get("note"):
                self.violation("the observed trace is not a run of the model (%s)" % m["note"], v, p, impl_final, m, lines=ln)
                continue
            # model's function ids are those of the traced context; for the C API path they belong to another context:
            # canonicalise both by position in their own before-table
            if p == "capi":
                libb = parsed["%s/lib" % v.vid][2]
                mids = {ptr: "f%d" % i for i, (_, _, _, ptr) in enumerate(libb.fns)}
            else:
                mids = ids
            model_final = canon_snap(m["model"], mids)
            spec_final = canon_snap(m["spec"], mids)
            if len(self.samples) < 12 and is_rej and self.rng.random() < 0.01:
                self.samples.append({"case": cid, "text": " ".join(v.toks)[:300], "verdict": verdict, "events": m.get("ev"),
                                     "impl": impl_final, "model": model_final, "spec": spec_final})
            if not is_rej:
                # accepted by the library path: model must agree (capi/step executed the text: not compared)
                if impl_final != model_final:
                    self.violation("accepted text: implementation differs from the model", v, p, impl_final, m, lines=ln)
                continue
            rejected.append((v, p, m.get("kf", "-")))
            kfs = [k for k in (m.get("kf") or "-").split(",") if k and k != "-"]
            # (1) what the model does not carry: values, control depth, temporaries
            vals_ok = [s[3] for s in after.syms[:n0]] == [s[3] for s in before.syms] and after.cd == before.cd and after.tmp == before.tmp
            if not vals_ok:
                self.violation("a rejected text changed a value / the control depth / the temporaries of the context", v, p,
                               "before=%s after=%s" % (before.syms, after.syms[:n0]), m, lines=ln)
                continue
            # (2) the Spec, directly: everything that existed before is as before
            impl_pre = snap_prefix(impl_final, n0, m0)
            before_pre = before.snap(ids=ids)
            if p == "step":
                # the clone taken before the statement has an empty call-context cache and is not parsing
                pass
            agree_model = impl_final == model_final
            agree_spec = impl_pre == spec_final and impl_pre == before_pre
            if before_pre != spec_final:
                self.violation("the first observed snapshot is not the context before the text", v, p, before_pre, m, lines=ln)
                continue
            if kfs:
                if agree_model and not agree_spec:
                    for k in kfs:
                        if not self.known(k, v, p, impl_pre):
                            self.violation("defect region %s is not a listed known finding" % k, v, p, impl_final, m, lines=ln)
                elif agree_spec:
                    pass        # repaired upstream: the property holds here
                else:
                    self.violation("behaviour in known-finding region %s matches neither the recorded defect nor the specification" % ",".join(kfs),
                                   v, p, impl_final, m, lines=ln)
                continue
            if not agree_model:
                self.violation("implementation differs from the model" + ("" if agree_spec else " and from the specification"), v, p, impl_final, m, lines=ln)
            elif not agree_spec:
                self.violation("implementation and model agree but contradict the specification", v, p, impl_final, m, lines=ln)
        # ---------------- pass 2
        self.pass2(rejected)

    def pass2(self, rejected):
        lines, index = [], {}
        for n, (v, p, kf) in enumerate(rejected):
            if self.tier == "quick" and p == "capi" and v.kind != "witness" and n % 3:
                continue    # same parser as the library path: the quick tier probes every third one
            cid = "%s/%s/probe" % (v.vid, p)
            ln = self.pass2_line(v, p)
            lines.append("%s %s" % (cid, ln))
            index[cid] = (v, p, kf, ln)
        if not lines:
            return
        impl = run.run_harness(self.hbin, lines, timeout_s=20)
        for cid, (v, p, kf, ln) in index.items():
            raw = impl.get(cid)
            self.evaluations += 1
            kfs = [k for k in (kf or "-").split(",") if k and k != "-"]
            if raw is None or raw.startswith("crash ") or raw.endswith("diverges") or "foreign-exception" in raw or "uncaught-" in raw:
                cls = raw.split(" ", 1)[1] if raw and raw.startswith("crash ") else ""
                if KF_COMPLETE in kfs and (cls.startswith("asan:") or cls in ("segv", "ubsan:null", "ubsan:bounds")):
                    # the surviving redefinition runs in a call context cached for the OLD definition (clearCache only
                    # happens when the FUNCTION statement is executed): its locals lie outside the cached storage pool
                    self.known(KF_COMPLETE, v, p + "/probe", raw)
                    self.stats["stale_call_context_crashes"] = self.stats.get("stale_call_context_crashes", 0) + 1
                    continue
                self.violation("a probe program crashed / diverged in the context that handled the rejected text", v, p + "/probe", raw,
                               {"kf": kf}, stderr=impl.get(cid + "#stderr", ""), lines=ln)
                continue
            parts = raw.split("|")
            nq = len(PREFIXES[v.pfx][1])
            tail = parts[-(4 * nq + 2 + (1 if p == "step" else 0)):]
            diffs = []
            for i in range(nq):
                r0, o0, r1, o1 = tail[4 * i:4 * i + 4]
                if r0 != r1 or o0 != o1:
                    diffs.append("probe %d: disturbed %s %s / twin %s %s" % (i, r0, o0, r1, o1))
            try:
                d0, d1 = Dump(tail[4 * nq], "fnid="), Dump(tail[4 * nq + 1], "fnid=")
                # the twin of the interactive path is a clone: Context::clone does not keep the lvalue marks of elements
                norm = (lambda s: (s[0], s[1], s[2], re.sub(r"/[lt]", "", s[3]))) if p == "step" else (lambda s: s)
                by = {s[0]: norm(s) for s in d0.syms}
                for s in map(norm, d1.syms):
                    if by.get(s[0]) != s:
                        diffs.append("variable %s: disturbed %s / twin %s" % (bytes.fromhex(s[0]).decode("latin-1"), by.get(s[0]), s))
                if (d0.cd, d0.ed, d0.tmp, d0.bk, d0.cond) != (d1.cd, d1.ed, d1.tmp, d1.bk, d1.cond):
                    diffs.append("depths differ")
            except ValueError as e:
                diffs.append("unreadable dump: %s" % e)
            if not diffs:
                continue
            if kfs:
                for k in kfs:
                    self.known(k, v, p + "/probe", diffs[0])
                continue
            self.violation("a program valid before the rejected text behaves differently after it", v, p + "/probe", "; ".join(diffs)[:2000],
                           {"kf": kf}, lines=ln)

    # ------------------------------------------------------------------------------------------ fixed witnesses
    def witness_variants(self):
        """the recorded witness of the finding, the witnesses of the two repaired defects (which must now satisfy the Spec)
        and their neighbours"""
        ws = []
        ws.append(Variant("W.complete", "B", "w", "witness", 0, "function fa ( x ) return integer is begin return 10 ; end ; z = ;".split()))
        ws.append(Variant("W.notlast", "B", "w", "witness", 0, "function fa ( x ) return integer is begin return 10 end ;".split()))
        ws.append(Variant("W.afternew", "B", "w", "witness", 0,
                          "function fz ( ) return integer is begin return 0 ; end ; function fc ( ) return integer is begin return 10 end ;".split()))
        ws.append(Variant("W.last-ok", "B", "w", "witness", 0, "function fc ( ) return integer is begin return 10 end ;".split()))
        ws.append(Variant("W.opaque", "C", "w", "witness", 0, "v = 2 ; z = ;".split()))
        ws.append(Variant("W.twice", "A", "w", "witness", 0, 'i = "s" ; i = 2.5 ; for k in 1 to 2 loop i = true ; z = ;'.split()))
        return ws

    def check_tokens(self):
        """the token stream of a one-token-per-line rendering is the token list (texts are cut where the scanner cuts)"""
        lines, want = [], {}
        for pfx, (_, _, texts) in PREFIXES.items():
            for i, t in enumerate(texts):
                toks = t.split()
                cid = "tok.%s.%d" % (pfx, i)
                lines.append("%s tok %s sr" % (cid, hx(src_of(toks))))
                want[cid] = toks
        res = run.run_harness(self.hbin, lines)
        for cid, toks in want.items():
            got = [bytes.fromhex(x.split(":")[1]).decode("latin-1") for x in res.get(cid, "toks=")[5:].split(",") if x and not x.startswith("10:")]
            if got != toks:
                self.broken_ties.append("token stream of %s differs from the token list the variants are cut from" % cid)


    def write_evidence(self, extra=None):
        extra = dict(extra or {})
        # input distribution of the history family (shapes, lengths, kinds of rejected texts, verdict patterns, regions, paths)
        extra["histories_distribution"] = self.stats.get("histories", {})
        super().write_evidence(extra)

    # ------------------------------------------------------------------------------------------ histories
    HIST_VALID = {
        "A": ['qa = 1 ; for qk in 1 to 2 loop qa = qa + 1 ; end loop ;',
              'forall qe in t loop qs = qe ; end loop ;',
              'function nf ( p0 ) return integer is begin return p0 + 1 ; end ; print nf ( 1 ) ;',
              'print f ( 1 ) ; print g ( ) ;',
              'i = "s" ; for i2 in 1 to 2 loop i = 2.5 ; end loop ;'],
        "D": ['qa = 1 ; for qk in 1 to 2 loop qa = qa + w ; end loop ; print qa ;',
              'forall qe in t loop w = w + qe ; print w ; end loop ;',
              'function nf ( p0 ) return integer is begin return p0 + f ( p0 ) ; end ; print nf ( 1 ) ;',
              'print f ( 1 ) ; print g ( ) ; print i ; print s ;',
              'i = "s" ; for i2 in 1 to 2 loop i = 2.5 ; end loop ; print i ;',
              'function g ( ) return integer is begin return 70 ; end ; print g ( ) ;'],
        "B": ['function fd ( p0 ) return integer is begin q0 = p0 ; return q0 + 1 ; end ; print fd ( 1 ) ;',
              'print fa ( 5 ) ; print fb ( 5 ) ; print fc ( ) ;',
              'a = 1 ; for qk in 1 to 2 loop a = a + 1 ; end loop ; print a ;',
              'function fb ( x ) return integer is begin return 22 ; end ; print fb ( 1 ) ;'],
    }
    HIST_REJECTED = {
        "A": [('newfn-broken-body', 'function nb ( ) return integer is begin return 1 end ;'),
              ('redef-broken-body', 'function f ( x ) return integer is begin return 10 end ;'),
              ('redef-complete-then-error', 'function f ( x ) return integer is begin return 10 ; end ; zz = ;'),
              ('call-broken', 'print f ( 1 ;'),
              ('nested-forall-same-table', 'forall qe in t loop forall qf in t loop qg = 1 ; zz = ; end loop ; end loop ;'),
              ('nested-forall-other-table', 'tq = tab ( 2 , 1 ) ; forall qe in t loop forall qf in tq loop for qk in 1 to 2 loop zz = ; end loop ; end loop ; end loop ;'),
              ('forall-header', 'forall qe in t loop forall qe in t loop qg = 1 ; end loop ; end loop ;'),
              ('upgrade-then-error', 'i = "s" ; qn = 1 ; for i2 in 1 to 2 loop i = 2.5 ; zz = ; end loop ;')],
        "D": [('newfn-broken-body', 'function nb ( ) return integer is begin return 1 end ;'),
              ('redef-broken-body', 'function f ( x ) return integer is begin return 10 end ;'),
              ('redef-complete-then-error', 'function f ( x ) return integer is begin return 10 ; end ; zz = ;'),
              ('call-broken', 'print f ( 1 ;'),
              ('nested-forall-same-table', 'forall qe in t loop forall qf in t loop qg = 1 ; zz = ; end loop ; end loop ;'),
              ('nested-forall-other-table', 'tq = tab ( 2 , 1 ) ; forall qe in t loop forall qf in tq loop for qk in 1 to 2 loop zz = ; end loop ; end loop ; end loop ;'),
              ('forall-header', 'forall qe in t loop forall qe in t loop qg = 1 ; end loop ; end loop ;'),
              ('for-header', 'for qk in 1 to "x" loop qg = 1 ; end loop ;'),
              ('assign-in-forall-body-to-the-table', 'forall qe in t loop t = tab ( 1 , 1 ) ; end loop ;'),
              ('upgrade-then-error', 'i = "s" ; qn = 1 ; for i2 in 1 to 2 loop i = 2.5 ; zz = ; end loop ;')],
        "B": [('newfn-broken-body', 'function nb ( ) return integer is begin return 1 end ;'),
              ('redef-broken-body', 'function fa ( x ) return integer is begin return 10 end ;'),
              ('redef-complete-then-error', 'function fa ( x ) return integer is begin return 10 ; end ; zz = ;'),
              ('newfn-then-redef-broken', 'function fz ( ) return integer is begin return 0 ; end ; function fc ( ) return integer is begin return 10 end ;'),
              ('call-broken', 'print fa ( 1 ;')],
    }

    def make_histories(self):
        """[(hid, pfx, [(kind, toks)])]: kinds v:<n> (valid pool), r:<what> (rejected pool), t:<n>@<k> (valid text n truncated at k)"""
        hs = []
        rng = self.rng
        for pfx in ("A", "B", "D"):
            valid = [("v:%d" % i, t.split()) for i, t in enumerate(self.HIST_VALID[pfx])]
            rej = [("r:" + k, t.split()) for k, t in self.HIST_REJECTED[pfx]]
            trunc = []
            for i, (_, toks) in enumerate(valid):
                for k in range(1, len(toks)):
                    trunc.append(("t:%d@%d" % (i, k), toks[:k]))
            n = 0

            def add(items):
                nonlocal n
                hs.append(("H.%s.%d" % (pfx, n), pfx, items))
                n += 1
            # length 2: every rejected text (fixed ones and EVERY truncation position of every valid text), then a valid text
            for j, r in enumerate(rej + trunc):
                add([r, valid[j % len(valid)]])
                if self.tier != "quick" or j % 3 == 0:
                    add([r, valid[(j + 1) % len(valid)]])
            # length 2, the other order: every valid text (declarations, a redefinition that leaves the old functor in
            # `_backed`, calls, loops) followed by every fixed rejected text; and with a valid text behind
            for i, vv in enumerate(valid):
                for j, r in enumerate(rej):
                    add([vv, r])
                    if self.tier != "quick" or (i + j) % 2 == 0:
                        add([vv, r, valid[(i + j + 1) % len(valid)]])
            # length 3: valid, rejected, valid  /  rejected, rejected, valid
            pool = rej + (trunc if self.tier != "quick" else trunc[::4])
            for j, r in enumerate(pool):
                add([valid[j % len(valid)], r, valid[(j + 2) % len(valid)]])
                add([r, pool[(j * 7 + 3) % len(pool)], valid[(j + 1) % len(valid)]])
            # length 4
            for j, r in enumerate(pool if self.tier != "quick" else pool[::2]):
                r2 = pool[(j * 5 + 1) % len(pool)]
                add([valid[j % len(valid)], r, valid[(j + 1) % len(valid)], r2])
                add([r, valid[(j + 3) % len(valid)], r2, valid[(j + 2) % len(valid)]])
            # a few random valid-looking texts around a rejected one
            for j in range(6 if self.tier == "quick" else 40):
                a = self.random_text(pfx, rng, 2).split()
                b = self.random_text(pfx, rng, 2).split()
                r = rng.choice(pool)
                add([("x:rand", a), r, ("x:rand", b)])
        return hs

    @staticmethod
    def forall_heads(toks):
        """FOR / FORALL heads of a text outside function bodies, in order: F:<hex VAR> / A:<hex IT>:<hex TARGET | ->"""
        hs = []
        isw = lambda t: re.fullmatch(r"[A-Za-z_$][A-Za-z0-9_$]*", t) is not None
        low = [t.lower() for t in toks]
        fdepth, i, n = None, 0, len(toks)
        while i < n:
            t = low[i]
            if fdepth is None:
                if t == "function":
                    fdepth = 0
                elif t == "forall" and i + 2 < n and low[i + 2] == "in" and isw(toks[i + 1]):
                    tgt = "-"
                    if i + 4 < n and isw(toks[i + 3]) and low[i + 4] in ("loop", "asc", "desc"):
                        tgt = toks[i + 3].upper().encode().hex()
                    hs.append("A:%s:%s" % (toks[i + 1].upper().encode().hex(), tgt))
                elif t == "for" and i + 2 < n and low[i + 2] == "in" and isw(toks[i + 1]):
                    hs.append("F:%s" % toks[i + 1].upper().encode().hex())
            else:
                if t in ("begin", "if", "loop"):
                    fdepth += 1
                elif t == "end":
                    fdepth -= 1
                    if i + 1 < n and low[i + 1] in ("if", "loop"):
                        i += 1
                    if fdepth <= 0:
                        fdepth = None
            i += 1
        return ",".join(hs) or "-"

    @staticmethod
    def words_of(toks):
        return {t.upper() for t in toks if re.fullmatch(r"[A-Za-z_$][A-Za-z0-9_$]*", t)}

    def evaluate_histories(self):
        hs = self.make_histories()
        st = self.stats.setdefault("histories", {})
        st["count"] = len(hs)
        shapes, lens, rkinds = {}, {}, {}
        for _, _, items in hs:
            shape = "".join("V" if k[0] in "vx" else "R" for k, _ in items)
            shapes[shape] = shapes.get(shape, 0) + 1
            lens[len(items)] = lens.get(len(items), 0) + 1
            for k, _ in items:
                if k[0] in "rt":
                    kk = k.split("@")[0] if k[0] == "t" else k
                    kk = "t:truncation-at-every-position" if k[0] == "t" else kk
                    rkinds[kk] = rkinds.get(kk, 0) + 1
        st["intended_shape (V = from the valid pool, R = from the rejected pool)"] = shapes
        st["length"] = {str(k): v for k, v in sorted(lens.items())}
        st["rejected_kind"] = rkinds
        # ---------------- (a) library path, traced, model-explained
        lines, index = [], {}
        for hid, pfx, items in hs:
            ops = self.build_ops(0, pfx) + ["dump 0", "fnid 0"]
            for _, toks in items:
                ops += ["ptrace 0 " + (hx(src_of(toks)) or hx("\n")), "dump 0", "fnid 0"]
            cid = hid + "/lib"
            lines.append("%s %s" % (cid, "|".join(ops)))
            index[cid] = (hid, pfx, items, "|".join(ops))
        impl = run.run_harness(self.hbin, lines, timeout_s=30)
        parsed, mlines = {}, []
        for cid, (hid, pfx, items, ln) in index.items():
            raw = impl.get(cid)
            self.evaluations += 1
            v = Variant(hid, pfx, "hist", "history", 0, [t for _, toks in items for t in toks + ["||"]])
            if raw is None or raw.startswith("crash ") or raw.endswith("diverges") or "foreign-exception" in raw or "uncaught-" in raw:
                self.violation("the implementation crashed / diverged while parsing a history of texts", v, "lib", raw,
                               stderr=impl.get(cid + "#stderr", ""), lines=ln)
                continue
            parts = raw.split("|")
            nb = len(PREFIXES[pfx][0]) + 1
            try:
                dumps = [Dump(parts[nb], parts[nb + 1])]
                texts = []
                for i in range(len(items)):
                    res = parts[nb + 2 + 3 * i]
                    m = re.match(r"(.*?) trace=(.*)$", res)
                    verdict, trace = m.group(1), m.group(2)
                    snaps = [x.split("@", 1)[1] for x in trace.split("^") if "@" in x]
                    dumps.append(Dump(parts[nb + 3 + 3 * i], parts[nb + 4 + 3 * i]))
                    texts.append((verdict, snaps))
            except (ValueError, AttributeError, IndexError) as e:
                self.violation("unreadable probe answer (%s)" % e, v, "lib", raw, lines=ln)
                continue
            parsed[hid] = (v, pfx, items, texts, dumps, ln)
            words = []
            for (verdict, snaps), d, (_, toks) in zip(texts, dumps[1:], items):
                words += ["rej" if verdict.startswith("perr") else "acc", "^".join(snaps), d.snap(), self.forall_heads(toks)]
            mlines.append("%s hist %s" % (hid, " ".join(words)))
        model = run.run_driver(mlines) if mlines else {}
        if "#driver-error" in model:
            self.broken_ties.append("driver(hist): " + model["#driver-error"][-400:])
        twin_lines, twin_index = [], {}
        beh_lines, beh_index = [], {}
        sess_lines = []
        hist_kf = {}
        vp = st.setdefault("verdict_pattern (a = accepted, r = rejected)", {})
        for hid, (v, pfx, items, texts, dumps, ln) in parsed.items():
            ans = model.get(hid) or ""
            kv = dict(w.split("=", 1) for w in ans.split(" ") if "=" in w)
            ids = {ptr: "f%d" % i for i, (_, _, _, ptr) in enumerate(dumps[0].fns)}
            pat = "".join("r" if t[0].startswith("perr") else "a" for t in texts)
            vp[pat] = vp.get(pat, 0) + 1
            self.distinct.add((pfx, tuple(v.toks), "hist"))
            bad = False
            # a text of the history in the finding region: the session model (which skips rejected texts) is not expected to hold
            hist_kf[hid] = next((kv["kf%d" % (i + 1)] for i in range(len(items)) if kv.get("kf%d" % (i + 1), "-") != "-"), "-")
            for i in range(len(items)):
                tag = str(i + 1)
                if kv.get("note" + tag, "missing") != "-":
                    self.violation("history: the observed trace of text %s is not a run of the model (%s)" % (tag, kv.get("note" + tag)), v, "lib",
                                   dumps[i + 1].snap(ids=ids), {"model": kv.get("m" + tag), "ev": kv.get("ev" + tag)}, lines=ln)
                    bad = True
                    break
                kf = kv.get("kf" + tag, "-")
                if kv.get("carry" + tag) != "ok":
                    self.violation("history: the context the model carries from text to text is not the context text %s starts in" % tag, v, "lib",
                                   texts[i][1][0] if texts[i][1] else "", {"model": kv.get("carry" + tag)}, lines=ln)
                    bad = True
                    break
                if canon_snap(kv.get("m" + tag, ""), ids) != dumps[i + 1].snap(ids=ids):
                    self.violation("history: after text %s the implementation differs from the model" % tag, v, "lib",
                                   dumps[i + 1].snap(ids=ids), {"model": canon_snap(kv.get("m" + tag, ""), ids), "ev": kv.get("ev" + tag), "kf": kf}, lines=ln)
                    bad = True
                    break
                if kv.get("nl" + tag) != "ok":
                    self.violation("history: the statement-level machine (names, raw clause entries) disagrees with the explained trace of text %s" % tag,
                                   v, "lib", dumps[i + 1].snap(ids=ids), {"model": kv.get("nl" + tag), "ev": kv.get("ev" + tag)}, lines=ln)
                    bad = True
                    break
            if bad:
                continue
            st["texts_explained_from_the_carried_context"] = st.get("texts_explained_from_the_carried_context", 0) + len(items)
            if sum(1 for x in self.samples if "history" in x) < 3 and len(items) >= 3 and "r" in pat[:-1] and self.rng.random() < 0.05:
                self.samples.append({"history": [" ".join(toks)[:200] for _, toks in items], "verdicts": pat,
                                     "events": [kv.get("ev%d" % (i + 1)) for i in range(len(items))],
                                     "model_without_rejected": {k_: v_ for k_, v_ in kv.items() if k_[:2] in ("wo", "hy", "th")}})
                self.samples = self.samples[-12:]
            # every rejected text k: the twin history without it
            for k in range(len(items)):
                if not texts[k][0].startswith("perr"):
                    continue
                tag = str(k + 1)
                kf = kv.get("kf" + tag, "-")
                before, after = dumps[k], dumps[k + 1]
                left = {bytes.fromhex(n).decode("latin-1") for n, _, _, _ in after.syms} - {bytes.fromhex(n).decode("latin-1") for n, _, _, _ in before.syms}
                # functions are keyed by (name, arity); a later text that mentions the NAME of a left-over overload is outside
                leftf = {(n, a) for n, a, _, _ in after.fns} - {(n, a) for n, a, _, _ in before.fns}
                left |= {bytes.fromhex(n).decode("latin-1") for n, _ in leftf}
                leftsyms = {n for n, _, _, _ in after.syms} - {n for n, _, _, _ in before.syms}
                later = [t for _, toks in items[k + 1:] for t in toks]
                avoids = not (self.words_of(later) & left)
                region = avoids and kf == "-" and kv.get("hyp" + tag) == "1"
                key = "rejected_text_followed_by_later_texts" if later else "rejected_text_last"
                st[key] = st.get(key, 0) + 1
                if kf != "-":
                    st["in_finding_region"] = st.get("in_finding_region", 0) + 1
                    self.known(kf, v, "hist", "history with a completed redefinition before the error")
                elif not avoids:
                    st["later_text_mentions_a_left_over_name (outside the guarantee)"] = st.get("later_text_mentions_a_left_over_name (outside the guarantee)", 0) + 1
                if kv.get("th" + tag) == "FAIL":
                    self.violation("history: the MODEL contradicts later_parse_independent_of_rejected (verdicts with / without text %s)" % tag,
                                   v, "lib", ans[:600], {"model": kv.get("wo" + tag)}, lines=ln)
                    continue
                if not later:
                    continue
                ops = self.build_ops(0, pfx) + ["dump 0", "fnid 0"]
                for j, (_, toks) in enumerate(items):
                    if j != k:
                        ops += ["ptrace 0 " + (hx(src_of(toks)) or hx("\n"))]
                ops += ["dump 0", "fnid 0"]
                tcid = "%s/wo%d" % (hid, k + 1)
                twin_lines.append("%s %s" % (tcid, "|".join(ops)))
                twin_index[tcid] = (hid, k, region, kv.get("wo" + tag), kv.get("wf" + tag), (leftsyms, leftf), "|".join(ops))
                # behaviour: the same history run (not only parsed) next to a twin without text k, three paths
                if self.tier == "quick" and (len(beh_lines) // 3) % 2 and not region:
                    continue
                for path, op in (("lib", "prog 0 "), ("capi", "capi 0 "), ("step", "step 0 ")):
                    ops = self.build_ops(0, pfx) + self.build_ops(1, pfx) + ["out 0", "out 1"]
                    for j, (_, toks) in enumerate(items):
                        t = hx(src_of(toks)) or hx("\n")
                        # interactive path: `stepc` tells how many statements of the rejected text were RUN before the
                        # rejected statement (they are separate, valid inputs there)
                        ops += [("stepc 0 2 " + t) if (path == "step" and j == k) else (op + t), "out 0"]
                        if j != k:
                            ops += [op.replace(" 0 ", " 1 ") + t, "out 1"]
                    ops += ["dump 0", "dump 1"] + (["free 2"] if path == "step" else [])
                    bcid = "%s/wo%d/run-%s" % (hid, k + 1, path)
                    beh_lines.append("%s %s" % (bcid, "|".join(ops)))
                    if path == "lib" and region and avoids:
                        # the session model (Elab front end + Interp) predicts the run of the WHOLE history, rejected text included
                        sess_lines.append("%s sess 100000 %s" % (bcid, " ".join(
                            [hx(src_of(q.split())) for q in PREFIXES[pfx][0]] + [(hx(src_of(toks)) or hx("\n")) for _, toks in items])))
                    beh_index[bcid] = (hid, k, region and avoids, kf, left, path, "|".join(ops))
        # ---------------- (b) parse-level twin
        impl = run.run_harness(self.hbin, twin_lines, timeout_s=30) if twin_lines else {}
        for tcid, (hid, k, region, wo, wf, left, ln) in twin_index.items():
            v, pfx, items, texts, dumps, _ = parsed[hid]
            raw = impl.get(tcid)
            self.evaluations += 1
            if raw is None or raw.startswith("crash ") or "uncaught-" in raw or raw.endswith("diverges"):
                self.violation("the twin history (without the rejected text) crashed", v, "lib/twin", raw, lines=ln)
                continue
            parts = raw.split("|")
            nb = len(PREFIXES[pfx][0]) + 1
            try:
                d0 = Dump(parts[nb], parts[nb + 1])
                n_others = len(items) - 1
                tv = "".join("r" if parts[nb + 2 + j].startswith("perr") else "a" for j in range(n_others))
                dN = Dump(parts[nb + 2 + n_others], parts[nb + 3 + n_others])
            except (ValueError, IndexError) as e:
                self.violation("unreadable twin answer (%s)" % e, v, "lib/twin", raw, lines=ln)
                continue
            with_v = "".join("r" if t[0].startswith("perr") else "a" for j, t in enumerate(texts) if j != k)
            if not region:
                if tv != with_v:
                    st["outside_the_guarantee_and_verdicts_differ"] = st.get("outside_the_guarantee_and_verdicts_differ", 0) + 1
                continue
            st["twin_histories_compared_in_the_theorem_region"] = st.get("twin_histories_compared_in_the_theorem_region", 0) + 1
            ids0 = {ptr: "f%d" % i for i, (_, _, _, ptr) in enumerate(dumps[0].fns)}
            idsT = {ptr: "f%d" % i for i, (_, _, _, ptr) in enumerate(d0.fns)}
            if tv != with_v:
                self.violation("a text valid before the rejected text gets another verdict after it (with %s / without %s)" % (with_v, tv),
                               v, "lib/twin", raw[:600], {"model": wo}, lines=ln)
                continue
            if wo != tv:
                self.violation("the model's prediction of the history without the rejected text differs from the library (model %s / library %s)" % (wo, tv),
                               v, "lib/twin", raw[:600], {"model": wo}, lines=ln)
                continue
            if canon_snap(wf or "", ids0) != dN.snap(ids=idsT):
                self.violation("the model's final context of the history without the rejected text differs from the library",
                               v, "lib/twin", dN.snap(ids=idsT), {"model": canon_snap(wf or "", ids0)}, lines=ln)
                continue
            # the theorem on the implementation: final tables equal outside the left-overs
            dis = dumps[-1]
            keep = lambda d, idm: ([(n, t, f) for n, t, f, _ in d.syms if n not in left[0]],
                                   [(n, a, b, canon_id(p, idm)) for n, a, b, p in d.fns if (n, a) not in left[1]])
            if keep(dis, ids0) != keep(dN, idsT):
                self.violation("after the same later texts the tables differ (outside the rejected text's left-overs) with / without the rejected text",
                               v, "lib/twin", "%s / %s" % (keep(dis, ids0), keep(dN, idsT)), lines=ln)
        # ---------------- (c) behaviour twin, three paths
        impl = run.run_harness(self.hbin, beh_lines, timeout_s=30) if beh_lines else {}
        smodel = run.run_driver(sess_lines) if sess_lines else {}
        if "#driver-error" in smodel:
            self.broken_ties.append("driver(sess): " + smodel["#driver-error"][-400:])
        sp = st.setdefault("behaviour_predicted_by_the_session_model (Elab + Interp.runProgram)", {})
        bp = st.setdefault("behaviour_twins_by_path", {})
        for bcid, (hid, k, region, kf, left, path, ln) in beh_index.items():
            v, pfx, items, texts, dumps, _ = parsed[hid]
            raw = impl.get(bcid)
            self.evaluations += 1
            crashed = raw is None or raw.startswith("crash ") or "uncaught-" in raw or raw.endswith("diverges") or "foreign-exception" in raw
            if crashed:
                if kf != "-":
                    self.known(kf, v, "hist/run-" + path, str(raw)[:100])
                elif region:
                    self.violation("running a history with a rejected text crashed / diverged", v, "run-" + path, raw,
                                   stderr=impl.get(bcid + "#stderr", ""), lines=ln)
                else:
                    d = self.stats.setdefault("crash_while_running_an_accepted_text", {})
                    d[str(raw)[:60]] = d.get(str(raw)[:60], 0) + 1
                continue
            if not region:
                continue
            bp[path] = bp.get(path, 0) + 1
            parts = raw.split("|")
            nb = 2 * (len(PREFIXES[pfx][0]) + 1) + 2
            pos, diffs = nb, []
            try:
                partial = False
                for j in range(len(items)):
                    r0, o0 = parts[pos], parts[pos + 1]
                    pos += 2
                    if j == k and path == "step":
                        mm = re.search(r" n=(\d+) ", r0)
                        partial = not mm or int(mm.group(1)) > 0
                    if j != k:
                        r1, o1 = parts[pos], parts[pos + 1]
                        pos += 2
                        if r0.split(" ")[:2] != r1.split(" ")[:2] or o0 != o1:
                            diffs.append("text %d: disturbed %s %s / twin %s %s" % (j + 1, r0[:80], o0[:80], r1[:80], o1[:80]))
                d0, d1 = Dump(parts[pos], "fnid="), Dump(parts[pos + 1], "fnid=")
                by = {s_[0]: s_ for s_ in d0.syms}
                for s_ in d1.syms:
                    if by.get(s_[0]) != s_:
                        diffs.append("variable %s: disturbed %s / twin %s" % (bytes.fromhex(s_[0]).decode("latin-1"), by.get(s_[0]), s_))
                if (d0.cd, d0.ed, d0.tmp, d0.bk, d0.cond) != (d1.cd, d1.ed, d1.tmp, d1.bk, d1.cond):
                    diffs.append("depths differ")
            except (ValueError, IndexError) as e:
                diffs.append("unreadable answer: %s" % e)
            if path == "lib" and bcid in smodel and not diffs:
                # model prediction of the disturbed run: verdict class of every text and the whole output
                ans = smodel[bcid]
                mm = re.match(r"model=(\S*) out=([0-9a-f]*)", ans)
                if not mm or mm.group(1) in ("unsupported", "oof", "unmodelled"):
                    what = "not_predicted: " + (re.search(r"note=(\S+)", ans).group(1) if "note=" in ans else ans[:40])
                    sp[what] = sp.get(what, 0) + 1
                else:
                    cls = lambda r_: "rej" if r_.startswith("perr") else ("ok" if r_.startswith("ok") else r_.split(" ")[0])
                    mcls = lambda r_: "rej" if r_ == "rej" else ("ok" if r_.startswith("ok") else r_.split("_")[0])
                    npfx = len(PREFIXES[pfx][0])
                    mv = [mcls(x) for x in mm.group(1).split(";")][npfx:]
                    iv, iout, q = [], parts[nb - 2][4:], nb
                    for j in range(len(items)):
                        iv.append(cls(parts[q]))
                        iout += parts[q + 1][4:]
                        q += 2 if j == k else 4
                    if mv != iv:
                        sp["front_end_verdicts_differ (parse errors outside the front-end model)"] = sp.get("front_end_verdicts_differ (parse errors outside the front-end model)", 0) + 1
                    elif mm.group(2) != iout and hist_kf.get(hid, "-") != "-":
                        self.known(hist_kf[hid], v, "hist/sess", "another rejected text of the history completed a redefinition: output differs from the session model")
                        sp["in_finding_region"] = sp.get("in_finding_region", 0) + 1
                    elif mm.group(2) != iout:
                        self.violation("the session model (rejected texts are no-ops, accepted ones run by Interp) predicts another output for the history",
                                       v, "run-lib/sess", "verdicts %s output %s" % (iv, iout[:400]), {"model": ans[:600]}, lines=ln)
                    else:
                        sp["predicted_and_equal"] = sp.get("predicted_and_equal", 0) + 1
            if partial:
                # statements of the rejected text before the rejected statement were accepted and run: not comparable with a twin
                # that never saw them (the per-statement comparison is pass 1/2 of the single-text family)
                st["interactive_path_ran_statements_before_the_rejected_one"] = st.get("interactive_path_ran_statements_before_the_rejected_one", 0) + 1
                bp[path] -= 1
                continue
            if diffs:
                self.violation("a history behaves differently with / without a rejected text in it", v, "run-" + path, "; ".join(diffs)[:2000],
                               {"kf": kf}, lines=ln)
        # ---------------- the witness that the "names only the rejected text introduced" exclusion is needed
        w = ["new 0", "prog 0 " + hx("w = 1 ;"), "prog 0 " + hx("$z = 1 ; y = ;"), "prog 0 " + hx('$z = "a" ;'),
             "new 1", "prog 1 " + hx("w = 1 ;"), "prog 1 " + hx('$z = "a" ;')]
        r = run.run_harness(self.hbin, ["W.leftover " + "|".join(w)]).get("W.leftover", "")
        pr = r.split("|")
        st["witness_later_parse_depends_on_leftover_names"] = {
            "history": '$z = 1 ; y = ;   then   $z = "a" ;', "with_rejected_text": pr[3] if len(pr) > 3 else r, "without": pr[6] if len(pr) > 6 else r,
            "confirmed_on_the_library": len(pr) > 6 and pr[2].startswith("perr") and pr[3].startswith("perr") and pr[6].startswith("ok")}
        if not st["witness_later_parse_depends_on_leftover_names"]["confirmed_on_the_library"]:
            self.broken_ties.append("the witness of later_parse_depends_on_leftover_names does not behave in the library as in the model: " + r[:300])

    # ------------------------------------------------------------------------------------------ driver
    def step_correspondence(self):
        try:
            self.hbin = build.harness_build(self.harness)
        except build.BuildError as e:
            self.broken_ties.append("build: %s: %s" % (e.what, e.output[-800:]))
            return
        self.check_tokens()
        vs = self.witness_variants() + self.all_variants()
        self.stats["variants"] = len(vs)
        kinds = {}
        for v in vs:
            kinds[v.kind] = kinds.get(v.kind, 0) + 1
        self.stats["variant_kinds"] = kinds
        self.stats["exhaustive"] = False
        import time
        t = time.time()
        self.evaluate(vs)
        self.stats["correspondence_s"] = round(time.time() - t, 1)
        t = time.time()
        self.evaluate_histories()
        self.stats["histories_s"] = round(time.time() - t, 1)

    def replay(self, rep):
        ok, out = build.lean_build(["blocv"])
        if not ok:
            print("replay: lake build blocv failed")
            return 1
        self.hbin = build.harness_build(self.harness)
        vs, seen = [], set()
        for b in rep.get("broken_ties", []):
            print("  broken: " + b[:300])
        for i, vio in enumerate(rep.get("violations", [])):
            me = vio.get("meta") or {}
            if "tokens" not in me or (me["prefix"], tuple(me["tokens"])) in seen:
                continue
            seen.add((me["prefix"], tuple(me["tokens"])))
            vs.append(Variant("replay%d" % i, me["prefix"], me.get("base", "x"), me.get("kind", "x"), me.get("k", 0), me["tokens"]))
        hist = any((vio.get("meta") or {}).get("kind") == "history" for vio in rep.get("violations", []))
        vs = [v for v in vs if v.kind != "history"]
        if not vs and not hist:
            print("replay: no case recorded")
            return 1 if rep.get("broken_ties") else 0
        if vs:
            self.evaluate(vs)
        if hist:
            self.evaluate_histories()     # the family is a function of the seed
        for v in self.violations:
            print("VIOLATION property=%s %s: case=%s\n  text=%s\n  impl=%s\n  model=%s\n  spec=%s" % (
                self.pid, v["what"], v["case"], " ".join(v["meta"]["tokens"]), v["impl"][:600], v["model"], v["spec"]))
        for fid, info in sorted(self.known_hits.items()):
            print("KNOWN-FINDING: property=%s [%s] %s" % (self.pid, fid, info["example"]))
        return 1 if self.violations else 0
