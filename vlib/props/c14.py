"""C14 — cloned contexts are independent, also when run concurrently on several threads.

Correspondence: harness/thrprobe.cpp runs a SCRIPT of rounds (compile / clone / run / purge / free …) on
real std::threads (mode `thr`: the actions of one round start together behind a spin barrier) and once
more strictly sequentially (mode `seq`, the sequential C++ reference); the Lean driver command `world`
applies the same operations through `World.apply` — the function the C14 theorems are about — under a
RANDOM interleaving of statement steps. Per context: result handed to the host, printed output (own
file per clone via bloc_clone_context2) and every variable are compared three ways
(threads = sequential C++ = model). Thorough tier: the same harness built with -fsanitize=thread;
every ThreadSanitizer report is classified by its pair of source sites."""
import json
import os
import re
import shutil
import sys
import tempfile
import time

from .. import build, progen, run
from ..core import Check, VERIF, log, outcomes_agree
from ..progen import I, L, S
from ..run import hx
from .c04 import parse_dump

BUILTIN_EXC = ("OTHERS", "OUT_OF_RANGE", "DIVIDE_BY_ZERO")

# Known findings of this property. known_findings.json wins when it lists the id (the owner of that file
# merges these entries, see notes/NOTES-C14.md); until then the check uses this table.
DEFAULT_FINDINGS = [
    {"property": "C14", "id": "C14.race_stmt_level", "status": "known",
     "site": "blocc/statement.cpp:Statement::execute",
     "what": "data race: every Statement::execute stores ctx.execLevel() into the mutable _level of the statement node, "
             "which all clones running the same executable / calling the same function share (same value from every "
             "writer as long as every exec stack is balanced: benign by value, undefined by the C++ memory model)"},
    {"property": "C14", "id": "C14.error_record_process_wide", "status": "known",
     "site": "blocc/bloc_capi.cpp:bloc_error_set",
     "what": "bloc_errno()/bloc_strerror() after a failed bloc_execute2 report the error of whichever context failed "
             "last: the record `bloc_error` is one process-wide struct written without synchronisation (data race, and "
             "wrong code/message for the host under threads)"},
    {"property": "C14", "id": "C14.what_static_buffer", "status": "fixed", "commit": "1cb0b5a",
     "site": "blocc/exception.h:Error::what",
     "what": "(repaired: the buffer is `static thread_local` now) Error::what() formatted into ONE function-local static "
             "buffer: concurrent errors raced on it; BEGINStatement::docatch compares `when NAME` with that buffer, so a handled "
             "user exception in one thread could miss (or take) a handler because another thread formatted its own error "
             "meanwhile; bloc_strerror() pointed into it"},
    {"property": "C14", "id": "C14.race_rng", "status": "known",
     "site": "blocc/context.cpp:Context::random",
     "what": "data race on the function-local static generator of Context::random (random() is documented process-wide input)"},
    {"property": "C14", "id": "C14.race_type_volatile", "status": "known",
     "site": "blocc/member/member_at.cpp:MemberATExpression::type, blocc/builtin/builtin_tab.cpp:TABExpression::type",
     "what": "data race: type() const writes the mutable _type_volatile of a shared expression node"},
    {"property": "C14", "id": "C14.free_original_then_clone_uaf", "status": "fixed", "commit": "4769647",
     "site": "blocc/context.cpp:Context::~Context",
     "what": "heap-use-after-free: free the original (which declared a function), then free the clone: the function's "
             "prototype context is destroyed with the last holder of the shared Functor and reads the original's "
             "FunctorManager (`_fctm->getRoot()`), which died with the original"},
    {"property": "C14", "id": "C14.clone_function_runs_for_original", "status": "fixed", "commit": "137dbae",
     "what": "a function declared in the original and called in a clone printed to the original's stream, stopped on the "
             "original's pending return, and was a heap-use-after-free once the original was freed"},
]

# ---- TSan report classification: (site, site) -> finding id. A site is "<file>:<function>" of the first frame under the repo.
# A rule only ATTRIBUTES a report; whether it is tolerated is decided by the status of the finding (C14.known): a pair
# attributed to a `fixed` finding is a VIOLATION. So the rule of C14.what_static_buffer stays (a race on Error::what()'s
# buffer is named for what it is when `thread_local` is lost again), but nothing it matches is accepted any more.
WHAT_SITE = "blocc/exception.h:Error::what"


def host_reads_record_message(a, b):
    """One access is OUTSIDE the library (site `?…`: the host reading the text bloc_strerror() handed it), the other is
    Error::what() formatting the message FOR THE ERROR RECORD (called from a bloc_* function of bloc_capi.cpp:
    `bloc_error_set(re.what(), re.no)`). With the buffer per thread (1cb0b5a) two threads can only meet in one buffer through
    the process-wide record: `bloc_error.msg` set by thread A leads thread B, which asks for the message of ITS failed call,
    into A's buffer. That is finding C14.error_record_process_wide, not a race between two what() calls."""
    for x, y in ((a, b), (b, a)):
        if x.startswith("?") and re.match(re.escape(WHAT_SITE) + r"<blocc/bloc_capi\.cpp:bloc_\w+$", y):
            return True
    return False


RACE_RULES = [
    # … only when the location is not the (former) process-wide static `Error::what() const::buf`: TSan names a thread_local
    # buffer "TLS of thread Tn" or not at all
    ("C14.error_record_process_wide", lambda a, b, loc: "Error::what" not in loc and host_reads_record_message(a, b)),
    ("C14.race_stmt_level", lambda a, b, loc: all(s.startswith(("blocc/statement.cpp:Statement::execute", "blocc/statement.h:Statement::level",
                                                                 "blocc/context.cpp:Context::onRuntimeError")) for s in (a, b))),
    ("C14.what_static_buffer", lambda a, b, loc: "Error::what" in loc or any(s.startswith("blocc/exception.h:Error::what") for s in (a, b))),
    # the record's own copy of the message (static `bloc_error_msg`, written by snprintf in bloc_error_set, read by the host)
    ("C14.error_record_process_wide", lambda a, b, loc: "bloc_error_msg" in loc or
     any(x == "blocc/bloc_capi.cpp:bloc_error_set" and (y.startswith("?") or y.startswith("blocc/bloc_capi.cpp:bloc_")) for x, y in ((a, b), (b, a)))),
    ("C14.error_record_process_wide", lambda a, b, loc: "'bloc_error'" in loc or all(re.match(r"blocc/bloc_capi\.cpp:bloc_(error_set|error_raz|errno|strerror|execute2?|parse_\w+)$", s) for s in (a, b))),
    ("C14.race_rng", lambda a, b, loc: "Context::random" in loc or all(s.startswith("blocc/context.cpp:Context::random") for s in (a, b))),
    ("C14.race_type_volatile", lambda a, b, loc: all(re.match(r"blocc/(member/member_at\.(cpp|h):MemberATExpression::type|builtin/builtin_tab\.(cpp|h):TABExpression::type)", s) for s in (a, b))),
]


def classify_race(a, b, loc):
    for fid, pred in RACE_RULES:
        if pred(a, b, loc):
            return fid
    return None


def parse_tsan(text, repo):
    """-> list of (kind, siteA, siteB, location line, raw block)"""
    out = []
    for blk in re.split(r"^={18}\s*$", text, flags=re.M):
        m = re.search(r"WARNING: ThreadSanitizer: ([^\n(]+)", blk)
        if not m:
            continue
        kind = m.group(1).strip()
        sites = []
        for acc in re.finditer(r"^  (?:Previous )?(?:[Aa]tomic )?(?:[Ww]rite|[Rr]ead) of size \d+ at [^\n]*\n((?:    #\d+ [^\n]*\n)+)", blk, flags=re.M):
            site = None
            first = None
            for fr in re.finditer(r"#\d+ (.*?) (\S+):(\d+)(?::\d+)? \(", acc.group(1)):
                fn, path = fr.group(1), fr.group(2)
                if first is None:
                    first = "%s:%s" % (os.path.basename(path), fn)
                if path.startswith(repo.rstrip("/") + "/"):
                    rel = path[len(repo.rstrip("/")) + 1:]
                    fn = re.sub(r"\(.*$", "", fn).replace("bloc::", "").strip()
                    fn = re.sub(r"\s+const$", "", fn)
                    if site is None:
                        site = "%s:%s" % (rel, fn)
                        if site != WHAT_SITE:
                            break
                    else:
                        # Error::what(): who asked for the message (docatch, error(), the C API's error record …)
                        site += "<%s:%s" % (rel, fn)
                        break
            sites.append(site or ("?" + (first or "unknown")))
        lm = re.search(r"^  Location is ([^\n]*)", blk, flags=re.M)
        loc = lm.group(1) if lm else ""
        while len(sites) < 2:
            sites.append("?none")
        out.append((kind, sites[0], sites[1], loc, blk))
    return out


# ---------------------------------------------------------------------------------------------- program helpers
def whens_of(prog):
    """all `when` clause names of a program (any depth, function bodies included)"""
    names = []

    def walk(ss):
        for s in ss:
            k = s[0]
            if k == "if":
                for _, b in s[1]:
                    walk(b)
            elif k == "while":
                walk(s[2])
            elif k == "for":
                walk(s[6])
            elif k == "begin":
                walk(s[1])
                for n, b in s[2]:
                    names.append(n)
                    walk(b)
            elif k == "func":
                walk(s[4])
                for n, b in s[5]:
                    names.append(n)
                    walk(b)
    walk(prog)
    return names


def user_when(prog):
    return any(n.upper() not in BUILTIN_EXC for n in whens_of(prog))


def strip_user_whens(prog):
    """rename every user-named `when` clause to OTHERS: the program then never evaluates `clause == rt.what()`.
    (Was used to keep 90 % of the generated programs outside the region of finding C14.what_static_buffer; the finding is
    repaired and has no region any more, so the generators below no longer call it. Kept for replays / experiments.)"""
    def fix_whens(whens):
        # a clause is never dropped (its assignments register symbols that later code reads): a second OTHERS is legal
        return [((n if n.upper() in BUILTIN_EXC else "OTHERS"), fix(b)) for n, b in whens]

    def fix(ss):
        res = []
        for s in ss:
            k = s[0]
            if k == "if":
                res.append(("if", [(c, fix(b)) for c, b in s[1]]))
            elif k == "while":
                res.append(("while", s[1], fix(s[2])))
            elif k == "for":
                res.append(s[:6] + (fix(s[6]),))
            elif k == "begin":
                res.append(("begin", fix(s[1]), fix_whens(s[2])))
            elif k == "func":
                res.append(s[:4] + (fix(s[4]), fix_whens(s[5])))
            else:
                res.append(s)
        return res
    return fix(prog)


def fdef(name, params, rt, body, whens=()):
    return ("func", name, list(params), rt, list(body), list(whens))


def recursion_programs():
    fact = fdef("FACT", ["I7"], "i", [("if", [(("bin", "LE", ("var", "I7"), I(1)), [("return", I(1))])]),
                                      ("return", ("bin", "MUL", ("var", "I7"), ("fcall", "FACT", [("bin", "SUB", ("var", "I7"), I(1))])))])
    fib = fdef("FIB", ["I7"], "i", [("if", [(("bin", "LT", ("var", "I7"), I(2)), [("return", ("var", "I7"))])]),
                                    ("let", "A9", ("fcall", "FIB", [("bin", "SUB", ("var", "I7"), I(1))])),
                                    ("let", "B9", ("fcall", "FIB", [("bin", "SUB", ("var", "I7"), I(2))])),
                                    ("return", ("bin", "ADD", ("var", "A9"), ("var", "B9")))])
    deep = fdef("DEEP", ["I7"], "i", [("if", [(("bin", "LE", ("var", "I7"), I(1)), [("return", I(1))])]),
                                      ("return", ("bin", "ADD", I(1), ("fcall", "DEEP", [("bin", "SUB", ("var", "I7"), I(1))])))])
    progs = []
    progs.append([fact, fib, ("let", "I1", I(0)), ("for", "K1", I(1), I(12), None, "auto",
                                                    [("let", "I1", ("bin", "ADD", ("var", "I1"), ("fcall", "FACT", [("var", "K1")]))),
                                                     ("print", [S("fact"), ("var", "K1"), ("var", "I1")])]),
                  ("let", "I2", ("fcall", "FIB", [I(15)])), ("print", [S("fib"), ("var", "I2")]), ("return", ("var", "I2"))])
    for d, handled in ((255, True), (256, True), (256, False), (300, False), (100, False)):
        body = [("let", "I1", ("fcall", "DEEP", [I(d)])), ("print", [S("depth"), ("var", "I1")])]
        if handled:
            progs.append([deep, ("let", "I1", I(-1)), ("begin", body, [("OTHERS", [("print", [S("others")])])]), ("print", [S("after"), ("var", "I1")])])
        else:
            progs.append([deep, ("let", "I1", I(-1))] + body + [("print", [S("not reached when failing")])])
    # handled and unhandled errors inside called functions, built-in names only
    ferr = fdef("FE", ["I7"], "i", [("let", "Q9", ("bin", "DIV", I(100), ("var", "I7"))), ("return", ("var", "Q9"))],
                [("DIVIDE_BY_ZERO", [("print", [S("in fe: div")]), ("return", I(-1))])])
    fraw = fdef("FR", ["I7"], "i", [("return", ("bin", "DIV", I(100), ("var", "I7")))])
    progs.append([ferr, fraw, ("let", "I1", I(0)),
                  ("for", "K1", I(-2), I(2), None, "auto", [("let", "I1", ("bin", "ADD", ("var", "I1"), ("fcall", "FE", [("var", "K1")]))), ("print", [("var", "I1")])]),
                  ("begin", [("let", "I2", ("fcall", "FR", [I(0)]))], [("OTHERS", [("print", [S("caught fr")]), ("let", "I2", I(7))])]),
                  ("let", "I3", ("fcall", "FR", [("bin", "SUB", ("var", "I2"), I(7))])), ("print", [S("unreachable")])])
    return progs


# programs outside the Lean interpreter's statement language (tables, tuples, random, error()): threads are compared with
# the sequential C++ run only; under TSan they exercise _type_volatile, the RNG statics and Error::what() (whose buffer is
# per thread since 1cb0b5a: no report is expected from it, and one would be a violation)
EXTRA_SOURCES = {
    "tables": 't = tab(5, 1); for i in 0 to 4 loop t.put(i, i * i); end loop; s = 0; '
              'for i in 0 to 4 loop s = s + t.at(i); end loop; u = tab(2, tab(3, "x")); w = u.at(1).at(2) + str(s); '
              'print w; print t.count(); return s;\n',
    "tuples": 'p = tup(1, "a", 2.5); q = tab(3, p); q.put(1, tup(7, "b", 0.5)); n = 0; '
              'forall e in q loop n = n + e@1; end loop; print n q.at(1)@2; return n;\n',
    "random": 'n = 0; for i in 1 to 200 loop r = random(10); if r >= 0 and r <= 10 then n = n + 1; end if; end loop; print n; return n;\n',
    "errorfn": 'n = 0; for i in 1 to 50 loop begin raise boom; exception when boom then e = error; m = e@1; n = n + 1; end; end loop; print n; return n;\n',
    "errortbl": 'n = 0; for i in 1 to 50 loop begin x = 1 / (i - i); exception when divide_by_zero then n = n + 1; end; end loop; print n; return n;\n',
}


def what_stress_source(name, n):
    return ("n = 0;\nfor i in 1 to %d loop\n  begin\n    raise %s;\n  exception\n    when %s then n = n + 1;\n  end;\nend loop;\nprint n;\nreturn n;\n"
            % (n, name, name))


# ---------------------------------------------------------------------------------------------- overloaded functions
# BLOC identifies a function by (name, arity); compiled call nodes hold the INDEX of the declaration in the table of the
# compiling context (FunctorExpression::_id) and the index is looked up in the table of the context that RUNS the node.
# A clone must therefore have every declaration of the original at the same index (FunctorManager::reset). The programs
# below declare 2..4 arities of one or two names in a shuffled order, then 1..3 functions declared AFTER the overloaded
# ones (their indices shift when an overload is lost), every body multi-statement (a print, a local, calls of
# earlier-declared functions, a return), and a main part that calls every declaration.
def ipar(k):
    return "I%d" % (7 + k)


def over_sigs(r, dist):
    """signatures of one program in declaration order: overloads first (shuffled), then 1..3 later functions"""
    names = r.sample(["AREA", "VOL", "FX"], r.choice([1, 1, 2]))
    sigs = []
    for nm in names:
        ars = r.sample([0, 1, 2, 3], r.choice([2, 3, 3, 4]))
        key = ",".join(str(a) for a in sorted(ars))
        dist["arity_sets"][key] = dist["arity_sets"].get(key, 0) + 1
        sigs += [(nm, a) for a in ars]
    r.shuffle(sigs)
    if r.random() < 0.5:      # contiguous per name in half of the programs, interleaved otherwise
        sigs.sort(key=lambda x: names.index(x[0]))
    nlater = r.randint(1, 3)
    dist["declared_after_overloads"][str(nlater)] = dist["declared_after_overloads"].get(str(nlater), 0) + 1
    return sigs + [("G%d" % (j + 1), r.choice([0, 1, 1, 2])) for j in range(nlater)]


def over_bodies(r, sigs, table=()):
    """one multi-statement function per signature. A body calls only functions that are in the table BEFORE its own entry
    (the parser resolves a call when it reads it; no recursion through a redefinition). `table`: signatures the context
    has already, in table order (a signature of `sigs` that is in `table` is a REDEFINITION in place)."""
    out = []
    table = list(table)
    for (nm, ar) in sigs:
        if (nm, ar) in table:
            seen = table[:table.index((nm, ar))]
        else:
            seen = list(table)
            table.append((nm, ar))
        ps = [ipar(k) for k in range(ar)]
        e = I(r.randint(1, 9))
        for p_ in ps:
            e = ("bin", "ADD", e, ("bin", "MUL", ("var", p_), I(r.randint(2, 7))))
        body = [("print", [S("%s/%d" % (nm.lower(), ar))] + [("var", p_) for p_ in ps[:2]]), ("let", "Y9", e)]
        for _ in range(r.choice([0, 1, 1, 2])):
            if seen:
                cn, ca = r.choice(seen)
                args = [r.choice([I(r.randint(0, 5))] + [("var", p_) for p_ in ps]) for _ in range(ca)]
                body.append(("let", "Y9", ("bin", "ADD", ("var", "Y9"), ("fcall", cn, args))))
        if r.random() < 0.3:
            body.append(("if", [(("bin", "GT", ("var", "Y9"), I(r.randint(5, 60))), [("let", "Y9", ("bin", "SUB", ("var", "Y9"), I(r.randint(1, 4))))])]))
        body.append(("return", ("bin", "MOD", ("var", "Y9"), I(r.choice([97, 101, 1009])))))
        out.append(("func", nm, ps, "i", body, []))
    return out


def over_main(r, sigs, ret=True, extra_errors=False):
    """main part: calls every declared signature at least once, some in a loop; prints; optional return"""
    body = [("let", "I1", I(0))]
    order = list(sigs)
    r.shuffle(order)
    for (nm, ar) in order + [r.choice(sigs) for _ in range(r.randint(0, 2))]:
        args = [I(r.randint(0, 6)) if r.random() < 0.7 else ("var", "I1") for _ in range(ar)]
        body.append(("let", "I1", ("bin", "ADD", ("bin", "MOD", ("var", "I1"), I(1000)), ("fcall", nm, args))))
        if r.random() < 0.4:
            body.append(("print", [S("m"), ("var", "I1")]))
    nm, ar = r.choice(sigs)
    body.append(("for", "K1", I(1), I(r.randint(2, 4)), None, "auto",
                 [("let", "I2", ("fcall", nm, [("var", "K1")] * ar)), ("print", [("var", "K1"), ("var", "I2")])]))
    if extra_errors and r.random() < 0.5:
        body.append(("let", "I2", ("bin", "DIV", I(1), ("bin", "SUB", ("var", "I1"), ("var", "I1")))))
    if ret:
        body.append(("return", ("var", "I1")))
    return body


class Scenario:
    """one thrprobe script + the matching World operations"""

    def __init__(self, cid, family, script, model_ops, sources, progs=None, meta=None, sexps=None):
        self.sexps = sexps if sexps is not None else ([progen.program_sexp(p) for p in progs] if progs else None)
        self.cid = cid
        self.family = family
        self.script = script            # thrprobe rounds
        self.model_ops = model_ops      # list of driver op words, or None (no model)
        self.sources = sources          # BLOC source texts
        self.progs = progs              # ASTs (for the S-expressions), same order
        self.meta = meta or {}


class C14(Check):
    pid = "C14"
    proof_modules = ["BlocV.Proofs.C14"]
    harness = "thrprobe"
    level = "proof"
    fuel = 100000
    rule = ("scripts of compile/clone/run/purge/free on 2..8 clones of one original, run by harness/thrprobe.cpp (a) on "
            "std::threads released together per round and (b) strictly sequentially, and by the Lean `World.apply` under a "
            "random interleaving of statement steps; programs from vlib/progen.py (functions, recursion to the limit, "
            "handled and unhandled errors with user-named and built-in `when` clauses, printing into per-clone files) — same executable in every clone, different "
            "executables per clone, original running / purged / freed / interrupted meanwhile, clone of a clone, unrelated "
            "fresh context; per context the host result, the output and every variable must agree three ways and the "
            "original must be unchanged by its clones. Programs with tables/tuples/random()/error() are compared threads vs "
            "sequential C++ only. No exclusion for handler selection: since Error::what()'s buffer is thread_local (1cb0b5a) a "
            "thread that ends differently from the sequential run in a program with user-named `when` clauses is a violation "
            "(family stress-what: 4 threads x 3000/20000 handled user exceptions with distinct names). Thorough: same scripts "
            "under ThreadSanitizer, every report classified by its site pair; a pair on Error::what()'s buffer is a violation. "
            "r2: programs declaring OVERLOADED functions (2..4 arities 0..3 of one or two names, shuffled) and 1..3 functions after "
            "them, multi-statement bodies, run in 2..7 clones (star / taken concurrently / clone-of-clone chains) through the shared "
            "executable and from a program parsed afresh in each clone; redefinition (+ new overload) in the original or in the clone "
            "after cloning, then the old executable in the redefining context; histories with the original pending a top-level "
            "return / bloc_break / failed / ran before or while clones call functions, bloc_reset_stop, re-runs with and without reset, "
            "trusted+trace set before cloning, purge / free / purge+free of the original at every position after the first clone; a "
            "signature declared twice in one program; per context ALSO the function table (names, arities, ORDER, bodies, no cached "
            "call contexts in a never-run clone), trusted / trace / stop-pending flags are compared with the model "
            "(World.applyL; `linked=0` = the model does not predict an executable run in a context that does not continue its "
            "compile-time tables). Input distribution in coverage.input_distribution. "
            "distinct = (family, script, program texts).")
    trusted_base = Check.trusted_base + [
        "extract/shared.py (the listed cells are all the shared mutable cells of blocc/: regex listing of `mutable`, non-const `static`, non-const globals, plus the two heap cells shared by design; a declaration carrying `thread_local`/`__thread` is listed apart as per-thread state)",
        "harness/thrprobe.cpp (threads really overlap: spin barrier; no interleaving is forced, coverage of interleavings is statistical)",
        "ThreadSanitizer (thorough tier) for the absence of unlisted data races on the executed paths",
    ]
    assumptions = [
        "theorems are schedule-independence of the MODEL at statement granularity; C++ memory model, allocator, stdio locking are outside",
        "random() and module objects are shared by design and excluded from independence",
        "_level writes are benign only if every context enters its runs with an empty exec stack (SameBase 0)",
    ]

    def __init__(self, tier, seed):
        Check.__init__(self, tier, seed)
        have = {f["id"] for f in self.findings}
        self.findings = self.findings + [f for f in DEFAULT_FINDINGS if f["id"] not in have]
        self.race_sites = {}

    def finding(self, fid):
        return next((f for f in self.findings if f["id"] == fid), None)

    def known(self, fid, example, impl):
        """record a hit of a known finding; returns False when the id is not a *known* entry (then it is a violation)"""
        f = self.finding(fid)
        if f is None or f.get("status", "known") != "known":
            return False
        self.known_hits.setdefault(fid, {"what": f["what"][:260], "example": example[:160], "impl": impl[:160]})
        return True

    # ------------------------------------------------------------------ extraction
    def step_extract(self):
        Check.step_extract(self)
        sys.path.insert(0, os.path.join(VERIF, "extract"))
        import shared
        changed, errors, cells = shared.regenerate()
        if changed:
            log("generated tables changed:", changed)
            self.stats.setdefault("gen_changed", []).extend(changed)
        for e in errors:
            self.broken_ties.append("extractor: " + e)
        sh = [c for c in cells if not shared.is_thread_local(c)]
        tl = [c for c in cells if shared.is_thread_local(c)]
        self.stats["shared_cells"] = ["%s:%d %s [%s]" % (c[0], c[1], c[2], c[3]) for c in sh]
        self.stats["thread_local_cells"] = ["%s:%d %s [%s]" % (c[0], c[1], c[2], c[3]) for c in tl]
        log("shared mutable cells (%d):" % len(sh))
        for c in sh:
            log("   %s:%d: %s [%s]" % (c[0], c[1], c[2], c[3]))
        log("per-thread cells (%d, not shared):" % len(tl))
        for c in tl:
            log("   %s:%d: %s [%s]" % (c[0], c[1], c[2], c[3]))

    # ------------------------------------------------------------------ scenarios
    def model_schedule(self, runs, nsteps=40):
        """random interleaving of statement steps of the contexts in `runs`, then every run is driven to its end"""
        ops = [("t%d" % self.rng.choice(runs)) for _ in range(self.rng.randint(0, nsteps))]
        tail = ["r%d" % c for c in runs]
        self.rng.shuffle(tail)
        return ops + tail

    def scenarios(self):
        quick = self.tier == "quick"
        r = self.rng
        out = []
        n = [0]

        def add(family, script, model_ops, progs=None, sources=None, meta=None):
            n[0] += 1
            srcs = sources if sources is not None else [progen.program_src(p) for p in progs]
            out.append(Scenario("s%d" % n[0], family, script, model_ops, srcs, progs, meta))

        def gen_prog(clean, nst=None, funcs=True, errors=0.12):
            g = progen.Gen(r, nvars=2, funcs=funcs, errors=errors)
            p = g.program(nstmts=nst or r.randint(3, 7), depth=2)
            return p, g    # `clean` (rename user-named when clauses away) is history: no finding has that region any more

        def same(k, prog, orig_runs_first=False, orig_runs_too=False, concurrent_clone=False, family="same"):
            """one executable compiled in the original, run in k clones at once"""
            clones = list(range(1, k + 1))
            rounds = ["c0.0.0"]
            mops = ["c0.0"]
            if orig_runs_first:
                rounds.append("x0.0")
                mops += ["s0.0", "r0"]
            if concurrent_clone:
                rounds.append(",".join("k0.%d" % c for c in clones))
            else:
                rounds += ["k0.%d" % c for c in clones]
            mops += ["k0.%d" % c for c in clones]
            runs = clones + ([0] if orig_runs_too else [])
            rounds.append(",".join("x%d.0" % c for c in runs))
            mops += ["s%d.0" % c for c in runs] + self.model_schedule(runs)
            add(family, "/".join(rounds), mops, progs=[prog], meta={"k": k, "user_when": user_when(prog)})

        # ---- A: same executable in 2..8 clones
        na = 420 if quick else 3000
        for i in range(na):
            k = 2 + i % 7
            clean = (i % 10 != 0)
            p, _ = gen_prog(clean)
            same(k, p, orig_runs_first=(i % 3 == 0), orig_runs_too=(i % 4 == 1), concurrent_clone=(i % 6 == 2))
        for p in recursion_programs():
            for k in (2, 4, 8) if quick else (2, 3, 4, 6, 8):
                same(k, p, orig_runs_first=(k == 4), family="recursion")

        # ---- B: different executables per clone (compiled in the clone), original ran a base program before
        nb = 210 if quick else 1500
        for i in range(nb):
            k = 2 + i % 7
            g = progen.Gen(r, nvars=2, funcs=True, errors=0.1)
            p0 = g.program(nstmts=r.randint(1, 3), depth=1)
            scope = {"%s%d" % (t.upper(), j) for t in "idbs" for j in (1, 2)}
            progs = [p0]
            for c in range(1, k + 1):
                body = [g.stmt(2, set(scope), False, None) for _ in range(r.randint(2, 5))]
                progs.append(body)
            clones = list(range(1, k + 1))
            rounds = ["c0.0.0", "x0.0"] + ["k0.%d" % c for c in clones] + ["c%d.%d.%d" % (c, c, c) for c in clones]
            rounds.append(",".join("x%d.%d" % (c, c) for c in clones))
            mops = ["c0.0", "s0.0", "r0"] + ["k0.%d" % c for c in clones] + ["c%d.%d" % (c, c) for c in clones]
            mops += ["s%d.%d" % (c, c) for c in clones] + self.model_schedule(clones)
            add("different", "/".join(rounds), mops, progs=progs, meta={"k": k})

        # ---- C: orders of clone / run / purge / free
        nc = 40 if quick else 250
        for i in range(nc):
            p, _ = gen_prog(True, funcs=(i % 2 == 0))
            has_func = any(s[0] == "func" for s in p)
            # original purged while the clones run
            add("orders", "c0.0.0/x0.0/k0.1/k0.2/k0.3/x1.0,x2.0,x3.0,p0",
                ["c0.0", "s0.0", "r0", "k0.1", "k0.2", "k0.3", "s1.0", "s2.0", "s3.0", "t1", "t2", "p0"] + self.model_schedule([1, 2, 3]), progs=[p])
            # original freed while the clones run (the clones are freed after it: finding free_original_then_clone_uaf when a function exists)
            add("orders", "c0.0.0/x0.0/k0.1/k0.2/x1.0,x2.0,f0",
                ["c0.0", "s0.0", "r0", "k0.1", "k0.2", "s1.0", "s2.0", "t2", "f0"] + self.model_schedule([1, 2]), progs=[p],
                meta={"orig_freed_first": has_func})
            # purge, then free the original before anything runs; clone of a clone; the first clone freed while the second runs
            add("orders", "c0.0.0/k0.1/p0/f0/k1.2/x1.0,x2.0/f1/k2.3/x3.0,x2.0",
                ["c0.0", "k0.1", "p0", "f0", "k1.2", "s1.0", "s2.0"] + self.model_schedule([1, 2]) + ["f1", "k2.3", "s3.0", "s2.0"] + self.model_schedule([2, 3]),
                progs=[p], meta={"orig_freed_first": has_func, "reruns": True})
            # clones made while other clones run; a clone freed while others run
            add("orders", "c0.0.0/k0.1/k0.2/x1.0,x2.0,k0.3/x3.0,f1/x2.0,k0.4/x4.0,x0.0",
                ["c0.0", "k0.1", "k0.2", "s1.0", "s2.0", "t1", "k0.3"] + self.model_schedule([1, 2]) + ["s3.0", "f1", "r3", "s2.0", "k0.4", "r2", "s4.0", "s0.0"] + self.model_schedule([0, 4]),
                progs=[p], meta={"reruns": True})
            # an unrelated fresh context compiles and runs its own program next to the clones
            p2, _ = gen_prog(True)
            add("orders", "c0.0.0/k0.1/k0.2/n5/c5.1.1/x1.0,x2.0,x5.1",
                None, progs=[p, p2])
            # the original is interrupted (bloc_break) while clones run: they must not notice
            add("orders", "c0.0.0/k0.1/k0.2/x1.0,x2.0,b0",
                ["c0.0", "k0.1", "k0.2", "s1.0", "s2.0", "b0"] + self.model_schedule([1, 2]), progs=[p], meta={"orig_break": True})

        # ---- D: deterministic witnesses of the recorded defects (sequential scripts, run in both modes)
        pf = [fdef("F", ["I7"], "i", [("print", [S("in f"), ("var", "I7")]), ("let", "Y9", ("bin", "ADD", ("var", "I7"), I(1))),
                                      ("print", [S("after")]), ("return", ("bin", "MUL", ("var", "Y9"), I(2)))]),
              ("let", "I1", I(5)), ("print", [S("top"), ("var", "I1")]), ("let", "I2", ("fcall", "F", [("var", "I1")])), ("print", [S("b"), ("var", "I2")])]
        add("witness-print", "c0.0.0/k0.1/x1.0", ["c0.0", "k0.1", "s1.0", "r1"], progs=[pf], meta={"fixed": "C14.clone_function_runs_for_original"})
        pret = [("return", I(1))]
        add("witness-return", "c0.0.0/c0.1.1/k0.1/x0.1/x1.0", ["c0.0", "c0.1", "k0.1", "s0.1", "r0", "s1.0", "r1"], progs=[pf, pret],
            meta={"fixed": "C14.clone_function_runs_for_original"})
        add("witness-free-call", "c0.0.0/k0.1/f0/x1.0/l1", ["c0.0", "k0.1", "f0", "s1.0", "r1"], progs=[pf],
            meta={"fixed": "C14.clone_function_runs_for_original"})
        add("witness-free-order", "c0.0.0/k0.1/f0/f1", ["c0.0", "k0.1", "f0", "f1"], progs=[pf], meta={"orig_freed_first": True})
        add("witness-free-order-ok", "c0.0.0/k0.1/f1/f0", ["c0.0", "k0.1", "f1", "f0"], progs=[pf])

        # ---- E: stress witnesses of the races with script-/host-visible effect (threads only make a difference):
        # stress-errno = the open finding C14.error_record_process_wide; stress-what = regression witness of the repaired
        # C14.what_static_buffer (every thread must count all its handled exceptions, as the sequential run does)
        reps = 6 if quick else 30
        for i in range(reps):
            k = 8
            srcs = ["raise e%d;\n" % c for c in range(k + 1)]
            progs = [[("raise", "E%d" % c)] for c in range(k + 1)]
            rounds = ["c0.0.0"] + ["k0.%d" % c for c in range(1, k + 1)] + ["c%d.%d.%d" % (c, c, c) for c in range(1, k + 1)]
            rounds.append(",".join("x%d.%d" % (c, c) for c in range(1, k + 1)))
            mops = ["c0.0"] + ["k0.%d" % c for c in range(1, k + 1)] + ["c%d.%d" % (c, c) for c in range(1, k + 1)]
            mops += ["s%d.%d" % (c, c) for c in range(1, k + 1)] + self.model_schedule(list(range(1, k + 1)))
            add("stress-errno", "/".join(rounds), mops, progs=progs, sources=srcs, meta={"k": k})
        for i in range(3 if quick else 12):
            k = 4
            nloop = 3000 if quick else 20000
            names = ["x" * 3 + chr(97 + c) * (6 + 9 * c) for c in range(k + 1)]
            srcs = [what_stress_source(names[c], nloop) for c in range(k + 1)]
            rounds = ["c0.0.0"] + ["k0.%d" % c for c in range(1, k + 1)] + ["c%d.%d.%d" % (c, c, c) for c in range(1, k + 1)]
            rounds.append(",".join("x%d.%d" % (c, c) for c in range(1, k + 1)))
            add("stress-what", "/".join(rounds), None, sources=srcs, meta={"k": k, "fixed": "C14.what_static_buffer"})

        # ---- F: programs outside the model's statement language: threads vs sequential C++ only
        for name, src in EXTRA_SOURCES.items():
            for k in (2, 4, 8):
                rounds = ["c0.0.0"] + ["k0.%d" % c for c in range(1, k + 1)] + [",".join("x%d.0" % c for c in range(1, k + 1))]
                add("extra-" + name, "/".join(rounds), None, sources=[src],
                    meta={"k": k, "random": name == "random"})
        # ================================================================================================ r2 families
        # The harness rounds are written once; the model operations are DERIVED from them (`model_of_rounds`): compile /
        # clone / purge / free / break / reset / flags map one to one, the runs of one round become `s` + a random
        # interleaving of statement steps into which the other actions of the round are inserted at random positions.
        dist = {"arity_sets": {}, "declared_after_overloads": {}, "over_variant": {}, "redef": {}, "hist_pre": {}, "hist_shape": {},
                "hist_extra": {}, "hist_kill": {}, "hist_kill_position": {}, "reset_before_rerun": {}, "flags": {}}
        self.stats["distribution"] = dist

        def bump(key, val):
            dist[key][str(val)] = dist[key].get(str(val), 0) + 1

        def model_of_rounds(rounds):
            exe2prog = {}
            mops = []
            for acts in rounds:
                runs, others = [], []
                for a in acts:
                    k = a[0]
                    f = a[1:].split(".")
                    if k == "c":
                        exe2prog[f[2]] = f[1]
                        others.append("c%s.%s" % (f[0], f[1]))
                    elif k == "x":
                        runs.append((int(f[0]), int(exe2prog[f[1]])))
                    else:
                        others.append(a)
                ids = [c for c, _ in runs]
                mid = [("t%d" % r.choice(ids)) for _ in range(r.randint(0, 30))] if ids else []
                for o in others:
                    mid.insert(r.randint(0, len(mid)), o)
                tail = ["r%d" % c for c in ids]
                r.shuffle(tail)
                mops += ["s%d.%d" % (c, pid) for c, pid in runs] + mid + tail
            return mops

        def sanitize(rounds, table_ctx=None):
            """drop / re-parent what the history no longer allows after the original was purged or freed: nothing is done to a
            freed context; an executable compiled before a purge is not run in the purged context; a clone is taken from a
            context that still has the compiled table"""
            alive, purged = {0}, set()
            res = []
            for acts in rounds:
                na = []
                for a in acts:
                    k = a[0]
                    f = [int(x) for x in a[1:].split(".")]
                    c = f[0]
                    if k == "k":
                        src = c
                        if src not in alive or src in purged:
                            cands = sorted(x for x in alive if x not in purged and x != f[1])
                            if not cands:
                                continue
                            src = cands[0]
                        alive.add(f[1])
                        na.append("k%d.%d" % (src, f[1]))
                        continue
                    if c not in alive:
                        continue
                    if k == "x" and c in purged:
                        continue
                    if k == "f":
                        alive.discard(c)
                    if k == "p":
                        purged.add(c)
                    na.append(a)
                if na:
                    res.append(na)
            return res

        def addr(family, rounds, progs, meta=None):
            script = "/".join(",".join(acts) for acts in rounds)
            m = dict(meta or {})
            m["lastrun"] = True
            add(family, script, model_of_rounds(rounds), progs=progs, meta=m)

        # ---- G (task 3a): OVERLOADED functions + functions declared after them, called in clones through the shared
        # executable AND from a program parsed afresh in the clone; the clone's table (order, completeness) is compared too
        ng = 150 if quick else 900
        for i in range(ng):
            k = 2 + i % 6
            sigs = over_sigs(r, dist)
            p0 = over_bodies(r, sigs) + over_main(r, sigs, ret=(i % 2 == 0), extra_errors=True)
            new = []
            if r.random() < 0.6:
                used = {a for n_, a in sigs if n_ == sigs[0][0]}
                free = [a for a in (0, 1, 2, 3) if a not in used]
                new.append((sigs[0][0], r.choice(free)) if free and r.random() < 0.6 else ("H1", r.choice([0, 1, 2])))
            p1 = over_bodies(r, new, table=sigs) + over_main(r, sigs + new, ret=(i % 3 == 0))
            clones = list(range(1, k + 1))
            rounds = [["c0.0.0"]]
            if i % 3 == 0:
                rounds.append(["x0.0"])
            variant = ("star", "concurrent-clone", "chain")[i % 3]
            bump("over_variant", variant)
            if variant == "star":
                rounds += [["k0.%d" % c] for c in clones]
            elif variant == "concurrent-clone":
                rounds.append(["k0.%d" % c for c in clones])
            else:
                rounds += [["k%d.%d" % (c - 1, c)] for c in clones]
            if i % 3 == 0:
                rounds.append(["k0.15"])      # a clone of the original that RAN (cached call contexts there), never run itself
            rounds.append(["x%d.0" % c for c in clones] + (["x0.0"] if i % 4 == 1 else []))
            if i % 2 == 0:
                rounds += [["c%d.1.%d" % (c, c)] for c in clones]
            else:
                rounds.append(["c%d.1.%d" % (c, c) for c in clones])
            resets = [c for c in clones if r.random() < 0.6]
            bump("reset_before_rerun", "%d/%d" % (len(resets), k))
            if resets:
                rounds.append(["u%d" % c for c in resets])
            rounds.append(["x%d.%d" % (c, c) for c in clones])
            rounds.append(["u%d" % c for c in clones])
            rounds.append(["x%d.0" % c for c in clones])
            addr("over", rounds, [p0, p1], meta={"k": k})

        # ---- H (task 3d): a function is REDEFINED (and an overload added) in the original after the clone was taken — the
        # clone keeps the old one — and vice versa; the redefining context then runs the OLD shared executable (new bodies)
        nh = 60 if quick else 400
        for i in range(nh):
            sigs = over_sigs(r, dist)
            p0 = over_bodies(r, sigs) + over_main(r, sigs, ret=False)
            redef = sorted(r.sample(sigs, r.randint(1, min(3, len(sigs)))), key=sigs.index)
            new = [("H1", r.choice([0, 1, 2]))] if r.random() < 0.5 else []
            p2 = over_bodies(r, redef + new, table=sigs) + over_main(r, sigs + new, ret=False)
            who = (0, 1)[i % 2]
            bump("redef", "%s redefines %d, adds %d" % ("original" if who == 0 else "clone", len(redef), len(new)))
            rounds = [["c0.0.0"], ["k0.1"], ["k0.2"]] + ([["k1.3"]] if i % 4 >= 2 else [])
            others = [c for c in (0, 1, 2, 3) if c != who and (c != 3 or i % 4 >= 2)]
            rounds.append(["c%d.1.9" % who])
            rounds.append(["x%d.9" % who] + ["x%d.0" % c for c in others])
            rounds.append(["x%d.0" % who] + (["k%d.4" % others[0]] if i % 3 == 0 else []))
            if i % 3 == 0:
                rounds.append(["x4.0"])
            addr("redef", rounds, [p0, p2], meta={"who": who})

        # ---- J (task 3b, 3c): histories. The original has a pending top-level `return` / received bloc_break / failed / ran,
        # BEFORE the clones are taken or WHILE they call multi-statement functions; clone-of-clone chains; then the original
        # runs (returns at once while the condition is pending), is reset, runs again; the clones run again, some without a
        # reset. Purge / free / purge+free of the original is inserted in EVERY position after the first clone.
        pr = [("print", [S("pr")]), ("return", I(7)), ("print", [S("never")])]
        pe = [("let", "I1", I(3)), ("raise", "BOOM"), ("print", [S("never")])]
        nj = 14 if quick else 80
        for i in range(nj):
            sigs = over_sigs(r, dist)
            p0 = over_bodies(r, sigs) + over_main(r, sigs, ret=(i % 2 == 0))
            k = r.randint(2, 5)
            pre = ("idle", "returned", "errored", "broken", "ran")[i % 5]
            shape = ("star", "chain", "mixed")[(i // 5) % 3]
            # what happens to the original WHILE the clones call their functions: nothing, bloc_break, bloc_reset_stop, or it
            # executes a top-level `return` itself (program 1) on its own thread
            extra = r.choice(["none", "b0", "u0", "x0.1", "x0.1"])
            base = [["c0.0.0"], ["c0.1.1"], ["c0.2.2"]]
            base += {"idle": [], "returned": [["x0.1"]], "errored": [["x0.2"]], "broken": [["b0"]], "ran": [["x0.0"]]}[pre]
            first_clone = len(base)
            for c in range(1, k + 1):
                parent = 0 if shape == "star" else (c - 1 if shape == "chain" else r.randint(0, c - 1))
                base.append(["k%d.%d" % (parent, c)])
            clones = list(range(1, k + 1))
            base.append(["x%d.0" % c for c in clones] + ([extra] if extra != "none" else []))
            base += [["x0.0"], ["u0"], ["x0.0"]]
            resets = [c for c in clones if r.random() < 0.5]
            if resets:
                base.append(["u%d" % c for c in resets])
            base.append(["x%d.0" % c for c in clones])
            # flags: trusted is copied by clone, trace is not (a traced context prints every statement: the clone's output must not)
            if i % 2 == 1:
                base.insert(first_clone, ["g0.1", ] )
                base.insert(first_clone + 1, ["v0.1"])
                base.insert(first_clone + 2 + k, ["v0.0"])
                bump("flags", "trusted+trace set before cloning")
            else:
                bump("flags", "none")
            addr("hist", sanitize(base), [p0, pr, pe], meta={"k": k})
            bump("hist_pre", pre)
            bump("hist_shape", shape)
            bump("hist_extra", extra)
            fc = next(j for j, acts in enumerate(base) if acts[0][0] == "k")
            positions = list(range(fc + 1, len(base) + 1))
            if quick:
                positions = positions if i % 2 == 0 else r.sample(positions, min(4, len(positions)))
            for pos in positions:
                kill = (["p0"], ["f0"], ["p0"], ["f0"])[(pos + i) % 4]
                rounds = [list(a) for a in base]
                joined = pos < len(rounds) and all(a[0] in "x" and not a.startswith("x0") for a in rounds[pos]) and r.random() < 0.5
                if joined:
                    rounds[pos] = rounds[pos] + kill
                else:
                    rounds.insert(pos, kill)
                if kill == ["p0"] and r.random() < 0.5:
                    rounds.insert(pos + 1, ["f0"])
                    bump("hist_kill", "purge+free")
                else:
                    bump("hist_kill", {"p0": "purge", "f0": "free"}[kill[0]])
                bump("hist_kill_position", "%d of %d%s" % (pos - fc, len(base) - fc, " (while clones run)" if joined else ""))
                addr("hist-kill", sanitize(rounds), [p0, pr, pe], meta={"k": k, "orig_freed_first": True})

        # ---- R: one program declares the SAME signature twice with calls in between (the first body is in force until the
        # second declaration is EXECUTED — FUNCTIONStatement::doit — although the compiled table already holds the second):
        # original and clones through the shared executable, twice (the second run starts from the re-installed first body)
        for i in range(6 if quick else 30):
            ar = i % 3
            a, b = r.randint(1, 50), r.randint(51, 99)
            f1 = ("func", "FD", [ipar(j) for j in range(ar)], "i", [("print", [S("first")]), ("return", I(a))], [])
            f2 = ("func", "FD", [ipar(j) for j in range(ar)], "i", [("print", [S("second")]), ("return", I(b))], [])
            call = ("fcall", "FD", [I(1)] * ar)
            prog = [f1, ("let", "I1", call), ("print", [("var", "I1")]), f2, ("let", "I2", call), ("print", [("var", "I2")])]
            k = 2 + i % 3
            clones = list(range(1, k + 1))
            rounds = [["c0.0.0"]] + [["k0.%d" % c] for c in clones] + [["x%d.0" % c for c in clones] + ["x0.0"]] + [["x%d.0" % c for c in clones]]
            addr("redecl", rounds, [prog], meta={"k": k})

        # ---- K: an executable run in a context whose table does NOT continue the table it was compiled against (the original
        # and the clone each declared another function after the clone was taken: same index, different functions). The model
        # says `linked=0` and predicts nothing; recorded is what the code does (it calls the function AT THE INDEX).
        for i in range(2 if quick else 6):
            sigs = [("AREA", 0), ("AREA", 1)]
            p0 = over_bodies(r, sigs) + [("let", "I1", ("fcall", "AREA", [I(2)]))]
            pg = over_bodies(r, [("GO", 1)], table=sigs) + [("let", "I2", ("fcall", "GO", [I(3)])), ("print", [("var", "I2")])]
            ph = over_bodies(r, [("HC", 1)], table=sigs) + [("let", "I3", ("fcall", "HC", [I(3)]))]
            addr("unlinked", [["c0.0.0"], ["k0.1"], ["c0.1.1"], ["c1.2.2"], ["x1.1"]], [p0, pg, ph], meta={"unlinked": True})

        self.stats["scenarios"] = len(out)
        fam = {}
        for s in out:
            fam[s.family] = fam.get(s.family, 0) + 1
        self.stats["families"] = fam
        return out

    def write_evidence(self, extra=None):
        e = dict(extra or {})
        e["input_distribution"] = self.stats.get("distribution", {})
        e["families"] = self.stats.get("families", {})
        e["programs_satisfying_wfDecls"] = {"program 0 (fresh context) [satisfying, all]": self.stats.get("wf_program0", {}),
                                            "all programs, relative to an empty table": self.stats.get("wf_programs", {})}
        Check.write_evidence(self, e)

    # ------------------------------------------------------------------ running
    def case_timeout(self):
        return 30

    def harness_line(self, sc, mode, tag):
        return "%s.%s %s %s %s" % (sc.cid, tag, mode, sc.script, " ".join(hx(s) for s in sc.sources))

    def model_line(self, sc):
        return "%s world %d %s %s" % (sc.cid, self.fuel, ",".join(sc.model_ops), " ".join(hx(x) for x in sc.sexps))

    def step_correspondence(self):
        scs = self.scenarios()
        try:
            hbin = build.harness_build(self.harness, extra_src=("blocprobe.cpp",))
        except build.BuildError as e:
            self.broken_ties.append("build: %s: %s" % (e.what, e.output[-800:]))
            return
        reps = 3 if self.tier == "quick" else 5
        lines = []
        for sc in scs:
            lines.append(self.harness_line(sc, "seq", "q"))
            for j in range(reps):
                lines.append(self.harness_line(sc, "thr", "t%d" % j))
        t = time.time()
        # few workers: the threads of one case should really run in parallel on the 16 cores
        impl = run.run_harness(hbin, lines, timeout_s=self.case_timeout(), workers=3 if self.tier == "quick" else 4)
        self.stats["impl_s"] = round(time.time() - t, 1)
        t = time.time()
        model = run.run_driver([self.model_line(sc) for sc in scs if sc.model_ops is not None and sc.sexps is not None])
        self.stats["model_s"] = round(time.time() - t, 1)
        if "#driver-error" in model:
            self.broken_ties.append("driver: " + model["#driver-error"][-400:])
        for sc in scs:
            self.judge_scenario(sc, impl, model, reps)
        if self.tier == "thorough":
            self.step_tsan(scs)

    # ------------------------------------------------------------------ judging
    @staticmethod
    def parse_answer(ans):
        """thrprobe answer -> dict(parse={x: res}, runs={ctx: [fields]}, ctx={i: (outhex, dump)}, odd=[...])"""
        d = {"parse": {}, "runs": {}, "ctx": {}, "odd": [], "flags": {}}
        if ans is None:
            return None
        if ans.startswith("crash ") or ans.endswith("diverges") or "|" in ans:
            d["fatal"] = ans
            return d
        for tok in ans.split(" "):
            if not tok:
                continue
            m = re.match(r"^p(\d+)=(.*)$", tok)
            if m:
                d["parse"][int(m.group(1))] = m.group(2)
                continue
            m = re.match(r"^r(\d+)=([01]):(-?\d+):([0-9a-f]*):(.*)$", tok)
            if m:
                d["runs"].setdefault(int(m.group(1)), []).append((m.group(2), int(m.group(3)), m.group(4), m.group(5)))
                continue
            m = re.match(r"^C(\d+)=([0-9a-f]*)~(.*)$", tok)
            if m:
                raw = m.group(3).replace("+", " ")
                dump = parse_dump(raw)
                if dump is not None:
                    fm = re.search(r" fn=(\S*)$", raw)
                    # function table IN TABLE ORDER: (NAME, arity, has body, cached call contexts)
                    dump["fn"] = [(bytes.fromhex(e.split("/")[0]).decode("latin-1"), int(e.split("/")[1]), e.split("/")[2], int(e.split("/")[3]))
                                  for e in fm.group(1).split(",") if e] if fm else None
                d["ctx"][int(m.group(1))] = (m.group(2), dump)
                continue
            m = re.match(r"^F(\d+)=([01])([01])$", tok)
            if m:
                d["flags"][int(m.group(1))] = (m.group(2), m.group(3))
                continue
            d["odd"].append(tok)
        return d

    def violation(self, what, sc, impl, model=None, stderr=""):
        self.violations.append({"what": what, "case": sc.cid + " " + sc.family, "impl_ops": "thr %s" % sc.script, "impl": str(impl)[:600],
                                "model": (str(model)[:600] if model is not None else None), "spec": None, "kf": None,
                                "meta": {"family": sc.family, "script": sc.script, "sources": sc.sources, "model_ops": sc.model_ops, "sexps": sc.sexps, "scmeta": sc.meta,
                                         "src": "\n-- next source --\n".join(sc.sources)[:3000]},
                                "stderr_tail": stderr[-1500:] if stderr else ""})

    def judge_scenario(self, sc, impl, model, reps):
        self.evaluations += 1 + reps
        self.distinct.add((sc.family, sc.script, tuple(sc.sources)))
        seq_raw = impl.get(sc.cid + ".q")
        seq = self.parse_answer(seq_raw)
        thrs = [(impl.get("%s.t%d" % (sc.cid, j)), self.parse_answer(impl.get("%s.t%d" % (sc.cid, j))), impl.get("%s.t%d#stderr" % (sc.cid, j), "")) for j in range(reps)]
        fam = self.stats.setdefault("outcomes", {})

        def tally(k):
            fam[k] = fam.get(k, 0) + 1

        # ---- crashes
        for raw, d, err in [(seq_raw, seq, impl.get(sc.cid + ".q#stderr", ""))] + thrs:
            if d is None:
                return self.violation("harness lost the case", sc, raw)
            if "fatal" in d:
                if "use-after-free" in d["fatal"] and sc.meta.get("orig_freed_first") and "Context::~Context" in err and "Functor::~Functor" in err:
                    if self.known("C14.free_original_then_clone_uaf", "thr " + sc.script, d["fatal"]):
                        tally("known:free-order-uaf")
                        return
                return self.violation("the library crashed / hung / threw through the C API: %s" % d["fatal"][:80], sc, d["fatal"], stderr=err)
            if d["odd"]:
                return self.violation("harness could not perform an action: %s" % d["odd"], sc, raw)
            for x, res in d["parse"].items():
                if res != "ok":
                    return self.violation("a generated program was rejected by the parser (%s)" % res, sc, raw)
        # ---- threads vs sequential C++
        for raw, d, err in thrs:
            diffs = self.diff_runs(seq, d, ignore_random=sc.meta.get("random", False))
            if not diffs:
                continue
            only_errno = all(x[0] == "errno" for x in diffs)
            if only_errno:
                if self.known("C14.error_record_process_wide", "thr " + sc.script, diffs[0][1]):
                    tally("known:errno-of-another-thread")
                    continue
            # (no tolerance for programs with user-named `when` clauses any more: C14.what_static_buffer is repaired)
            return self.violation("threads differ from the sequential C++ run: " + "; ".join(x[1] for x in diffs[:3]), sc, raw, model=seq_raw, stderr=err)
        tally("threads=sequential")
        # ---- original untouched by its clones (when it did not run / was not purged itself after the clones were made)
        # (covered by the model comparison of context 0 below; for model-less scenarios by thr == seq)
        # ---- sequential C++ (hence threads) vs model
        if sc.model_ops is None or sc.sexps is None:
            return
        mraw = model.get(sc.cid)
        if not mraw or not mraw.startswith("model="):
            return self.violation("model gave no answer (%s)" % (mraw or "")[:80], sc, seq_raw, model=mraw)
        mm = re.match(r"^model=(\S*) err=(\S+) linked=([01]) wf=([01]*)$", mraw)
        if not mm:
            return self.violation("unreadable model answer", sc, seq_raw, model=mraw)
        mctx = mm.group(1).split("#")
        # the checkable hypothesis of BlocV.C14.world_run_eq_runProgram_wf, evaluated by the driver for every program relative to
        # an EMPTY table: program 0 (compiled in the fresh original) satisfies it in every family except `redecl` (one signature
        # declared twice on purpose); later programs are compiled into a table that has functions already (they call them / redefine
        # them), for those the flag is only counted (general form: BlocV.C14.reinstall_stable_of_wf)
        wfd = self.stats.setdefault("wf_programs", {}).setdefault(sc.family, [0, 0])
        wfd[0] += mm.group(4).count("1")
        wfd[1] += len(mm.group(4))
        wf0 = self.stats.setdefault("wf_program0", {}).setdefault(sc.family, [0, 0])
        wf0[0] += mm.group(4)[:1].count("1")
        wf0[1] += 1
        if mm.group(4)[:1] == "0" and sc.family != "redecl":
            return self.violation("the first program of a generated scenario is outside World.wfDecls (hypothesis of world_run_eq_runProgram_wf): %s" % mm.group(4), sc, seq_raw, model=mraw)
        if mm.group(4)[:1] == "1" and sc.family == "redecl":
            return self.violation("World.wfDecls accepts a program that declares a signature twice", sc, seq_raw, model=mraw)
        if mm.group(3) == "0":
            # an executable was run in a context whose function/symbol table does not continue the table it was compiled
            # against: the code calls whatever is AT THE INDEX; the by-name model predicts nothing (World.lean, `linked`)
            tally("model:unlinked-run" + ("" if sc.meta.get("unlinked") else " (NOT a deliberate one)"))
            if not sc.meta.get("unlinked"):
                return self.violation("a generated history runs an executable in a context it is not linked to (generator defect)", sc, seq_raw, model=mraw)
            return
        if sc.meta.get("unlinked"):
            return self.violation("the model calls a deliberately unlinked run linked", sc, seq_raw, model=mraw)
        if any(re.match(r"^[01]~(oof|hazard|unmodelled)", c) for c in mctx):
            tally("model:" + next(re.match(r"^[01]~(oof|hazard|unmodelled)", c).group(1) for c in mctx if re.match(r"^[01]~(oof|hazard|unmodelled)", c)))
            return
        for i, mc in enumerate(mctx):
            live = i in seq["ctx"]
            if mc == "-":
                if live:
                    return self.violation("context %d exists in the implementation, not in the model" % i, sc, seq_raw, model=mraw)
                continue
            if not live:
                return self.violation("context %d exists in the model, not in the implementation" % i, sc, seq_raw, model=mraw)
            running, res, mout, mvars, mflags, mfns = mc.split("~")
            out, dump = seq["ctx"][i]
            if out != mout:
                return self.violation("context %d printed %r, the model gives %r" % (i, bytes.fromhex(out).decode("latin-1")[:200], bytes.fromhex(mout).decode("latin-1")[:200]), sc, seq_raw, model=mraw)
            if dump is None:
                return self.violation("unreadable dump of context %d" % i, sc, seq_raw, model=mraw)
            names = set()
            if mvars:
                for ent in mvars.split(";"):
                    name, _, val = ent.partition(":")
                    names.add(name)
                    got = dump["syms"].get(name)
                    if got is None:
                        return self.violation("context %d: variable %s missing in the implementation" % (i, name), sc, seq_raw, model=mraw)
                    if got[2].replace("/l", "").replace("/t", "") != val:
                        return self.violation("context %d: variable %s = %s, the model gives %s" % (i, name, got[2], val), sc, seq_raw, model=mraw)
            extra = set(dump["syms"]) - names
            if extra:
                return self.violation("context %d has variables the model does not have: %s" % (i, sorted(extra)), sc, seq_raw, model=mraw)
            if dump["cd"] != 0 or dump["ed"] != 0 or dump["tmp"] != 0:
                return self.violation("context %d: residue after the run (control %d, exec %d, temporaries %d)" % (i, dump["cd"], dump["ed"], dump["tmp"]), sc, seq_raw, model=mraw)
            for name, (ty, flags, val) in dump["syms"].items():
                if not val.endswith("/l"):
                    return self.violation("context %d: variable %s lost the LVALUE flag (%s)" % (i, name, val), sc, seq_raw, model=mraw)
            # the function table: every declaration, in table order (a clone that lost an overload, or holds the entries in
            # another order, runs shared executables against shifted indices)
            if dump.get("fn") is None:
                return self.violation("context %d: no function table in the dump" % i, sc, seq_raw, model=mraw)
            ifn = ["%s/%d" % (n_, a_) for n_, a_, _, _ in dump["fn"]]
            mfn = [x for x in mfns.split(",") if x]
            if ifn != mfn:
                return self.violation("context %d: function table %s, the model gives %s" % (i, ifn, mfn), sc, seq_raw, model=mraw)
            if any(b_ != "1" for _, _, b_, _ in dump["fn"]):
                return self.violation("context %d: a declaration without body: %s" % (i, dump["fn"]), sc, seq_raw, model=mraw)
            # `reset` re-creates the entries WITHOUT the cache of call contexts: a context that never ran anything has none
            if res == "none" and not seq["runs"].get(i) and any(c_ != 0 for _, _, _, c_ in dump["fn"]):
                return self.violation("context %d never ran but holds cached call contexts: %s" % (i, dump["fn"]), sc, seq_raw, model=mraw)
            if res == "none" and not seq["runs"].get(i) and dump["fn"]:
                tally("never-run context with functions: no cached call context")
            # no symbol is left locked between runs (forall restores the flag also on errors)
            for name, (ty, flags, val) in dump["syms"].items():
                if "l1" in flags:
                    return self.violation("context %d: symbol %s left locked" % (i, name), sc, seq_raw, model=mraw)
            # flags: trusted (copied by clone), trace (not copied), stop condition (never inherited; 4 = return/break pending)
            fl = seq["flags"].get(i)
            if fl is None:
                return self.violation("context %d: no flags in the answer" % i, sc, seq_raw, model=mraw)
            iflags = fl[0] + fl[1] + ("1" if dump["cond"] & 4 else "0")
            if iflags != mflags:
                return self.violation("context %d: trusted/trace/stop-pending %s, the model gives %s" % (i, iflags, mflags), sc, seq_raw, model=mraw)
            if dump["cond"] & ~4:
                return self.violation("context %d: break/continue/parsing condition left set (%d)" % (i, dump["cond"]), sc, seq_raw, model=mraw)
            # result of the LAST run of the context (when it ran exactly once the harness has exactly one record; the r2
            # families keep one run per context and round, so the last record is the last run)
            recs = seq["runs"].get(i, [])
            if sc.meta.get("lastrun") and recs:
                recs = recs[-1:]
            if len(recs) == 1 and not sc.meta.get("reruns"):
                ok, no, msg, ret = recs[0]
                if res == "none":
                    return self.violation("context %d ran in the implementation but not in the model" % i, sc, seq_raw, model=mraw)
                iout = ("ok-" if ret == "-" else "ok " + ret) if ok == "1" else "rerr %d" % no
                mo = res.replace("+", " ")
                if mo.startswith("rerr "):
                    mo = " ".join(mo.split(" ")[:2])
                if not outcomes_agree(iout, mo):
                    return self.violation("context %d: result %s, the model gives %s" % (i, iout, mo), sc, seq_raw, model=mraw)
            elif not recs and res != "none":
                return self.violation("context %d ran in the model but not in the implementation" % i, sc, seq_raw, model=mraw)
        tally("sequential=model")
        if len(self.samples) < 8 and self.rng.random() < 0.02:
            self.samples.append({"family": sc.family, "script": sc.script, "source": sc.sources[0][:400], "threads": thrs[0][0][:300], "model": mraw[:300]})

    @staticmethod
    def diff_runs(a, b, ignore_random=False):
        """differences between two parsed answers: list of (kind, text); kind 'errno' = only errno/strerror of a failed run"""
        diffs = []
        if a["parse"] != b["parse"]:
            diffs.append(("parse", "parse results %s vs %s" % (a["parse"], b["parse"])))
        for c in sorted(set(a["runs"]) | set(b["runs"])):
            ra, rb = a["runs"].get(c, []), b["runs"].get(c, [])
            if len(ra) != len(rb):
                diffs.append(("runs", "context %d ran %d vs %d times" % (c, len(ra), len(rb))))
                continue
            # records are sorted as strings by the harness; compare the ok flag and the returned value exactly,
            # errno / message separately
            sa = sorted((x[0], x[3]) for x in ra)
            sb = sorted((x[0], x[3]) for x in rb)
            if sa != sb and not ignore_random:
                diffs.append(("result", "context %d: results %s (sequential) vs %s (threads)" % (c, sa, sb)))
            ea = sorted((x[1], x[2]) for x in ra)
            eb = sorted((x[1], x[2]) for x in rb)
            if ea != eb:
                diffs.append(("errno", "context %d: bloc_errno/strerror %s (sequential) vs %s (threads)" % (
                    c, [(n, bytes.fromhex(m).decode("latin-1")) for n, m in ea], [(n, bytes.fromhex(m).decode("latin-1", "replace")) for n, m in eb])))
        for c in sorted(set(a["ctx"]) | set(b["ctx"])):
            if (c in a["ctx"]) != (c in b["ctx"]):
                diffs.append(("ctx", "context %d alive in one run only" % c))
                continue
            (oa, da), (ob, db) = a["ctx"][c], b["ctx"][c]
            if a["flags"].get(c) != b["flags"].get(c):
                diffs.append(("flags", "context %d: trusted/trace %s (sequential) vs %s (threads)" % (c, a["flags"].get(c), b["flags"].get(c))))
            if da is not None and db is not None and ([x[:3] for x in da.get("fn") or []] != [x[:3] for x in db.get("fn") or []] or da["cond"] != db["cond"]):
                diffs.append(("fn", "context %d: function table / stop condition %s cond=%d (sequential) vs %s cond=%d (threads)" % (c, da.get("fn"), da["cond"], db.get("fn"), db["cond"])))
            if oa != ob:
                diffs.append(("out", "context %d printed %r (sequential) vs %r (threads)" % (c, bytes.fromhex(oa).decode("latin-1")[:120], bytes.fromhex(ob).decode("latin-1")[:120])))
            if da is None or db is None:
                diffs.append(("dump", "context %d: unreadable dump" % c))
            elif (da["syms"] != db["syms"] and not ignore_random) or (da["cd"], da["ed"], da["tmp"]) != (db["cd"], db["ed"], db["tmp"]):
                bad = [k for k in set(da["syms"]) | set(db["syms"]) if da["syms"].get(k) != db["syms"].get(k)]
                diffs.append(("vars", "context %d: variables differ: %s" % (c, ", ".join("%s=%s|%s" % (k, da["syms"].get(k, ("", "", "-"))[2], db["syms"].get(k, ("", "", "-"))[2]) for k in sorted(bad)[:4]))))
        return diffs

    # ------------------------------------------------------------------ ThreadSanitizer (thorough tier)
    def step_tsan(self, scs):
        try:
            hbin = build.harness_build(self.harness, variant="tsan", extra_src=("blocprobe.cpp",))
        except build.BuildError as e:
            self.broken_ties.append("build (tsan): %s: %s" % (e.what, e.output[-800:]))
            return
        # a sample of every family; the stress loops are shortened by TSan's own slowdown, keep them few
        pick = []
        seen = {}
        cap = {"same": 600, "different": 300, "orders": 300, "recursion": 35, "stress-errno": 10, "stress-what": 4}
        for sc in scs:
            c = seen.get(sc.family, 0)
            if c < cap.get(sc.family, 3):
                seen[sc.family] = c + 1
                pick.append(sc)
        tmp = tempfile.mkdtemp(prefix="c14tsan", dir="/var/tmp")
        try:
            t = time.time()
            lines = [self.harness_line(sc, "thr", "n") for sc in pick]
            res = run.run_harness(hbin, lines, timeout_s=120, workers=4,
                                  env_extra={"TSAN_OPTIONS": "halt_on_error=0 exitcode=0 report_signal_unsafe=0 history_size=4 log_path=%s/r" % tmp})
            self.stats["tsan_s"] = round(time.time() - t, 1)
            self.stats["tsan_cases"] = len(pick)
            self.evaluations += len(pick)
            for sc in pick:
                a = res.get(sc.cid + ".n", "")
                if a.startswith("crash ") and not (sc.meta.get("orig_freed_first")):
                    self.violation("crash under ThreadSanitizer: " + a[:80], sc, a, stderr=res.get(sc.cid + ".n#stderr", ""))
            text = ""
            for fn in sorted(os.listdir(tmp)):
                text += open(os.path.join(tmp, fn), errors="replace").read() + "\n"
        finally:
            shutil.rmtree(tmp, ignore_errors=True)
        reports = parse_tsan(text, build.REPO)
        self.stats["tsan_reports"] = len(reports)
        pairs = {}
        for kind, a, b, loc, blk in reports:
            key = (kind,) + tuple(sorted((a, b)))
            ent = pairs.setdefault(key, {"n": 0, "loc": loc, "blk": blk})
            ent["n"] += 1
        table = []
        for (kind, a, b), ent in sorted(pairs.items()):
            fid = classify_race(a, b, ent["loc"]) if kind.startswith("data race") else None
            table.append({"kind": kind, "sites": [a, b], "location": ent["loc"][:120], "count": ent["n"], "finding": fid})
            if fid and self.known(fid, "%s <-> %s" % (a, b), "ThreadSanitizer: %s (%d reports)" % (kind, ent["n"])):
                continue
            self.violations.append({"what": "ThreadSanitizer reports a %s between sites that are not a recorded finding: %s <-> %s" % (kind, a, b),
                                    "case": "tsan", "impl_ops": "", "impl": ent["blk"][:3000], "model": None, "spec": None, "kf": fid,
                                    "meta": {"sites": [a, b], "location": ent["loc"]}, "stderr_tail": ""})
        self.stats["tsan_pairs"] = table

    # ------------------------------------------------------------------ replay
    def replay(self, rep):
        """re-run the scripts of the recorded violations (threads and sequential), print both answers"""
        hbin = build.harness_build(self.harness, extra_src=("blocprobe.cpp",))
        rc = 0
        for k, v in enumerate(rep.get("violations", [])[:5]):
            meta = v.get("meta") or {}
            if "script" not in meta:
                print("violation %d: %s" % (k, v["what"]))
                rc = 1
                continue
            lines = ["v%d.q seq %s %s" % (k, meta["script"], " ".join(hx(s) for s in meta["sources"]))]
            lines += ["v%d.t%d thr %s %s" % (k, j, meta["script"], " ".join(hx(s) for s in meta["sources"])) for j in range(5)]
            res = run.run_harness(hbin, lines, timeout_s=30, workers=1)
            sc = Scenario("v%d" % k, meta.get("family", "?"), meta["script"], meta.get("model_ops"), meta["sources"], None, meta.get("scmeta") or {},
                          sexps=meta.get("sexps"))
            model = run.run_driver([self.model_line(sc)]) if sc.model_ops and sc.sexps else {}
            probe = type(self)(self.tier, self.seed)
            probe.judge_scenario(sc, res, model, 5)
            print("violation %d (%s): %s" % (k, v["what"][:120], "REPRODUCED: " + probe.violations[0]["what"][:200] if probe.violations else "not reproduced (sequential run, 5 threaded runs, model)"))
            if model:
                print("  model     : " + model.get(sc.cid, "?")[:400])
            print("  sequential: " + res.get("v%d.q" % k, "?")[:400])
            print("  threads   : " + res.get("v%d.t0" % k, "?")[:400])
            if probe.violations:
                rc = 1
        return rc
