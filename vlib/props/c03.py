"""C03 — integer and decimal arithmetic is total and follows the manual for all operands."""
import struct

from ..core import Case, Check
from ..run import hx

I64MIN, I64MAX = -2 ** 63, 2 ** 63 - 1
OPS = [("ADD", "+"), ("SUB", "-"), ("MUL", "*"), ("DIV", "/"), ("MOD", "%"), ("EXP", "**"),
       ("AND", "&"), ("IOR", "|"), ("XOR", "^"), ("POP", "<<"), ("PUS", ">>")]
FOPS = [("ADD", "+"), ("SUB", "-"), ("MUL", "*"), ("DIV", "/"), ("MOD", "%"), ("EXP", "**")]
CMP = [("EQ", "=="), ("NE", "!="), ("LT", "<"), ("LE", "<="), ("GT", ">"), ("GE", ">=")]


def int_lattice(ks):
    s = {0, 1, -1, 2, -2, 3, -3, 7, 10, -10, 100, I64MIN, I64MAX, I64MIN + 1, I64MAX - 1}
    for k in ks:
        for b in (2 ** k, -(2 ** k)):
            for d in (-1, 0, 1):
                v = b + d
                if I64MIN <= v <= I64MAX:
                    s.add(v)
    return sorted(s)


def dbits(x):
    return struct.unpack("<Q", struct.pack("<d", x))[0]


def double_lattice():
    s = set()
    for b in (0x0000000000000000, 0x8000000000000000, 0x0000000000000001, 0x000fffffffffffff, 0x0010000000000000,
              0x7fefffffffffffff, 0x7ff0000000000000, 0xfff0000000000000, 0x7ff8000000000000,
              0x43dfffffffffffff, 0x43e0000000000000, 0x43e0000000000001, 0xc3dfffffffffffff, 0xc3e0000000000000,
              0xc3e0000000000001, 0x433fffffffffffff, 0x4340000000000000, 0x4340000000000001, 0x4330000000000000,
              0x3fe0000000000000, 0x3ff8000000000000, 0xbff8000000000000, 0x3fefffffffffffff, 0xbfefffffffffffff,
              0x3ff0000000000000, 0xbff0000000000000, 0x4000000000000000, 0x4008000000000000, 0xc008000000000000,
              0x4024000000000000, 0x3fb999999999999a, 0x3fd3333333333333, 0x3fd3333333333334, 0x7fe0000000000000,
              0x41dfffffffc00000, 0x41e0000000000000, 0xc1e0000000000000, 0x40efffe000000000, 0x4059000000000000):
        s.add(b)
    return sorted(s)


def ival(v):
    return "I:%d" % v


def dval(b):
    return "D:%016x" % b


class C03(Check):
    pid = "C03"
    proof_modules = ["BlocV.Proofs.C03"]
    rule = ("operator × operand-pair cases: operands stored exactly (any bit pattern) into variables through the "
            "library, program `return a OP b;` run through Parser::parse + Executable::run under ASan+UBSan; the "
            "returned value (type, nullness, exact integer / IEEE bit pattern) or error code is compared with the Lean "
            "model and, for non-null integer pairs and int(decimal), with the Lean spec. Integer lattice: 0, ±1, ±2, "
            "±2^k, ±2^k±1, INT64_MIN/MAX (+neighbours); shift counts −130..130; exponents 0..70 and negatives; double "
            "lattice: ±0, subnormals, 2^53 and 2^63 neighbourhoods, ±inf, nan. A case is non-trivial/distinct by its "
            "(operator, operands, outcome) triple.")
    assumptions = ["IEEE-754 operations (+ − * / pow) of the C++ build and of Lean's Float are the platform's; compared bit-exactly, not proved",
                   "fmod is re-implemented exactly in the model"]

    def prog_case(self, cid, opname, optext, v1, v2):
        src = "return a %s b;" % optext
        impl = "new 0|set 0 %s %s|set 0 %s %s|prog 0 %s" % (hx("A"), v1, hx("B"), v2, hx(src))
        return Case(cid, "op %s %s %s" % (opname, v1, v2), impl)

    def gen_cases(self):
        quick = self.tier == "quick"
        ks = [1, 2, 7, 8, 31, 32, 33, 52, 53, 62, 63] if quick else list(range(1, 64))
        lat = int_lattice(ks)
        dl = double_lattice()
        cases = []
        n = 0

        def add(opname, optext, v1, v2):
            nonlocal n
            n += 1
            cases.append(self.prog_case("c%d" % n, opname, optext, v1, v2))

        # integer × integer, whole lattice², arithmetic and bitwise
        sub = lat if not quick else lat
        for opname, optext in OPS:
            if opname in ("POP", "PUS"):
                for a in lat:
                    for c in list(range(-130, 131)) + [I64MIN, I64MAX, 2 ** 32, -(2 ** 32), 2 ** 32 + 1]:
                        if quick and (a not in (0, 1, -1, 3, I64MIN, I64MAX, 2 ** 62 + 1, -(2 ** 31)) and c % 7):
                            continue
                        add(opname, optext, ival(a), ival(c))
            elif opname == "EXP":
                for a in lat:
                    for e in list(range(0, 71)) + [-1, -2, -3, -63, -64, 127, 128, 1000, I64MAX, I64MIN, 2 ** 32]:
                        if quick and (a not in (0, 1, -1, 2, -2, 3, -3, 7, 10, I64MIN, I64MAX) and e % 5):
                            continue
                        add(opname, optext, ival(a), ival(e))
            else:
                for a in sub:
                    for b in sub:
                        add(opname, optext, ival(a), ival(b))
        # random pairs
        nrand = 3000 if quick else 200000
        for _ in range(nrand):
            opname, optext = self.rng.choice(OPS)
            a = self.rand_int()
            b = self.rand_int() if opname not in ("POP", "PUS", "EXP") else self.rng.choice(
                [self.rng.randint(-130, 130), self.rng.randint(0, 70), self.rand_int()])
            add(opname, optext, ival(a), ival(b))
        # nulls: typed / untyped × every operator, and non-numeric operand classes
        specials = ["N:?0", "N:i0", "N:d0", "I:7", "I:0", "I:-1", "D:4008000000000000", "D:0000000000000000"]
        for opname, optext in OPS + CMP:
            for v1 in specials:
                for v2 in specials:
                    add(opname, optext, v1, v2)
        # decimals: double × double, int × double, double × int
        ismall = [0, 1, -1, 2, 3, -3, 10, 2 ** 53, 2 ** 53 + 1, I64MAX, I64MIN, 2 ** 62 + 1]
        for opname, optext in FOPS + CMP:
            for x in dl:
                for y in dl:
                    if quick and opname not in ("DIV", "MOD", "EQ", "LT") and (dl.index(x) + dl.index(y)) % 3:
                        continue
                    add(opname, optext, dval(x), dval(y))
                for i in ismall:
                    add(opname, optext, dval(x), ival(i))
                    add(opname, optext, ival(i), dval(x))
        # unary minus / bitwise not
        for a in lat:
            n += 1
            cases.append(Case("c%d" % n, "un NEG %s" % ival(a), "new 0|set 0 %s %s|prog 0 %s" % (hx("A"), ival(a), hx("return -a;"))))
            n += 1
            cases.append(Case("c%d" % n, "un NOT %s" % ival(a), "new 0|set 0 %s %s|prog 0 %s" % (hx("A"), ival(a), hx("return ~a;"))))
        for x in dl:
            n += 1
            cases.append(Case("c%d" % n, "un NEG %s" % dval(x), "new 0|set 0 %s %s|prog 0 %s" % (hx("A"), dval(x), hx("return -a;"))))
        # int(decimal): lattice + every exponent boundary + random bit patterns
        dd = set(dl)
        for e in range(0, 2048, 1 if not quick else 13):
            for m in (0, 1, 0xfffffffffffff, 0x8000000000000):
                dd.add((e << 52) | m)
                dd.add((1 << 63) | (e << 52) | m)
        for e in range(1070, 1095):
            for m in (0, 1, 0xfffffffffffff, 0x8000000000000, 0xffffffffffffe, 0x4000000000001):
                dd.add((e << 52) | m)
                dd.add((1 << 63) | (e << 52) | m)
        for _ in range(2000 if quick else 100000):
            dd.add(self.rng.getrandbits(64))
            dd.add((self.rng.choice([0, 1]) << 63) | (self.rng.randint(1000, 1100) << 52) | self.rng.getrandbits(52))
        for b in sorted(dd):
            n += 1
            cases.append(Case("c%d" % n, "intdec %s" % dval(b), "new 0|set 0 %s %s|prog 0 %s" % (hx("A"), dval(b), hx("return int(a);"))))
        self.stats["case_families"] = {"total": n}
        return cases

    def rand_int(self):
        r = self.rng.random()
        if r < 0.3:
            return self.rng.randint(I64MIN, I64MAX)
        if r < 0.6:
            k = self.rng.randint(0, 63)
            v = self.rng.choice([1, -1]) * (2 ** k) + self.rng.randint(-3, 3)
            return max(I64MIN, min(I64MAX, v))
        if r < 0.8:
            return self.rng.randint(-1000, 1000)
        return self.rng.choice([I64MIN, I64MAX, 0, 1, -1])

    def nontrivial(self, c, iout, m):
        return not iout.startswith("perr")
