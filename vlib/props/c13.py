"""C13 — a source text means the same whatever its line lengths or read fragmentation.

Correspondence: the `(code, text)` stream of `Parser::pop()` under a prescribed reader (harness op `tok`)
against `lexChunks` (Model: per-chunk scan, start condition carried over) and `lexWhole` (Spec: the rule list
applied to the entire text) computed by the Lean driver from the same line.

  impl == model   on EVERY case (any fragmentation, any bytes)                      else: broken tie / violation
  impl == spec    on every case outside the recorded regions (line-aligned chunks,
                  no NUL, no lone CR through the CR-dropping reader)                 else: VIOLATION
  impl != spec    inside a recorded region is the known finding of that region (printed once).
"""
import os
import re

from .. import build, run
from ..core import Case, Check, log
from ..run import hx

KF_UNALIGNED = "C13.unaligned_chunk_splits_token"
KF_NUL = "C13.nul_truncates_chunk"
KF_CR = "C13.reader_drops_lone_cr"

# The entries this check needs in known_findings.json. When the file does not (yet) list them, these texts are
# used, so that the finding is still reported through the base-class mechanism (see NOTES-C13.md).
DEFAULT_FINDINGS = [
    {"property": "C13", "id": KF_UNALIGNED, "status": "known", "site": "blocc/tokenizer.lex:tokenizer_buf",
     "witness": "text `a = 12345;` served as fragments of 2,3 bytes; any line longer than 1023 bytes",
     "what": "a token that straddles a reader-chunk boundary is split or reinterpreted (`a = 12345;` in fragments "
             "of 2,3 bytes scans as 1 | 234 | 5; `<=` as `<` `=`; `\\\"` as `\\` + end of string; a line longer than "
             "1023 bytes is cut at byte 1023): tokenizer_buf scans every reader result as a separate yy_scan_string "
             "buffer and only the start condition survives"},
    {"property": "C13", "id": KF_NUL, "status": "known", "site": "blocc/tokenizer.lex:tokenizer_buf",
     "witness": "text `a\\0b;\\nc;` : tokens a, c, ; (b ; and the newline are lost)",
     "what": "a NUL byte in the source silently drops the rest of that reader chunk (yy_scan_string stops at strlen)"},
    {"property": "C13", "id": KF_CR, "status": "known", "site": "blocc/string_reader.cpp:StringReader::read, apps/read_file.cpp:ReadFile::read",
     "witness": "text `a\\rb` scans as the single identifier ab; `\"a\\rb\"` yields the literal \"ab\"",
     "what": "the line readers drop every CR, also one that is not part of a CRLF line end: `a\\rb` becomes the "
             "identifier ab and a CR inside a string literal is lost"},
]

# named definitions of tokenizer.lex the Lean model was transcribed from (BlocV/Model/Lex.lean: isDigit, isLetter, re*)
EXPECTED_DEFS = {
    "DIGIT": "[0-9]", "LETTER": "[a-zA-Z_$]", "DOT": '"."', "BLANK": '" "',
    "KEYWORD": "{LETTER}+[0-9a-zA-Z_$]*", "INTEGER": "{DIGIT}+", "D1": "{DIGIT}+{DOT}{DIGIT}+", "D2": "{DOT}{DIGIT}+",
    "DOUBLE": "({D1}|{D2})", "FLOAT": "({DIGIT}+|{DOUBLE})([eE][+-]?){DIGIT}+", "HEXANUM": "[0][xX][0-9a-fA-F]+",
    "SP": "(u8|u|U|L)", "ES": "(\\\\(['\"\\?\\\\abfnrtv]|[0-7]{1,3}|x[a-fA-F0-9]+))", "WS": "[ \\t\\v\\f]", "SPACE": "{WS}*",
}

STATEMENTS = [
    'a = 12345;',
    'b = 0x1F + 0XaB - 0xdeadBEEF;',
    'c = 1.5 + .5 + 3.25e+10 - 1e5 + 2E-3 + 10.01E7;',
    'd = a <= b && c >= d || e != f or g <> h and not i;',
    'e := a << 2 >> 1 ** 3;',
    'i++; j--; k += 1;',
    's = "hello world";',
    's2 = "a""b\\"c\\\\d\\n\\t";',
    'u = u8"x" + L"y" + U"z" + u"w" + uu"v" + u8x"t";',
    'if a == b then print "eq"; elsif a<b then print "<"; else print ">"; end if;',
    'for i in 1 to 10 loop t.put(i, i*2); end loop;',
    'function f(x) return integer is begin return x%2; end;',
    'r = tab(3, tup(1, "a", 2.5))@1;',
    'name_with_$dollar = _under9 + $x + A1b2C3;',
    'x = a<b>c<=d>=e==f!=g<>h<<i>>j++k--l**m&&n||o:=p;',
    'x=1.2.3..4e5e6;',
    'y = 0x + 0xg + 0x1g + 1e + 1e+ + 1e+x + 1.e5 + .e5 + 1. + 08 + 0.;',
    'z = <<= >>= === !== <>= :== +++ --- *** &&& |||;',
    '@ ~ ` \\ ? ! % ^ & | : . , ; ( ) [ ] { } \' $',
    'w = "a" "b""" """" "\\\\" "\\\\\\"" ;',
    '\t\v\f  mixed  \t space \v\f;',
    'x = 1; /* block * / ** comment */ y = 2; /**/ z = 3; /* a */ /* b */',
    'q = "/* not a comment */" + "// neither" + "# nor this";',
]
LINE_ONLY = [
    '// line comment <= "not a string" /* not a block',
    '# directive line with "quote and /* stuff',
    '   \t#indented directive',
    'x = 1; # trailing hash is not a directive',
    ' \v #after vertical tab',
    'v = 1 // comment after code',
    '/* block\n comment\n#not directive\n// not comment\n" not string\n*/ t = 1;',
    's3 = "multi\nline\n#literal\n// still literal\n/* and so on */";',
    'h = \xe9\xfc\xff\x80\x01\x7f;',
]
TORTURE = [
    "12345", "<=", ">=", "==", "!=", "<>", ":=", "<<", ">>", "++", "--", "**", "&&", "||", "<<=", "/*x*/", "//x", "/ /", "/*/", "/**/",
    '"\\n"', '"a\\"b"', '"a""b"', '"\\\\"', '""', '"""', '""""', '"\\', '"\\\\\\""', 'u8"x"', 'u"x"', 'U"x"', 'L"x"', 'u8', 'u8 "x"',
    "1.5", "1.5e+3", "1.5e-3", "1e5", ".5", ".5e1", "1.", "1.e", "1e+", "0x1F", "0X1f", "0x", "00x1", "1.5.5", "1..5", "1e5e5",
    "abc", "a1", "_", "$", "a$b_c9", "9a", "a.b", "#x", " #x", "\t #x", "x #y", "x\n#y", "x\n #y", "x\n\v#y", "#", "##", "a\n", "\n", "\n\n",
    "/* a\n b */c", "/* a */ /* b */", "/* /* */ */", "*/", "/* * / */", '"a\nb"', '"/*"', '/*"*/', '//"\n"', '# "\n"', 'a = b;\n c = d ;\n',
    "x=\"a\n#b\";", "x=1;#c\n#d\n", "if x then\n  y=1; // c\nend if;\n", " ", "  \t", "\v", "a\rb", "a\r\nb", '"a\rb"', '"a\r\nb"', "\r", "\r\n", "a\r",
    "a\r\r\nb", "//c\r\nd", "/*c\r\n*/d", "#c\r\nd", "\xff", "\x80\x81", "a\xe9b", "\x01", "\x7f",
]
NUL_TEXTS = ["a\x00b;\nc;", "\x00", "a\x00", "\x00a", '"a\x00b";\n"c"', "/*\x00*/ x\n*/ y", "ab\x00cd\x00ef\ngh"]

SOUP = (["a", "b1", "if", "then", "end", "x_$", "u", "u8", "U", "L", "e", "E", "x", "X", "0", "1", "12", "345", "0x", "0x1f", "1.5", ".5",
         "1e5", "e+", "e-", "+", "-", "*", "/", "=", "<", ">", "!", ":", "&", "|", ".", ",", ";", "(", ")", "@", "#", "\"", "\"\"", "\\",
         "\\\"", "\\\\", "\\n", "/*", "*/", "//", " ", "  ", "\t", "\n", "\n", "\r\n", "\v", "\xe9", "'"])

FIXED_SIZES = [1, 2, 3, 5, 7, 16, 64, 1023, 1024, 2048]


def crlf(t):
    return t.replace("\n", "\r\n")


class C13(Check):
    pid = "C13"
    proof_modules = ["BlocV.Proofs.C13"]
    rule = ("texts = built-in BLOC statements exercising every token class (each alone, all one-per-line, all on one "
            "line longer than 1023 bytes), token-boundary torture texts, texts with CR / NUL / high bytes, seeded "
            "random token soups; each in LF and CRLF form. Readers = every single split position (k then 1023), "
            "random multi-splits, fixed fragment sizes 1,2,3,5,7,16,64,1023,1024,2048, the raw line discipline "
            "`lines:max` for several max, and the library's own StringReader (`sr`: drops CR, 1023). The harness "
            "returns the (code,text) stream of Parser::pop(); the Lean driver returns lexChunks (model) and "
            "lexWhole (spec) for the same line. impl = model required everywhere; impl = spec required whenever "
            "the fragmentation is line-aligned, NUL-free and (for `sr`) free of lone CR. distinct = (text, reader).")
    assumptions = [
        "flex semantics (longest match, first rule on ties, yy_at_bol, yy_scan_string) are as modelled in "
        "BlocV/Model/Lex.lean; tied to blocc/lex._tokenizer.c only by the correspondence",
        "the parser state is `Begin` (newline tokens are handed to the caller), as in the harness"]

    def __init__(self, tier, seed):
        super().__init__(tier, seed)
        have = {f["id"] for f in self.findings}
        for d in DEFAULT_FINDINGS:
            if d["id"] not in have:
                self.findings.append(dict(d))
                self.stats.setdefault("findings_not_in_known_findings_json", []).append(d["id"])

    # ------------------------------------------------------------ tie: the rule list of tokenizer.lex
    def check_rule_list(self):
        """The Lean model carries, for every rule, the pattern text it was transcribed from; compare with the
        rules section (and the named definitions) of /repo/blocc/tokenizer.lex as it is now."""
        p = os.path.join(build.REPO, "blocc", "tokenizer.lex")
        try:
            src = open(p, encoding="latin-1").read()
        except OSError as e:
            self.broken_ties.append("extractor: cannot read tokenizer.lex: %s" % e)
            return
        parts = re.split(r"^%%\s*$", src, flags=re.M)
        if len(parts) < 3:
            self.broken_ties.append("extractor: tokenizer.lex has no %% rules section")
            return
        defs = {}
        for ln in parts[0].split("\n"):
            m = re.match(r"^([A-Z][A-Z0-9]*)\s+(\S.*?)\s*$", ln)
            if m:
                defs[m.group(1)] = m.group(2)
        if defs != EXPECTED_DEFS:
            diff = sorted(set(defs.items()) ^ set(EXPECTED_DEFS.items()))
            self.broken_ties.append("extractor: named definitions of tokenizer.lex differ from those the Lean scanner was written against: %s" % diff[:6])
        rules = []
        for ln in parts[1].split("\n"):
            m = re.match(r"^(\S.*?)\s+\{", ln)
            if m and not ln.startswith(("/*", " ")):
                rules.append(m.group(1))
        for want in ("%x COMMENT", "%x LITERAL"):
            if want not in parts[0]:
                self.broken_ties.append("extractor: start condition declaration `%s` not found" % want)
        if not re.search(r"scanner->reader\(scanner->handle, str, &n, 1023\)", parts[2]) or "yy_scan_string(str" not in parts[2]:
            self.broken_ties.append("extractor: tokenizer_buf no longer reads 1023 bytes into yy_scan_string")
        ans = run.run_driver(["r lexrules"]).get("r", "")
        m = re.match(r"rules=(.*)$", ans)
        mine = [bytes.fromhex(h).decode("latin-1") for h in m.group(1).split(",")] if m else []
        if mine != rules:
            self.broken_ties.append("extractor: rule list of tokenizer.lex %r differs from the rule list of the Lean scanner %r" % (
                [r for r in rules if r not in mine][:5], [r for r in mine if r not in rules][:5]))
        self.stats["lex_rules"] = len(rules)

    def step_correspondence(self):
        self.check_rule_list()
        super().step_correspondence()

    # ------------------------------------------------------------ cases
    def texts(self):
        quick = self.tier == "quick"
        T = []  # (name, text)
        for i, s in enumerate(STATEMENTS):
            T.append(("stmt%d" % i, s))
        for i, s in enumerate(LINE_ONLY):
            T.append(("line%d" % i, s + "\n"))
        for i, s in enumerate(TORTURE):
            T.append(("tort%d" % i, s))
        per_line = "\n".join(STATEMENTS + LINE_ONLY) + "\n"
        T.append(("perline", per_line))
        one = " ".join(STATEMENTS)
        while len(one) <= 1100:
            one = one + " " + " ".join(STATEMENTS[: 1 + len(one) % 7])
        T.append(("oneline", one))
        T.append(("oneline_nl", one + "\n" + LINE_ONLY[0] + "\n" + one[:700] + "\n"))
        # a long identifier / number / string / comment straddling byte 1023
        for nm, tok, tail in (("longnum", "1" * 40, ";"), ("longid", "abc_" * 10, ";"), ("longstr", '"' + "s\\\"" * 12 + '"', ";"),
                              ("longcmt", "/*" + "c*" * 16 + "*/", ";"), ("longop", "<=" * 20, ";"), ("longflt", "1.5e+10", ";")):
            for pad in range(1023 - len(tok) - 4, 1024):
                # line lengths around the 1023-byte reader buffer always (in CRLF form the CR / LF then sit on the
                # buffer edge), the other positions of the token thinned out in the quick tier
                if quick and pad % 3 and not (1020 <= pad + len(tok) + len(tail) <= 1024):
                    continue
                T.append(("%s_%d" % (nm, pad), "x" * 3 + " " * (pad - 3) + tok + tail + "\n y = 2;\n"))
        nsoup = 1200 if quick else 8000
        for i in range(nsoup):
            k = self.rng.randint(2, 40)
            sep = self.rng.choice(["", "", " ", "\n"])
            T.append(("soup%d" % i, sep.join(self.rng.choice(SOUP) for _ in range(k))))
        # arbitrary bytes (every value 1..255; a few with NUL), short
        for i in range(150 if quick else 1500):
            k = self.rng.randint(1, 24)
            lo = 0 if i % 10 == 0 else 1
            T.append(("bytes%d" % i, "".join(chr(self.rng.choice([self.rng.randint(lo, 255), self.rng.choice(b'"\\/*#\n\r <=u8'), self.rng.randint(lo, 127)])) for _ in range(k))))
        for i, s in enumerate(NUL_TEXTS):
            T.append(("nul%d" % i, s))
        return T

    def readers_for(self, name, text):
        """reader specs for one text."""
        quick = self.tier == "quick"
        n = len(text)
        R = ["-", "sr", "rf", "lines:1023"]
        if n <= 1:
            return R
        short = n <= 80
        R += ["lines:%d" % m for m in ((4, 9) if short else (16, 200))]
        # every single split position
        if short or name in ("perline", "oneline") or n < (200 if quick else 500):
            step = 1
        else:
            step = 0
        if step:
            for k in range(1, n):
                R.append("%d,1023" % k)
        else:
            for _ in range(12):
                R.append("%d,1023" % self.rng.randint(1, n - 1))
        # line-aligned multi-splits with several lines per chunk: cut after a random subset of the newlines
        nls = [i + 1 for i, ch in enumerate(text) if ch == "\n" and i + 1 < n]
        if len(nls) >= 2:
            for _ in range(3 if quick else 8):
                cuts = sorted(self.rng.sample(nls, self.rng.randint(1, len(nls))))
                sizes = [b - a for a, b in zip([0] + cuts, cuts + [n])]
                if all(0 < z <= 1023 for z in sizes):
                    R.append(",".join(map(str, sizes)))
        # arbitrary multi-splits:
        for _ in range(4 if quick else 12):
            sizes = [self.rng.choice([1, 1, 2, 3, 4, 5, 8, 13, 40, 200, 1023]) for _ in range(self.rng.randint(2, 10))]
            R.append(",".join(map(str, sizes)))
        for sz in FIXED_SIZES:
            if n > 600 and sz < 3 and name not in ("perline", "oneline"):
                continue
            R.append(str(sz))
        return R

    def gen_cases(self):
        cases = []
        n = 0
        seen = set()
        for name, text in self.texts():
            variants = [("lf", text)]
            if "\n" in text and "\r" not in text:
                variants.append(("crlf", crlf(text)))
            for vn, t in variants:
                h = hx(t)
                readers = self.readers_for(name, t)
                if vn == "crlf" and len(t) > 80:
                    # the CRLF form of the long texts: the readers that matter (CR handling, alignment), not every split again
                    readers = [r for r in readers if not re.match(r"^\d+,1023$", r)] + [r for r in readers if re.match(r"^\d+,1023$", r)][::17]
                for r in readers:
                    if (h, r) in seen:
                        continue
                    seen.add((h, r))
                    n += 1
                    line = "tok %s %s" % (h, r)
                    # `rf` = apps/read_file.cpp on a FILE*: same discipline as StringReader, hence the same model reader
                    mline = "tok %s sr" % h if r == "rf" else line
                    cases.append(Case("c%d" % n, mline, line, {"text": name + "/" + vn, "reader": r, "len": len(t)}))
        self.stats["cases"] = n
        self.stats["texts"] = len({c.meta["text"] for c in cases})
        return cases

    # ------------------------------------------------------------ judge
    def judge(self, c, iraw, m, stderr):
        iout = iraw
        mout, spec, kf = m.get("model"), m.get("spec"), m.get("kf")
        fam = re.sub(r"\d+", "", c.meta["text"].split("/")[0]) + "/" + ("aligned" if not kf else kf.split(".")[1])
        d = self.stats.setdefault("families", {})
        d[fam] = d.get(fam, 0) + 1
        if mout is None or spec is None:
            return self.record_violation("model gave no answer", c, iout, m)
        if iout.startswith("crash") or iout.endswith("diverges") or not iout.startswith("toks="):
            return self.record_violation("scanner crashed / diverged / harness error", c, iout, m, stderr)
        self.distinct.add((c.model_line,))
        if len(self.samples) < 12 and self.rng.random() < 0.001:
            self.samples.append({"case": c.model_line[:160], "impl": iout[:200], "model": mout[:200], "spec": spec[:200], "kf": kf})
        if iout != mout:
            return self.record_violation("implementation differs from the model (per-chunk scanner)"
                                         + ("" if iout == spec else " and from the specification"), c, iout, m, stderr)
        if iout == spec:
            d = self.stats.setdefault("agree_spec", {})
            d[kf or "aligned"] = d.get(kf or "aligned", 0) + 1
            return
        if not kf:
            return self.record_violation("token stream of a line-aligned, NUL-free fragmentation differs from that of the whole text",
                                         c, iout, m, stderr)
        entry = next((f for f in self.findings if f["id"] == kf and f.get("status", "known") == "known"), None)
        if entry is None:
            return self.record_violation("defect region %s is not a listed known finding" % kf, c, iout, m, stderr)
        d = self.stats.setdefault("differ_from_spec", {})
        d[kf] = d.get(kf, 0) + 1
        cur = self.known_hits.get(kf)
        if cur is None or len(c.model_line) < len(cur["example"]):
            self.known_hits[kf] = {"what": entry["what"], "example": c.model_line, "impl": iout}
