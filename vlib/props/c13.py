"""C13 — a source text means the same whatever its line lengths or read fragmentation.

Correspondence: the `(code, text)` stream of `Parser::pop()` under a prescribed reader (harness op `tok`)
against `lexChunks` (Model: per-chunk scan, start condition carried over) and `lexWhole` (Spec: the rule list
applied to the entire text) computed by the Lean driver from the same line.

  impl == model   on EVERY case (any fragmentation, any bytes)                      else: broken tie / violation
  impl == spec    on every case outside the recorded regions (line-aligned chunks,
                  no NUL, no lone CR through the CR-dropping reader)                 else: VIOLATION
  impl != spec    inside a recorded region is the known finding of that region (printed once).
"""
import os
import re
import shutil
import subprocess
import tempfile
from concurrent.futures import ThreadPoolExecutor

from .. import build, run
from ..core import Case, Check, log
from ..run import hx

KF_UNALIGNED = "C13.unaligned_chunk_splits_token"
KF_NUL = "C13.nul_truncates_chunk"
KF_CR = "C13.reader_drops_lone_cr"
KF_ICR = "C13.interactive_reader_keeps_cr"

# The entries this check needs in known_findings.json. When the file does not (yet) list them, these texts are
# used, so that the finding is still reported through the base-class mechanism (see NOTES-C13.md).
DEFAULT_FINDINGS = [
    {"property": "C13", "id": "C13.interactive_reader_keeps_cr", "status": "known", "site": "apps/cli_parser.cpp:ReadInput::read (bloc_readstdin branch)",
     "witness": "printf 'print 1;\\r\\nprint 2;\\r\\n' | bloc -i  (libreadline not loadable)",
     "what": "the interactive reader bloc_readstdin keeps the CR of CRLF line ends: the byte 13 reaches the scanner as a token and every statement of a "
             "CRLF text is followed by `Unrecognized statement`, while the LF text runs clean"},
    {"property": "C13", "id": KF_UNALIGNED, "status": "known", "site": "blocc/tokenizer.lex:tokenizer_buf",
     "witness": "text `a = 12345;` served as fragments of 2,3 bytes; any line longer than 1023 bytes",
     "what": "a token that straddles a reader-chunk boundary is split or reinterpreted (`a = 12345;` in fragments "
             "of 2,3 bytes scans as 1 | 234 | 5; `<=` as `<` `=`; `\\\"` as `\\` + end of string; a line longer than "
             "1023 bytes is cut at byte 1023): tokenizer_buf scans every reader result as a separate yy_scan_string "
             "buffer and only the start condition survives"},
    {"property": "C13", "id": KF_NUL, "status": "known", "site": "blocc/tokenizer.lex:tokenizer_buf",
     "witness": "text `a\\0b;\\nc;` : tokens a, c, ; (b ; and the newline are lost)",
     "what": "a NUL byte in the source silently drops the rest of that reader chunk (yy_scan_string stops at strlen)"},
    {"property": "C13", "id": KF_CR, "status": "known", "site": "blocc/string_reader.cpp:StringReader::read, apps/read_file.cpp:ReadFile::read",
     "witness": "text `a\\rb` scans as the single identifier ab; `\"a\\rb\"` yields the literal \"ab\"",
     "what": "the line readers drop every CR, also one that is not part of a CRLF line end: `a\\rb` becomes the "
             "identifier ab and a CR inside a string literal is lost"},
]

# named definitions of tokenizer.lex the Lean model was transcribed from (BlocV/Model/Lex.lean: isDigit, isLetter, re*)
EXPECTED_DEFS = {
    "DIGIT": "[0-9]", "LETTER": "[a-zA-Z_$]", "DOT": '"."', "BLANK": '" "',
    "KEYWORD": "{LETTER}+[0-9a-zA-Z_$]*", "INTEGER": "{DIGIT}+", "D1": "{DIGIT}+{DOT}{DIGIT}+", "D2": "{DOT}{DIGIT}+",
    "DOUBLE": "({D1}|{D2})", "FLOAT": "({DIGIT}+|{DOUBLE})([eE][+-]?){DIGIT}+", "HEXANUM": "[0][xX][0-9a-fA-F]+",
    "SP": "(u8|u|U|L)", "ES": "(\\\\(['\"\\?\\\\abfnrtv]|[0-7]{1,3}|x[a-fA-F0-9]+))", "WS": "[ \\t\\v\\f]", "SPACE": "{WS}*",
}

STATEMENTS = [
    'a = 12345;',
    'b = 0x1F + 0XaB - 0xdeadBEEF;',
    'c = 1.5 + .5 + 3.25e+10 - 1e5 + 2E-3 + 10.01E7;',
    'd = a <= b && c >= d || e != f or g <> h and not i;',
    'e := a << 2 >> 1 ** 3;',
    'i++; j--; k += 1;',
    's = "hello world";',
    's2 = "a""b\\"c\\\\d\\n\\t";',
    'u = u8"x" + L"y" + U"z" + u"w" + uu"v" + u8x"t";',
    'if a == b then print "eq"; elsif a<b then print "<"; else print ">"; end if;',
    'for i in 1 to 10 loop t.put(i, i*2); end loop;',
    'function f(x) return integer is begin return x%2; end;',
    'r = tab(3, tup(1, "a", 2.5))@1;',
    'name_with_$dollar = _under9 + $x + A1b2C3;',
    'x = a<b>c<=d>=e==f!=g<>h<<i>>j++k--l**m&&n||o:=p;',
    'x=1.2.3..4e5e6;',
    'y = 0x + 0xg + 0x1g + 1e + 1e+ + 1e+x + 1.e5 + .e5 + 1. + 08 + 0.;',
    'z = <<= >>= === !== <>= :== +++ --- *** &&& |||;',
    '@ ~ ` \\ ? ! % ^ & | : . , ; ( ) [ ] { } \' $',
    'w = "a" "b""" """" "\\\\" "\\\\\\"" ;',
    '\t\v\f  mixed  \t space \v\f;',
    'x = 1; /* block * / ** comment */ y = 2; /**/ z = 3; /* a */ /* b */',
    'q = "/* not a comment */" + "// neither" + "# nor this";',
]
LINE_ONLY = [
    '// line comment <= "not a string" /* not a block',
    '# directive line with "quote and /* stuff',
    '   \t#indented directive',
    'x = 1; # trailing hash is not a directive',
    ' \v #after vertical tab',
    'v = 1 // comment after code',
    '/* block\n comment\n#not directive\n// not comment\n" not string\n*/ t = 1;',
    's3 = "multi\nline\n#literal\n// still literal\n/* and so on */";',
    'h = \xe9\xfc\xff\x80\x01\x7f;',
]
TORTURE = [
    "12345", "<=", ">=", "==", "!=", "<>", ":=", "<<", ">>", "++", "--", "**", "&&", "||", "<<=", "/*x*/", "//x", "/ /", "/*/", "/**/",
    '"\\n"', '"a\\"b"', '"a""b"', '"\\\\"', '""', '"""', '""""', '"\\', '"\\\\\\""', 'u8"x"', 'u"x"', 'U"x"', 'L"x"', 'u8', 'u8 "x"',
    "1.5", "1.5e+3", "1.5e-3", "1e5", ".5", ".5e1", "1.", "1.e", "1e+", "0x1F", "0X1f", "0x", "00x1", "1.5.5", "1..5", "1e5e5",
    "abc", "a1", "_", "$", "a$b_c9", "9a", "a.b", "#x", " #x", "\t #x", "x #y", "x\n#y", "x\n #y", "x\n\v#y", "#", "##", "a\n", "\n", "\n\n",
    "/* a\n b */c", "/* a */ /* b */", "/* /* */ */", "*/", "/* * / */", '"a\nb"', '"/*"', '/*"*/', '//"\n"', '# "\n"', 'a = b;\n c = d ;\n',
    "x=\"a\n#b\";", "x=1;#c\n#d\n", "if x then\n  y=1; // c\nend if;\n", " ", "  \t", "\v", "a\rb", "a\r\nb", '"a\rb"', '"a\r\nb"', "\r", "\r\n", "a\r",
    "a\r\r\nb", "//c\r\nd", "/*c\r\n*/d", "#c\r\nd", "\xff", "\x80\x81", "a\xe9b", "\x01", "\x7f",
    # C13R2: the classes of unsafe_split_witnesses not yet present above (every split position of each is generated)
    # C13R3: runs of EMPTY lines (chunks that are just "\n") inside literals, comments, between statements (each also as CRLF)
    '"a\n\nb"', '"a\n\n\nb"', '"a\n\n\n\nb"', '"\n\n"', '"\n\n\n"', 'x = "a\n\n\nb";\ny = "c\n\nd";', '"a\n \n\n\t\n\nb"', '/* a\n\n\nb */ c',
    '/*\n\n\n*/', 'a;\n\n\nb;', 'a;\n\n\n\n', '\n\n\na', '// c\n\n\n"s\n\n\nt"\n\n\n# d\n\n\nx', 'u8"\n\n\n"',
    "1e+5", "x; #y", "end", "x;\t #y", "a = 1e+5 ;", "0x1F+1.5", "/*x*/y", "u8\"x\";",
]
NUL_TEXTS = ["a\x00b;\nc;", "\x00", "a\x00", "\x00a", '"a\x00b";\n"c"', "/*\x00*/ x\n*/ y", "ab\x00cd\x00ef\ngh"]

SOUP = (["a", "b1", "if", "then", "end", "x_$", "u", "u8", "U", "L", "e", "E", "x", "X", "0", "1", "12", "345", "0x", "0x1f", "1.5", ".5",
         "1e5", "e+", "e-", "+", "-", "*", "/", "=", "<", ">", "!", ":", "&", "|", ".", ",", ";", "(", ")", "@", "#", "\"", "\"\"", "\\",
         "\\\"", "\\\\", "\\n", "/*", "*/", "//", " ", "  ", "\t", "\n", "\n", "\r\n", "\v", "\xe9", "'"])

FIXED_SIZES = [1, 2, 3, 5, 7, 16, 64, 1023, 1024, 2048]


def crlf(t):
    return t.replace("\n", "\r\n")


# ------------------------------------------------------------------ C13R2: every reader, through its real path
BUF = 1023          # what tokenizer_buf asks of every reader


def filler(n, salt=0):
    """n bytes of non-periodic printable text (decimal counters): losing or doubling ONE byte anywhere changes it."""
    out, i = [], 1000 + salt
    while sum(map(len, out)) < n:
        out.append("%d." % i)
        i += 7
    return "".join(out)[:n]


def edge_programs(quick):
    """Valid BLOC programs whose long lines put a token on every multiple of 1023 bytes -> [(name, A, B, expect)].
    A = the text under test; B = the same tokens on short lines (the whole-text Spec for program BEHAVIOUR: the
    property says layout does not matter), None when a token itself is longer than the buffer; expect = the output
    computed here (only for plain literals)."""
    P = []
    END = 'print "END";\n'

    def at(k, off, tok, head="print", tail=";"):
        """one line in which `tok` starts `off` bytes before byte k*BUF of the line"""
        pad = k * BUF - off - len(head)
        return head + " " * pad + tok + tail

    NUM = "123456789012"
    for k in (1, 2):
        for off in range(0, len(NUM) + 2):
            if quick and k == 2 and off % 3:
                continue
            P.append(("num_k%d_o%d" % (k, off), at(k, off, NUM, head="n =") + "\nprint n;\n" + END, "n = %s;\nprint n;\n" % NUM + END, None))
    IDN = "v_abcdefgh9"
    for k in (1, 2):
        for off in range(0, len(IDN) + 2):
            if quick and (off % 2 if k == 1 else off % 4):
                continue
            P.append(("id_k%d_o%d" % (k, off), IDN + " = 7;\n" + at(k, off, IDN) + "\n" + END, IDN + " = 7;\nprint " + IDN + ";\n" + END, None))
    # plain literal lines of every length around k*1023 (1020..1026, 2045..2049, 3068..3071): LF, CRLF, no final newline
    for L in list(range(1020, 1027)) + list(range(2045, 2050)) + list(range(3068, 3072)):
        body = filler(L - len('print "";'), L)
        line = 'print "%s";' % body
        for en, end in (("lf", "\n"), ("crlf", "\r\n"), ("none", "")):
            if end:
                P.append(("lit_%d_%s" % (L, en), line + end + END.replace("\n", end), None, body + "\nEND\n"))
            else:
                P.append(("lit_%d_none" % L, 'print "BEG";\n' + line, None, "BEG\n" + body + "\n"))
    # a literal with an escape / doubled quote / backslash pair on the boundary
    for k in (1, 2):
        for esc in ('\\"', '""', "\\\\"):
            lit = '"ab' + esc + 'cd"'
            for off in (2, 3, 4, 5):
                if quick and k == 2 and off in (2, 5):
                    continue
                P.append(("esc%d_k%d_o%d" % (ord(esc[0]) + ord(esc[1]), k, off), at(k, off, lit) + "\n" + END, "print " + lit + ";\n" + END, None))
    # two-byte operators
    for k in (1, 2):
        for op, ex in (("<=", "1<=2"), ("**", "2**5"), ("==", "3==3"), ("<>", "1<>2"), ("||", "true||false")):
            for off in (1, 2, 3):
                if quick and k == 2 and off != 2:
                    continue
                P.append(("op%d_k%d_o%d" % (ord(op[0]) * 256 + ord(op[1]), k, off), at(k, off, ex) + "\n" + END, "print " + ex + ";\n" + END, None))
    # comment delimiters and a `//` comment longer than the buffer
    for k in (1, 2):
        for off in (0, 1, 2, 3):
            P.append(("cmtend_k%d_o%d" % (k, off), "/*" + "c" * (k * BUF - off - 2) + "*/ print 5;\n" + END, "/* c */ print 5;\n" + END, None))
            P.append(("cmtbeg_k%d_o%d" % (k, off), at(k, off, "/* c */ 6") + "\n" + END, "print /* c */ 6;\n" + END, None))
        for extra in (-1, 0, 1, 5):
            P.append(("slash_k%d_%d" % (k, extra), "print 7; //" + "z" * (k * BUF + extra - 11) + "\n" + END, "print 7; // z\n" + END, None))
    # a multi-line literal whose first line holds exactly 1021..1024 bytes before its line end
    for n in (1021, 1022, 1023, 1024, 2046):
        body = filler(n - len('print "'), n)
        for en, end in (("lf", "\n"), ("crlf", "\r\n")):
            P.append(("mlit_%d_%s" % (n, en), 'print "' + body + end + 'second";' + end + END.replace("\n", end), None, body + "\nsecond\nEND\n"))
    # `#` exactly at a chunk start (no token is cut there)
    for k in (1, 2):
        P.append(("hash_k%d" % k, "print 8;" + " " * (k * BUF - 8) + "# not a directive\n" + END, None, None))
        P.append(("hashsp_k%d" % k, "print 8;" + " " * (k * BUF - 10) + "  # not a directive\n" + END, None, None))
    # C13R3: runs of empty lines inside a literal / a comment / between statements (chunks that are just "\n")
    for k in (1, 2, 3, 5):
        for en, end in (("lf", "\n"), ("crlf", "\r\n")):
            P.append(("emptyl_lit%d_%s" % (k, en), 'print "a' + end * (k + 1) + 'b";' + end + END.replace("\n", end), None, "a" + "\n" * (k + 1) + "b\nEND\n"))
            P.append(("emptyl_cmt%d_%s" % (k, en), "/* a" + end * (k + 1) + "b */ print 4;" + end * (k + 1) + END.replace("\n", end), "print 4;\n" + END, "4\nEND\n"))
    # C13R3: lines that FIT the 1023 bytes of the recorded finding and are dense with tokens: whatever smaller size the scanner's
    # buffer is given, a number sits on its edge in one of the two phases
    for ph in (0, 3):
        nums = [1000001 + 7 * i for i in range(118)]
        P.append(("dense_ph%d" % ph, "n = " + " " * ph + "+".join(map(str, nums)) + ";\nprint n;\n" + END, None, "%d\nEND\n" % sum(nums)))
        idn = ["v%05d" % i for i in range(3)]
        P.append(("denseid_ph%d" % ph, "".join("%s = %d;\n" % (v, i + 1) for i, v in enumerate(idn)) + "print " + " " * ph
                  + "+".join(idn[i % 3] for i in range(140)) + ";\n" + END, None, "%d\nEND\n" % sum((i % 3) + 1 for i in range(140))))
    # degenerate files
    for nm, t in (("empty", ""), ("nl", "\n"), ("crs", "\r\r\r"), ("crlf_only", "\r\n\r\n"), ("nofinal", 'print "x"'), ("nofinal2", 'print "x";'),
                  ("short_crlf", 'print "a";\r\nprint "b";\r\n'), ("blank1023", " " * BUF + "\nprint 9;\n"), ("blank1022crlf", " " * 1022 + "\r\nprint 9;\r\n"),
                  ("line1023x3", ('print "%s";\n' % filler(BUF - 10, 3)) * 3)):
        P.append(("deg_" + nm, t, None, None))
    return P


def func_body(src, name_re):
    """text of the body `{ … }` of the first function whose header matches name_re, blanks squeezed"""
    m = re.search(name_re, src)
    if not m:
        return None
    i = src.find("{", m.end())
    if i < 0:
        return None
    depth, j = 0, i
    while j < len(src):
        if src[j] == "{":
            depth += 1
        elif src[j] == "}":
            depth -= 1
            if depth == 0:
                break
        j += 1
    return re.sub(r"\s+", " ", src[i:j + 1]).strip()


class C13(Check):
    pid = "C13"
    proof_modules = ["BlocV.Proofs.C13"]
    rule = ("texts = built-in BLOC statements exercising every token class (each alone, all one-per-line, all on one "
            "line longer than 1023 bytes), token-boundary torture texts, texts with CR / NUL / high bytes, seeded "
            "random token soups; each in LF and CRLF form. Readers = every single split position (k then 1023), "
            "random multi-splits, fixed fragment sizes 1,2,3,5,7,16,64,1023,1024,2048, the raw line discipline "
            "`lines:max` for several max, and the library's own StringReader (`sr`: drops CR, 1023). The harness "
            "returns the (code,text) stream of Parser::pop(); the Lean driver returns lexChunks (model) and "
            "lexWhole (spec) for the same line. impl = model required everywhere; impl = spec required whenever "
            "the fragmentation is line-aligned, NUL-free and (for `sr`) free of lone CR. distinct = (text, reader).")
    assumptions = [
        "flex semantics (longest match, first rule on ties, yy_at_bol, yy_scan_string) are as modelled in "
        "BlocV/Model/Lex.lean; tied to blocc/lex._tokenizer.c only by the correspondence",
        "the parser state is `Begin` (newline tokens are handed to the caller), as in the harness"]

    def __init__(self, tier, seed):
        super().__init__(tier, seed)
        have = {f["id"] for f in self.findings}
        for d in DEFAULT_FINDINGS:
            if d["id"] not in have:
                self.findings.append(dict(d))
                self.stats.setdefault("findings_not_in_known_findings_json", []).append(d["id"])

    # ------------------------------------------------------------ tie: the rule list of tokenizer.lex
    def check_rule_list(self):
        """The Lean model carries, for every rule, the pattern text it was transcribed from; compare with the
        rules section (and the named definitions) of /repo/blocc/tokenizer.lex as it is now."""
        p = os.path.join(build.REPO, "blocc", "tokenizer.lex")
        try:
            src = open(p, encoding="latin-1").read()
        except OSError as e:
            self.broken_ties.append("extractor: cannot read tokenizer.lex: %s" % e)
            return
        parts = re.split(r"^%%\s*$", src, flags=re.M)
        if len(parts) < 3:
            self.broken_ties.append("extractor: tokenizer.lex has no %% rules section")
            return
        defs = {}
        for ln in parts[0].split("\n"):
            m = re.match(r"^([A-Z][A-Z0-9]*)\s+(\S.*?)\s*$", ln)
            if m:
                defs[m.group(1)] = m.group(2)
        if defs != EXPECTED_DEFS:
            diff = sorted(set(defs.items()) ^ set(EXPECTED_DEFS.items()))
            self.broken_ties.append("extractor: named definitions of tokenizer.lex differ from those the Lean scanner was written against: %s" % diff[:6])
        rules = []
        for ln in parts[1].split("\n"):
            m = re.match(r"^(\S.*?)\s+\{", ln)
            if m and not ln.startswith(("/*", " ")):
                rules.append(m.group(1))
        for want in ("%x COMMENT", "%x LITERAL"):
            if want not in parts[0]:
                self.broken_ties.append("extractor: start condition declaration `%s` not found" % want)
        self.check_tokenizer_buf(src)
        ans = run.run_driver(["r lexrules"]).get("r", "")
        m = re.match(r"rules=(.*)$", ans)
        mine = [bytes.fromhex(h).decode("latin-1") for h in m.group(1).split(",")] if m else []
        if mine != rules:
            self.broken_ties.append("extractor: rule list of tokenizer.lex %r differs from the rule list of the Lean scanner %r" % (
                [r for r in rules if r not in mine][:5], [r for r in mine if r not in rules][:5]))
        self.stats["lex_rules"] = len(rules)
        self.check_reader_sources()

    def check_tokenizer_buf(self, lex_src):
        """C13R3: `tokenizer_buf` (one reader call = one yy_scan_string buffer, `lexChunksFrom` of the model) in blocc/tokenizer.lex
        AND in the pre-generated blocc/lex._tokenizer.c — the file that is COMPILED. Both must be the text the model was
        transcribed from, with the same buffer size N, the reader asked for N-1 bytes, and N = Gen.LEX_BUFFER of the Lean model
        (extract/gen.py reads tokenizer.lex only). A size other than 1024 is not a broken tie by itself (the model follows the
        generated constant; the region of the recorded finding stays at 1023 bytes, so the families decide)."""
        try:
            c_src = open(os.path.join(build.REPO, "blocc", "lex._tokenizer.c"), encoding="latin-1").read()
        except OSError as e:
            self.broken_ties.append("extractor: cannot read blocc/lex._tokenizer.c: %s" % e)
            return
        ans = run.run_driver(["r lexbuf"]).get("r", "")
        mm = re.match(r"lexbuf=(\d+) chunk=(\d+) recorded=(\d+)$", ans)
        if not mm:
            self.broken_ties.append("driver: no answer to lexbuf: %r" % ans[:100])
            return
        gen_n = int(mm.group(1))
        sizes = {}
        for site, text in (("blocc/tokenizer.lex", lex_src), ("blocc/lex._tokenizer.c", c_src)):
            body = func_body(text, r"YY_BUFFER_STATE\s+tokenizer_buf\s*\(TOKEN_SCANNER scanner\)")
            m = re.match(r"^\{ char str\[(\d+)\]; /\* check the reader exists \*/ if \(scanner->reader != 0\) \{ int n = 0; "
                         r"scanner->reader\(scanner->handle, str, &n, (\d+|sizeof\(str\) - 1)\); if \(n > 0\) \{ str\[n\] = '\\0'; "
                         r"return yy_scan_string\(str, scanner->scanner\); \} \} return 0; \}$", body or "")
            if not m:
                self.broken_ties.append("extractor: %s:tokenizer_buf is no longer the text the chunked scanner of the model (one reader call = one "
                                        "yy_scan_string buffer, nothing skipped) was transcribed from: %r" % (site, (body or "")[:400]))
                continue
            n = int(m.group(1))
            asked = n - 1 if m.group(2).startswith("sizeof") else int(m.group(2))
            sizes[site] = (n, asked)
            if asked != n - 1:
                self.broken_ties.append("extractor: %s:tokenizer_buf asks the reader for %d bytes with a buffer of %d" % (site, asked, n))
            if n != gen_n:
                self.broken_ties.append("extractor: %s:tokenizer_buf has a buffer of %d bytes, the Lean model was generated with LEX_BUFFER = %d"
                                        % (site, n, gen_n))
        if len(set(sizes.values())) > 1:
            self.broken_ties.append("extractor: blocc/tokenizer.lex and the compiled blocc/lex._tokenizer.c disagree on tokenizer_buf's buffer: %r" % sizes)
        self.stats["lex_buffer"] = {"generated": gen_n, "sources": {k: v[0] for k, v in sizes.items()}, "recorded_finding": int(mm.group(3))}

    def check_reader_sources(self):
        """C13R2: the reader functions the Lean transcriptions (Model/LexReaders.lean: srCall, rfCall, incCall, stdinCall) were
        written against. The include reader is a private COPY of apps/read_file.cpp: the two bodies must be the same text."""
        def rd(*parts):
            try:
                return open(os.path.join(build.REPO, *parts), encoding="latin-1").read()
            except OSError:
                return ""
        want_rf = ("{ int read = 0; while (read < max_size) { if (::fread(&buf[read], sizeof(char), 1, _file) == 1) { // discard cr to fix source "
                   "formated msdos if (buf[read] == '\\r') continue; if (buf[read++] != '\\n') continue; } break; } return read; }")
        want_sr = ("{ int c = 0; std::string::iterator p = _text.begin() + _pos; while (p != _text.end() && c < max_size) { ++_pos; // discard cr to "
                   "fix source formated msdos if (*p != '\\r') buf[c++] = *p; if (*p == '\\n') break; ++p; } return c; }")
        got = {
            "apps/read_file.cpp:ReadFile::read": (func_body(rd("apps", "read_file.cpp"), r"int\s+ReadFile::read\s*\("), want_rf),
            "blocc/statement_include.cpp:ReadFile::read": (func_body(rd("blocc", "statement_include.cpp"), r"int\s+read\s*\(\s*bloc::Parser"), want_rf),
            "blocc/string_reader.cpp:StringReader::read": (func_body(rd("blocc", "string_reader.cpp"), r"int\s+StringReader::read\s*\("), want_sr),
        }
        for site, (have, want) in got.items():
            if have != want:
                self.broken_ties.append("extractor: %s is no longer the text the Lean reader was transcribed from: %r" % (site, (have or "")[:300]))
        body = func_body(rd("blocc", "readstdin.c"), r"int\s+bloc_readstdin\s*\(") or ""
        if "while (len < maxlen && (chr = getchar()) != EOF) { buf[len++] = (char) chr; if (chr == '\\n') break; }" not in body:
            self.broken_ties.append("extractor: blocc/readstdin.c:bloc_readstdin is no longer the loop the Lean stdinCall was transcribed from")

    # ------------------------------------------------------------ cases
    def texts(self):
        quick = self.tier == "quick"
        T = []  # (name, text)
        for i, s in enumerate(STATEMENTS):
            T.append(("stmt%d" % i, s))
        for i, s in enumerate(LINE_ONLY):
            T.append(("line%d" % i, s + "\n"))
        for i, s in enumerate(TORTURE):
            T.append(("tort%d" % i, s))
        per_line = "\n".join(STATEMENTS + LINE_ONLY) + "\n"
        T.append(("perline", per_line))
        one = " ".join(STATEMENTS)
        while len(one) <= 1100:
            one = one + " " + " ".join(STATEMENTS[: 1 + len(one) % 7])
        T.append(("oneline", one))
        T.append(("oneline_nl", one + "\n" + LINE_ONLY[0] + "\n" + one[:700] + "\n"))
        # a long identifier / number / string / comment straddling byte 1023
        for nm, tok, tail in (("longnum", "1" * 40, ";"), ("longid", "abc_" * 10, ";"), ("longstr", '"' + "s\\\"" * 12 + '"', ";"),
                              ("longcmt", "/*" + "c*" * 16 + "*/", ";"), ("longop", "<=" * 20, ";"), ("longflt", "1.5e+10", ";")):
            for pad in range(1023 - len(tok) - 4, 1024):
                # line lengths around the 1023-byte reader buffer always (in CRLF form the CR / LF then sit on the
                # buffer edge), the other positions of the token thinned out in the quick tier
                if quick and pad % 3 and not (1020 <= pad + len(tok) + len(tail) <= 1024):
                    continue
                T.append(("%s_%d" % (nm, pad), "x" * 3 + " " * (pad - 3) + tok + tail + "\n y = 2;\n"))
        nsoup = 1200 if quick else 8000
        for i in range(nsoup):
            k = self.rng.randint(2, 40)
            sep = self.rng.choice(["", "", " ", "\n"])
            T.append(("soup%d" % i, sep.join(self.rng.choice(SOUP) for _ in range(k))))
        # arbitrary bytes (every value 1..255; a few with NUL), short
        for i in range(150 if quick else 1500):
            k = self.rng.randint(1, 24)
            lo = 0 if i % 10 == 0 else 1
            T.append(("bytes%d" % i, "".join(chr(self.rng.choice([self.rng.randint(lo, 255), self.rng.choice(b'"\\/*#\n\r <=u8'), self.rng.randint(lo, 127)])) for _ in range(k))))
        for i, s in enumerate(NUL_TEXTS):
            T.append(("nul%d" % i, s))
        # C13R2: the long-line programs of the path families, at token level too (readers: -, sr, rf, lines:1023)
        for nm, a, _b, _e in edge_programs(quick):
            T.append(("edge_" + nm, a))
        return T

    def readers_for(self, name, text):
        """reader specs for one text."""
        quick = self.tier == "quick"
        n = len(text)
        R = ["-", "sr", "rf", "lines:1023"]
        if n <= 1 or name.startswith("edge_"):
            return R
        short = n <= 80
        R += ["lines:%d" % m for m in ((4, 9) if short else (16, 200))]
        # every single split position
        if short or name in ("perline", "oneline") or n < (200 if quick else 500):
            step = 1
        else:
            step = 0
        if step:
            for k in range(1, n):
                R.append("%d,1023" % k)
        else:
            for _ in range(12):
                R.append("%d,1023" % self.rng.randint(1, n - 1))
        # line-aligned multi-splits with several lines per chunk: cut after a random subset of the newlines
        nls = [i + 1 for i, ch in enumerate(text) if ch == "\n" and i + 1 < n]
        if len(nls) >= 2:
            for _ in range(3 if quick else 8):
                cuts = sorted(self.rng.sample(nls, self.rng.randint(1, len(nls))))
                sizes = [b - a for a, b in zip([0] + cuts, cuts + [n])]
                if all(0 < z <= 1023 for z in sizes):
                    R.append(",".join(map(str, sizes)))
        # arbitrary multi-splits:
        for _ in range(4 if quick else 12):
            sizes = [self.rng.choice([1, 1, 2, 3, 4, 5, 8, 13, 40, 200, 1023]) for _ in range(self.rng.randint(2, 10))]
            R.append(",".join(map(str, sizes)))
        for sz in FIXED_SIZES:
            if n > 600 and sz < 3 and name not in ("perline", "oneline"):
                continue
            R.append(str(sz))
        return R

    def gen_cases(self):
        cases = []
        n = 0
        seen = set()
        for name, text in self.texts():
            variants = [("lf", text)]
            if "\n" in text and "\r" not in text:
                variants.append(("crlf", crlf(text)))
            for vn, t in variants:
                h = hx(t)
                readers = self.readers_for(name, t)
                if vn == "crlf" and len(t) > 80:
                    # the CRLF form of the long texts: the readers that matter (CR handling, alignment), not every split again
                    readers = [r for r in readers if not re.match(r"^\d+,1023$", r)] + [r for r in readers if re.match(r"^\d+,1023$", r)][::17]
                for r in readers:
                    if (h, r) in seen:
                        continue
                    seen.add((h, r))
                    n += 1
                    line = "tok %s %s" % (h, r)
                    # `rf` = apps/read_file.cpp on a FILE*: same discipline as StringReader, hence the same model reader
                    mline = "tok %s sr" % h if r == "rf" else line
                    cases.append(Case("c%d" % n, mline, line, {"text": name + "/" + vn, "reader": r, "len": len(t)}))
        cases += self.reader_cases()
        cases += self.path_cases()
        cases += self.intercr_cases()
        self.stats["cases"] = len(cases)
        self.stats["texts"] = len({c.meta["text"] for c in cases})
        return cases

    # ------------------------------------------------------------ C13R2: chunk level (every read() call)
    def reader_cases(self):
        """`rdc`: the chunk returned by EVERY call of StringReader::read / apps ReadFile::read (library) against the call-by-call
        Lean transcriptions `stringReader` / `fileReader`; the transcriptions of the include reader, of bloc_readstdin and of the
        readline line server are evaluated on the same files against the Spec predicate `Delivers` (they have no callable
        C++ entry: they are tied through their real paths, see path_cases)."""
        rng = self.rng
        files = []
        for mx in (1, 2, 3, 4, 7, 16, BUF):
            for ln in (0, 1, mx - 1, mx, mx + 1, 2 * mx - 1, 2 * mx, 2 * mx + 1, 3 * mx):
                if ln < 0:
                    continue
                line = "".join(chr(97 + (i % 26)) for i in range(ln))
                for tail in ("", "\n", "\r\n", "\r", "\nX", "\r\nX\r", "\n\n"):
                    files.append((mx, line + tail))
                if ln >= 2:
                    files.append((mx, line[:ln - 1] + "\r" + line[ln - 1:] + "\n"))     # CR right before the boundary byte
                    files.append((mx, line[:1] + "\r\r" + line[1:]))
        for _ in range(150 if self.tier == "quick" else 2000):
            mx = rng.choice([1, 2, 3, 5, 8, BUF])
            n = rng.choice([0, 1, 2, 5, 9, 17, 40, 300, 2500]) if mx != BUF else rng.choice([1022, 1023, 1024, 2046, 2047, 3000, 5000])
            alphabet = rng.choice(["ab\n\r", "abcdefgh\n", "a\r", "\n\r", "ab\n\r\x00\xff", "abcdefghijklmnopqrstuvwxyz" * 4 + "\n\r"])
            files.append((mx, "".join(rng.choice(alphabet) for _ in range(n))))
        cases = []
        seen = set()
        for mx, t in files:
            for rd in ("sr", "rf", "inc", "stdin", "rl"):
                if (mx, t, rd) in seen:
                    continue
                seen.add((mx, t, rd))
                line = "rdc %s %d %s" % (rd, mx, hx(t))
                # the three transcriptions of CR-dropping byte loops are compared with BOTH library readers that can be called
                impl = "rdc %s %d %s" % ("rf" if rd == "inc" else rd, mx, hx(t)) if rd in ("sr", "rf", "inc") else "rdc sr 1 "
                cases.append(Case("r%d" % len(cases), line.rstrip(), impl.rstrip(), {"kind": "rdc", "text": "reader_" + rd, "reader": rd, "max": mx, "len": len(t)}))
        self.stats["reader_cases"] = len(cases)
        return cases

    # ------------------------------------------------------------ C13R2: every path by which source text reaches the scanner
    PATH_OPS = 27

    def path_cases(self):
        quick = self.tier == "quick"
        progs = edge_programs(quick)
        self.tmpdir = tempfile.mkdtemp(prefix="blocv-c13-", dir="/var/tmp")
        # phase 1: what the MODEL readers make of each text (chunk sizes at 1023 + concatenation + finding region)
        q = []
        for i, (nm, a, b, e) in enumerate(progs):
            for rd in ("inc", "sr", "rf", "stdin", "rl"):
                q.append("p%d_%s rdp %s %s" % (i, rd, rd, hx(a)))
        ans = run.run_driver([ln.rstrip() for ln in q])
        if "#driver-error" in ans:
            self.broken_ties.append("driver: " + ans["#driver-error"][-400:])
        cases = []
        self.cli_jobs = []
        for i, (nm, a, b, e) in enumerate(progs):
            got = {rd: ans.get("p%d_%s" % (i, rd), "") for rd in ("inc", "sr", "rf", "stdin", "rl")}
            m = re.match(r"^model=([0-9,]+|-)/([0-9a-f]*)( kf=\S+)?$", got["inc"])
            if not m:
                self.broken_ties.append("driver: no usable answer to rdp inc for %s: %r" % (nm, got["inc"][:200]))
                continue
            if got["sr"] != got["inc"] or got["rf"] != got["inc"]:
                self.broken_ties.append("model: stringReader / fileReader / includeReader disagree on %s (contradicts *_eq_lineReader)" % nm)
            sizes, flat = m.group(1), m.group(2)
            # interactive: texts without CR / TAB whose last line is terminated (readline and bloc_readstdin then serve the same chunks)
            inter = "\r" not in a and "\t" not in a and a.endswith("\n") and got["stdin"] == got["rl"] and got["stdin"].startswith("model=")
            mi = re.match(r"^model=([0-9,]+|-)/([0-9a-f]*)", got["stdin"]) if inter else None
            cid = "q%d" % i
            path = os.path.join(self.tmpdir, "%s.bloc" % cid)
            ops = ["new 0 t", "mkfile %s %s" % (hx(path), hx(a)), "parse 0 0 %s" % hx('include "%s";' % path), "run 0", "out 0",
                   "new 1 t", "parsef 1 1 %s %s" % (flat, sizes), "run 1", "out 1",
                   "new 2 t", "parsef 2 2 %s sr" % hx(b if b is not None else "print 0;"), "run 2", "out 2",
                   "new 3", "capi 3 %s" % hx(a), "out 3",
                   "new 4 t", "parsef 4 4 %s sr" % hx(a), "run 4", "out 4",
                   "new 5 t", "parsef 5 5 %s rf" % hx(a), "run 5", "out 5",
                   "new 6 t", ("stepf 6 %s %s" % (mi.group(2), mi.group(1))) if mi else "stepf 6 %s sr" % hx("print 0;"), "out 6"]
            assert len(ops) == self.PATH_OPS
            c = Case(cid, "rdp inc %s" % hx(a), "|".join(ops), {"kind": "path", "text": "path_" + re.sub(r"[_\d]+.*$", "", nm), "name": nm, "reader": "paths",
                                                                "len": len(a), "has_b": b is not None, "expect": e, "inter": bool(mi), "a": a})
            cases.append(c)
            if i % (3 if quick else 1) == 0 or nm.startswith(("deg_", "mlit_", "emptyl_", "dense")):
                self.cli_jobs.append(c)
        self.run_cli(self.cli_jobs)
        self.stats["path_programs"] = len(cases)
        return cases

    INTERCR = ['print 1;\r\nprint 2;\r\n', 'print "a";\r\n', 'x = 3;\r\nprint x;\r\n']

    def intercr_cases(self):
        """C13R4, finding C13.interactive_reader_keeps_cr: CRLF programs piped into the REAL `bloc -i` whose readline cannot be loaded
        (a stub libreadline.so.8 without the readline symbols first in LD_LIBRARY_PATH: `ReadInput::read` then serves
        `bloc_readstdin`). Model = the interactive loop fed with the chunks of `stdinReader` (CR kept); Spec = the LF text."""
        self.cli_cr = {}
        stub = os.path.join(self.tmpdir, "norl")
        os.makedirs(stub, exist_ok=True)
        r = subprocess.run(["gcc", "-shared", "-o", os.path.join(stub, "libreadline.so.8"), "-x", "c", "/dev/null"], stdout=subprocess.PIPE, stderr=subprocess.STDOUT)
        try:
            d = build.impl_build()
        except build.BuildError:
            d = None
        exe = os.path.join(d, "apps", "bloc") if d else ""
        if r.returncode != 0 or not os.path.exists(exe):
            self.broken_ties.append("build: cannot exercise the no-readline branch of bloc -i (stub library / executable missing)")
            return []
        env = build.sanitizer_env()
        env["LD_LIBRARY_PATH"] = stub + ":" + os.path.join(d, "blocc")
        env["TERM"] = "dumb"
        ans = run.run_driver(["i%d rdp stdin %s" % (i, hx(t)) for i, t in enumerate(self.INTERCR)])
        cases = []
        for i, t in enumerate(self.INTERCR):
            m = re.match(r"^model=([0-9,]+|-)/([0-9a-f]*)", ans.get("i%d" % i, ""))
            if not m:
                self.broken_ties.append("driver: no usable answer to rdp stdin for the CRLF text %d" % i)
                continue
            cid = "icr%d" % i
            try:
                p = subprocess.run([exe, "-i"], input=t.encode("latin-1"), stdout=subprocess.PIPE, stderr=subprocess.PIPE, env=env, timeout=60, cwd=self.tmpdir)
                self.cli_cr[cid] = (p.returncode, p.stdout)
            except subprocess.TimeoutExpired:
                self.cli_cr[cid] = ("timeout", b"")
            ops = ["new 6 t", "stepf 6 %s %s" % (m.group(2), m.group(1)), "out 6", "new 5 t", "stepf 5 %s sr" % hx(t.replace("\r", "")), "out 5"]
            cases.append(Case(cid, "rdp stdin %s" % hx(t), "|".join(ops), {"kind": "intercr", "text": "path_intercr", "reader": "bloc -i / bloc_readstdin", "len": len(t)}))
        return cases

    def judge_intercr(self, c, iraw, m, stderr):
        d = self.stats.setdefault("families", {})
        d["path_intercr"] = d.get("path_intercr", 0) + 1
        parts = iraw.split("|")
        rc, out = self.cli_cr.get(c.cid, ("missing", b""))
        if len(parts) != 6 or rc != 0:
            return self.record_violation("bloc -i (no readline) / harness gave no usable answer: rc=%s" % rc, c, iraw[:600], m, stderr)
        self.distinct.add((c.model_line,))

        def want(step, outp):
            lines = bytes.fromhex(outp[4:]).split(b"\n")
            if lines and lines[-1] == b"":
                lines.pop()
            mm = re.match(r"^perr \d+(?: \d+:\d+)?(?: msg=([0-9a-f]*))?$", step)
            return (lines, bytes.fromhex(mm.group(1) or "") if mm else None)
        model, spec = want(parts[1], parts[2]), want(parts[4], parts[5])
        got = self.inter_lines(out)
        if model not in got:
            return self.record_violation("`bloc -i` without readline behaves differently from the interactive loop fed with the chunks of the model's "
                                         "stdinReader (which keeps CR): stdout=%r, model -> %s %s" % (out[-300:], parts[1], parts[2]), c, iraw[:600], m, stderr)
        if spec in got:
            a = self.stats.setdefault("agree_spec", {})
            a["path/" + KF_ICR] = a.get("path/" + KF_ICR, 0) + 1
            return
        entry = next((f for f in self.findings if f["id"] == KF_ICR and f.get("status", "known") == "known"), None)
        if entry is None:
            return self.record_violation("defect region %s is not a listed known finding" % KF_ICR, c, iraw[:600], m, stderr)
        dd = self.stats.setdefault("differ_from_spec", {})
        dd["path/" + KF_ICR] = dd.get("path/" + KF_ICR, 0) + 1
        cur = self.known_hits.get(KF_ICR)
        if cur is None or len(c.model_line) < len(cur["example"]):
            self.known_hits[KF_ICR] = {"what": entry["what"], "example": "printf %r | bloc -i  (bloc_readstdin branch)" % bytes.fromhex(c.model_line.split(" ")[2]).decode("latin-1"),
                                       "impl": out[out.find(b">>> "):][:160].decode("latin-1").replace("\n", "\\n")}

    def run_cli(self, jobs):
        """the REAL executable <impl build>/apps/bloc: `bloc FILE`, `bloc -` (stdin), `bloc -i` (interactive loop)"""
        self.cli = {}
        try:
            d = build.impl_build()
        except build.BuildError as e:
            self.broken_ties.append("build: %s: the command-line paths cannot be exercised" % e.what)
            return
        exe = os.path.join(d, "apps", "bloc")
        if not os.path.exists(exe):
            self.broken_ties.append("build: %s not built: the command-line paths cannot be exercised" % exe)
            return
        env = build.sanitizer_env()
        env["LD_LIBRARY_PATH"] = os.path.join(d, "blocc")
        env["TERM"] = "dumb"

        def one(c):
            a = c.meta["a"].encode("latin-1")
            fpath = os.path.join(self.tmpdir, c.cid + "_cli.bloc")
            with open(fpath, "wb") as f:
                f.write(a)
            res = {}
            for mode, argv, inp in (("file", [fpath], b""), ("stdin", ["-"], a), ("inter", ["-i"], a)):
                if mode == "inter" and not c.meta["inter"]:
                    continue
                try:
                    p = subprocess.run([exe] + argv, input=inp, stdout=subprocess.PIPE, stderr=subprocess.PIPE, env=env, timeout=60, cwd=self.tmpdir)
                    res[mode] = (p.returncode, p.stdout, p.stderr)
                except subprocess.TimeoutExpired:
                    res[mode] = ("timeout", b"", b"")
            self.cli[c.cid] = res

        with ThreadPoolExecutor(max_workers=8) as ex:
            list(ex.map(one, jobs))
        self.stats["cli_runs"] = sum(len(v) for v in self.cli.values())

    def step_correspondence(self):
        self.check_rule_list()
        try:
            Check.step_correspondence(self)
        finally:
            if getattr(self, "tmpdir", None):
                shutil.rmtree(self.tmpdir, ignore_errors=True)

    # ------------------------------------------------------------ judge
    def judge(self, c, iraw, m, stderr):
        kind = c.meta.get("kind")
        if kind == "rdc":
            return self.judge_rdc(c, iraw, m, stderr)
        if kind == "path":
            return self.judge_path(c, iraw, m, stderr)
        if kind == "intercr":
            return self.judge_intercr(c, iraw, m, stderr)
        iout = iraw
        mout, spec, kf = m.get("model"), m.get("spec"), m.get("kf")
        fam = re.sub(r"\d+", "", c.meta["text"].split("/")[0]) + "/" + ("aligned" if not kf else kf.split(".")[1])
        d = self.stats.setdefault("families", {})
        d[fam] = d.get(fam, 0) + 1
        if mout is None or spec is None:
            return self.record_violation("model gave no answer", c, iout, m)
        if iout.startswith("crash") or iout.endswith("diverges") or not iout.startswith("toks="):
            return self.record_violation("scanner crashed / diverged / harness error", c, iout, m, stderr)
        self.distinct.add((c.model_line,))
        if len(self.samples) < 12 and self.rng.random() < 0.001:
            self.samples.append({"case": c.model_line[:160], "impl": iout[:200], "model": mout[:200], "spec": spec[:200], "kf": kf})
        if iout != mout:
            return self.record_violation("implementation differs from the model (per-chunk scanner)"
                                         + ("" if iout == spec else " and from the specification"), c, iout, m, stderr)
        note = m.get("note")
        if note:
            # C13R2 section 2: the reader delivered exactly two chunks [a, b]; `safeSplit a b` as decided by the Lean predicate
            safe, raw, arity = note.split(":")
            ss = self.stats.setdefault("safesplit", {"safe_equal": 0, "unsafe_differ": 0, "unsafe_equal": 0, "iff_tested": 0, "cuts_safe": 0, "cuts_unsafe": 0})
            if kf != KF_NUL:
                if arity == "2":
                    # lex_token_aligned_iff is a theorem now; the evaluation stays as a regression test of the driver
                    ss["iff_tested"] += 1
                    if (safe == "safe") != (raw == "eq"):
                        return self.record_violation("model: safeSplit a b is not equivalent to lexChunks [a,b] = lexWhole (a++b) on this pair "
                                                     "(contradicts lex_token_aligned_iff)", c, iout, m, stderr)
                else:
                    ss["cuts_safe" if safe == "safe" else "cuts_unsafe"] += 1
                    if safe == "safe" and raw != "eq":
                        return self.record_violation("model: safeCuts holds yet lexChunks differs from lexWhole (contradicts lex_cuts_aligned)", c, iout, m, stderr)
                cr_reader = c.meta["reader"] in ("sr", "rf") and "\r" in bytes.fromhex(c.model_line.split(" ")[1]).decode("latin-1")
                if safe == "safe" and not cr_reader:
                    if iout != spec:
                        return self.record_violation("every cut of this fragmentation is safe (safeSplit / safeCuts), yet the library's token stream differs "
                                                     "from that of the whole text (contradicts lex_token_aligned / lex_cuts_aligned)", c, iout, m, stderr)
                    ss["safe_equal"] += 1
                elif safe == "unsafe":
                    ss["unsafe_equal" if iout == spec else "unsafe_differ"] += 1
        if iout == spec:
            d = self.stats.setdefault("agree_spec", {})
            d[kf or "aligned"] = d.get(kf or "aligned", 0) + 1
            return
        if not kf:
            return self.record_violation("token stream of a line-aligned, NUL-free fragmentation differs from that of the whole text",
                                         c, iout, m, stderr)
        entry = next((f for f in self.findings if f["id"] == kf and f.get("status", "known") == "known"), None)
        if entry is None:
            return self.record_violation("defect region %s is not a listed known finding" % kf, c, iout, m, stderr)
        d = self.stats.setdefault("differ_from_spec", {})
        d[kf] = d.get(kf, 0) + 1
        cur = self.known_hits.get(kf)
        if cur is None or len(c.model_line) < len(cur["example"]):
            self.known_hits[kf] = {"what": entry["what"], "example": c.model_line, "impl": iout}

    def finish(self):
        ss = self.stats.get("safesplit")
        if ss:
            un = ss["unsafe_differ"] + ss["unsafe_equal"]
            # how tight the predicate is at the level the parser sees (spaces/comments dropped, literal pieces merged):
            # share of the unsafe cuts on which Parser::pop()'s stream really differs from the whole-text stream
            ss["unsafe_that_differ_ratio"] = round(ss["unsafe_differ"] / un, 4) if un else None
        return super().finish()

    # ------------------------------------------------------------ C13R2 judges
    def judge_rdc(self, c, iraw, m, stderr):
        d = self.stats.setdefault("families", {})
        d[c.meta["text"]] = d.get(c.meta["text"], 0) + 1
        mout, spec = m.get("model"), m.get("spec")
        if mout is None or not mout.startswith("chunks="):
            return self.record_violation("model gave no answer", c, iraw, m)
        self.distinct.add((c.model_line,))
        if spec != "eq":
            return self.record_violation("the model's %s reader does not deliver every byte (Spec.Delivers: concatenation = text minus what the reader "
                                         "removes, every chunk non-empty and within the buffer)" % c.meta["reader"], c, iraw, m, stderr)
        if c.meta["reader"] in ("sr", "rf", "inc"):
            if not iraw.startswith("chunks="):
                return self.record_violation("reader crashed / harness error", c, iraw, m, stderr)
            if iraw != mout:
                return self.record_violation("read() returns other chunks than the call-by-call model reader (%s)" % c.meta["reader"], c, iraw, m, stderr)

    @staticmethod
    def inter_lines(out):
        """the lines a program printed in `bloc -i`: -> (lines before the first error, first error message or None, all clean?)"""
        lines = out.split(b"\n")
        if lines and lines[-1] == b"":
            lines.pop()
        lines = lines[2:]                     # version header, "Type help…"
        res = []
        for variant in (0, 1):
            got, err = [], None
            for idx, ln in enumerate(lines):
                if variant == 0:
                    if ln.startswith((b">>> ", b"... ")) or ln in (b">>>", b"..."):
                        continue              # prompt + readline's echo of the piped line
                else:
                    ln = re.sub(rb"^(?:>>> |\.\.\. )+", b"", ln)
                if ln.startswith(b"Elapsed: "):
                    continue
                if ln == b"" and idx + 1 < len(lines) and re.sub(rb"^(?:>>> |\.\.\. )+", b"", lines[idx + 1]).startswith(b"Elapsed: "):
                    continue              # the "\nElapsed: …" of the loop; any OTHER empty line is program output
                mm = re.match(rb"^Error(?: \(\d+:\d+\))?: (.*)$", ln)
                if mm:
                    err = mm.group(1)
                    break
                got.append(ln)
            res.append((got, err))
        return res

    def judge_path(self, c, iraw, m, stderr):
        name = c.meta["name"]
        kf = m.get("kf")
        fam = c.meta["text"] + "/" + ("aligned" if not kf else kf.split(".")[1])
        d = self.stats.setdefault("families", {})
        d[fam] = d.get(fam, 0) + 1

        def V(what):
            return self.record_violation(what + " [program %s, %d bytes]" % (name, c.meta["len"]), c, iraw[:4000], m, stderr)

        if iraw.startswith("crash") or iraw.endswith("diverges"):
            return V("a reader path crashed / diverged")
        parts = iraw.split("|")
        if len(parts) != self.PATH_OPS:
            return V("harness error on a reader path (%d answers)" % len(parts))
        self.distinct.add((c.model_line,))
        ref = parts[6:9]
        rm = re.match(r"^(?:ok|perr (\d+)(?: (\d+:\d+))?(?: msg=([0-9a-f]*))?)$", ref[0])
        if not rm:
            return V("the library fed with the model reader's chunks gave no usable answer: %s" % ref[0][:100])
        ref_ok = ref[0] == "ok"
        code, pos, msg = rm.group(1), rm.group(2), bytes.fromhex(rm.group(3) or "")
        errline = (b"Error (%s): %s\n" % (pos.encode(), msg)) if pos else b""
        pd = self.stats.setdefault("paths", {})

        def seen(path):
            pd[path] = pd.get(path, 0) + 1

        # 1. include "file"; (the private ReadFile of statement_include.cpp)
        seen("include")
        if ref_ok:
            if parts[2] != "ok" or parts[3] != ref[1] or parts[4] != ref[2]:
                return V("`include \"file\";` behaves differently from the library fed with the chunks of the model's includeReader: include -> %s %s %s, "
                         "model chunks -> %s %s %s" % (parts[2], parts[3], parts[4][:200], ref[0], ref[1], ref[2][:200]))
        else:
            if not parts[2].startswith("perr") or parts[4] != "out=" + hx(errline):
                return V("`include \"file\";` fails differently from the library fed with the chunks of the model's includeReader: include -> %s %s, "
                         "model chunks -> %s" % (parts[2], parts[4][:300], ref[0]))
        # 2. the C API (bloc_parse_executable: StringReader on a const char*)
        if "\x00" not in c.meta["a"]:
            seen("capi")
            if ref_ok:
                good = parts[14].split(" ")[0:2] == ref[1].split(" ")[0:2] and parts[15] == ref[2]
            else:
                good = parts[14] in ("perr %s %s" % (code, pos or "0:0"), "perr %s" % code)
            if not good:
                return V("bloc_parse_executable behaves differently from the library fed with the chunks of the model's stringReader: capi -> %s %s, "
                         "model chunks -> %s %s %s" % (parts[14], parts[15][:200], ref[0], ref[1], ref[2][:200]))
        # 3. Parser::parse over the library's StringReader / apps ReadFile
        for path, k in (("parse_sr", 17), ("parse_rf", 21)):
            seen(path)
            if parts[k:k + 3] != ref and not (not ref_ok and parts[k] == ref[0]):
                return V("Parser::parse over %s behaves differently from the library fed with the model reader's chunks: %s vs %s"
                         % ("StringReader" if path == "parse_sr" else "apps ReadFile", [x[:200] for x in parts[k:k + 3]], [x[:200] for x in ref]))
        # 4. the real executable
        cli = getattr(self, "cli", {}).get(c.cid, {})
        for mode in ("file", "stdin"):
            if mode not in cli:
                continue
            seen("bloc_" + mode)
            rc, out, err = cli[mode]
            if ref_ok and ref[1] == "ok-":
                good = rc == 0 and out == bytes.fromhex(ref[2][4:])
            elif ref_ok:
                good = rc not in (0, "timeout") and b"Error" in err
            else:
                good = rc not in (0, "timeout") and out == b"" and err == (errline if pos else b"Error: %s\n" % msg)
            if not good:
                return V("`bloc %s` behaves differently from the library fed with the chunks of the model's fileReader: rc=%s stdout=%r stderr=%r, "
                         "model chunks -> %s %s %s" % ("FILE" if mode == "file" else "-", rc, out[:200], err[:300], ref[0], ref[1], ref[2][:200]))
        if "inter" in cli and c.meta["inter"]:
            seen("bloc_interactive")
            rc, out, err = cli["inter"]
            im = re.match(r"^(ok-|ok .*|rerr .*|perr (\d+)(?: (\d+:\d+))?(?: msg=([0-9a-f]*))?)$", parts[25])
            want_lines = bytes.fromhex(parts[26][4:]).split(b"\n")
            if want_lines and want_lines[-1] == b"":
                want_lines.pop()
            want_err = None
            if im and parts[25].startswith("perr"):
                want_err = bytes.fromhex(im.group(4) or "")
            ok_any = False
            for got, gerr in self.inter_lines(out):
                if parts[25].startswith("rerr"):
                    ok_any = ok_any or (got[:len(want_lines)] == want_lines[:len(got)] and gerr is not None)
                else:
                    ok_any = ok_any or (got == want_lines and gerr == want_err)
            if not im or rc != 0 or not ok_any:
                return V("`bloc -i` behaves differently from the interactive loop fed with the chunks of the model's stdinReader / readline server: "
                         "rc=%s stdout=%r, model chunks -> %s %s" % (rc, out[-400:], parts[25], parts[26][:200]))
        # 5. the whole-text Spec for program behaviour: the same tokens on short lines / the output computed by the generator
        verdicts = []
        if c.meta["has_b"]:
            verdicts.append(ref_ok and parts[10] == "ok" and ref[1] == parts[11] and ref[2] == parts[12])
            if parts[10] != "ok":
                return V("generator: the short-line layout of the program does not compile: %s" % parts[10])
        if c.meta["expect"] is not None:
            verdicts.append(ref_ok and ref[1] == "ok-" and ref[2] == "out=" + hx(c.meta["expect"]))
        if not verdicts:
            pd["no_spec_reference"] = pd.get("no_spec_reference", 0) + 1
            return
        if all(verdicts):
            a = self.stats.setdefault("agree_spec", {})
            a["path/" + (kf or "aligned")] = a.get("path/" + (kf or "aligned"), 0) + 1
            return
        if not kf:
            return V("a program whose lines all fit the reader's buffer behaves differently from its short-line layout / computed output: %s %s %s"
                     % (ref[0], ref[1], ref[2][:300]))
        entry = next((f for f in self.findings if f["id"] == kf and f.get("status", "known") == "known"), None)
        if entry is None:
            return V("defect region %s is not a listed known finding" % kf)
        dd = self.stats.setdefault("differ_from_spec", {})
        dd["path/" + kf] = dd.get("path/" + kf, 0) + 1
        cur = self.known_hits.get(kf)
        if cur is None:
            self.known_hits[kf] = {"what": entry["what"], "example": c.model_line[:200], "impl": (ref[0] + " " + ref[2])[:200]}
