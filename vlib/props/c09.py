"""C09 — tables stay uniform, tuples keep their structure, indexing is range-checked."""
import json
import os
import re

from .. import build, run
from ..core import Case, Check, VERIF, outcomes_agree
from ..run import hx
from .c04 import parse_dump

I64MIN, I64MAX = -2 ** 63, 2 ** 63 - 1

# ------------------------------------------------------------------ canonical values
D15, D25, D10, D65, DBIG, DNAN = ("D:3ff8000000000000", "D:4004000000000000", "D:3ff0000000000000", "D:4050400000000000",
                                  "D:46293e5939a08cea", "D:7ff8000000000000")
DECL_IS = "i0,s0"
DECL_SI = "s0,i0"
DECL_CA = "b0,r0,b0,b0,s0"      # collides with DECL_CB (same 16-bit structure hash)
DECL_CB = "d0,i0,b0,s0,b0"
DECL_Z = "r0,r0,r0,d0,r0"       # hashes to 0 = "opaque"


def tup(decl, *items):
    return "Uu0{%s}(%s)" % (decl, ",".join(items))


TUP_IS = [tup(DECL_IS, "I:1", "S:61"), tup(DECL_IS, "N:i0", "S:"), tup(DECL_IS, "I:-5", "N:s0")]
TUP_SI = tup(DECL_SI, "S:61", "I:1")
TUP_CA = tup(DECL_CA, "B:1", "R:61", "B:1", "B:1", "S:73")
TUP_CB = tup(DECL_CB, D15, "I:2", "B:1", "S:73", "B:1")
TUP_Z = tup(DECL_Z, "R:61", "R:61", "R:61", D15, "R:61")

SCALARS = {
    "b": ["B:1", "B:0", "N:b0"],
    "i": ["I:1", "I:-7", "N:i0", "I:%d" % I64MAX],
    "d": [D15, D25, "N:d0"],
    "s": ["S:61", "S:", "N:s0", "S:00ff"],
    "r": ["R:00ff", "R:", "N:r0"],
    "u": TUP_IS,
    "ca": [TUP_CA],
}
TYNAME = {"b": "b", "i": "i", "d": "d", "s": "s", "r": "r", "u": "u", "ca": "u"}
DECL = {"u": DECL_IS, "ca": DECL_CA}


def tyname(kind, level):
    if kind in DECL:
        return "u%d{%s}" % (level, DECL[kind])
    return "%s%d" % (TYNAME[kind], level)


def table(kind, dim, n, salt=0):
    """canonical table of `kind`, `dim` dimensions, n elements"""
    if dim == 1:
        pool = SCALARS[kind]
        es = [pool[(i + salt) % len(pool)] for i in range(n)]
    else:
        es = [table(kind, dim - 1, (i + salt) % 3, salt + i) for i in range(n)]
    return "T%s[%s]" % (tyname(kind, dim), ",".join(es))


def strip_flags(v):
    return re.sub(r"/[lt]", "", v)


def top_len(v):
    """number of top-level elements of a canonical table / tuple / string / bytes"""
    if v.startswith(("S:", "R:")):
        return len(v[2:]) // 2
    m = re.match(r"[TU][^\[\(]*[\[\(](.*)[\]\)]$", v)
    if not m:
        return 0
    body, depth, n = m.group(1), 0, 0
    if not body:
        return 0
    for ch in body:
        if ch in "[({":
            depth += 1
        elif ch in "])}":
            depth -= 1
        elif ch == "," and depth == 0:
            n += 1
    return n + 1


def positions(n):
    return ["I:-1", "I:0", "I:1", "I:%d" % (n - 1), "I:%d" % n, "I:%d" % (n + 1), "I:%d" % I64MAX, "I:%d" % I64MIN,
            "N:i0", "N:?0", D10, "N:d0"]


def dedup(xs):
    out = []
    for x in xs:
        if x not in out:
            out.append(x)
    return out


def elem_args(kind, dim):
    """the argument lattice for a table of (kind, dim): matching, mixable, mismatching, typed / untyped nulls, tables of
    the same / lower / higher level"""
    a = []
    if dim == 1:
        a += SCALARS[kind][:3]                                 # matching (incl. typed null of the element type)
    else:
        a += [table(kind, dim - 1, 2, 5), table(kind, dim - 1, 0)]     # matching element = lower-level table
        a += SCALARS[kind][:1]                                 # scalar of the base kind: two levels too low for dim 3
    a += ["I:3", D25, DBIG, "N:i0", "N:d0", "N:?0", "S:78", "N:s0", "B:1", "R:41", TUP_IS[0], TUP_SI, "N:u0#0", "N:u0#77"]
    if kind == "ca":
        a += [TUP_CB]
    a += [table(kind, dim, 2, 3), table(kind, dim, 0), table(kind, dim + 1, 1, 1), "N:%s" % (tyname(kind, dim).split("{")[0] + ("#0" if kind in DECL else "")),
          "N:?1", table("s" if kind != "s" else "i", dim, 1), "N:s1"]
    if dim >= 2:
        a += [table("s" if kind != "s" else "i", dim - 1, 1)]
    return dedup(a)


def load_c09_findings():
    p = os.path.join(VERIF, "known_findings_c09.json")
    if not os.path.exists(p):
        return []
    return json.load(open(p))["findings"]


def split_answer(ans):
    """'model=.. spec=.. kf=..' -> dict (values may contain spaces)"""
    d = {}
    for key in ("model", "spec", "kf", "nc"):
        m = re.search(r"(?:^| )%s=(.*?)(?= (?:model|spec|kf|nc)=|$)" % key, ans)
        if m:
            d[key] = m.group(1)
    return d


def satisfies(spec, out):
    """does the normalised outcome `out` ('ok R recv=X' | 'perr c' | 'rerr c' | 'crash ..') satisfy the Spec outcome"""
    if spec is None:
        return True
    rejected = out.startswith(("perr ", "rerr "))
    if spec.startswith("ok "):
        return out == spec
    if spec.startswith("either "):
        return rejected or out == spec[len("either "):]
    if spec.startswith("reject "):
        cls = spec.split()[1]
        if not rejected:
            return False
        code = out.split()[:2]
        if cls == "index":
            # at compile time the position is not known: any compile-time refusal (e.g. of the element type) counts
            return code == ["rerr", "22"] or out.startswith("perr ")
        if cls == "range":
            return code == ["rerr", "21"] or out.startswith("perr ")
        return True
    return False


class C09(Check):
    pid = "C09"
    proof_modules = ["BlocV.Proofs.C09"]
    rule = ("member × receiver × argument lattice: receivers = tables of boolean / integer / decimal / string / bytes / tuple "
            "elements with 1..3 dimensions and 0..3 elements, strings and bytes of length 0..3, tuples, null receivers; element "
            "arguments = matching, int/decimal mixable, mismatching scalar, other-structure tuple, hash-colliding tuple, typed "
            "null (same / mixable = NULL decimal for an integer table or item and vice versa, which must store a null element "
            "of the container's own type / other type), untyped null, tables of the same / lower / higher level and of another "
            "type, null tables; positions = {-1, 0, 1, n-1, n, n+1, INT64_MAX, INT64_MIN, null integer, untyped null, decimal 1.0, "
            "null decimal}. Values are stored exactly into variables X, Y, Z; the program `r = x.member(y, z);` runs twice per "
            "case: with the static types of the values (compile-time checks first) and with opaque static types (run-time "
            "checks); the result R, the receiver X after the call (in place), the argument variables and the error code are "
            "compared with the Lean model; a rejected call must leave X unchanged. Also: self-aliasing calls x.insert(p, x) / "
            "x.concat(x), constant string receivers, set@N / @N with ranks {0,1,n,n+1,2^32,2^32+1,2^64}, tab / tup "
            "constructors, seeded random operation sequences on one variable (every step: result, contents with the type of "
            "every element, count()), forall programs (order asc/desc/auto, write through the iterator, attempts to change "
            "the iterated table). distinct = model case line.")
    assumptions = ["integer → decimal conversion of a mixable element is the IEEE nearest conversion (Lean Float, executed)",
                   "forall at program level is compared with the Lean helpers forallTrace/forallFold, not with a statement "
                   "interpreter (Interp.lean has no forall yet)"]

    def __init__(self, tier, seed):
        super().__init__(tier, seed)
        self.findings = self.findings + [f for f in load_c09_findings() if f["property"] == self.pid
                                         and f["id"] not in {g["id"] for g in self.findings}]

    # ------------------------------------------------------------------ case builders
    def mb_case(self, cid, member, recv, args, flag="", alias=()):
        names = ["y", "z"][:len(args)]
        setop = "setq" if flag == "opaque" else "set"
        setup = []
        if flag != "const":
            setup.append("%s 0 %s %s" % (setop, hx("X"), recv))
        callargs = []
        for i, (n, v) in enumerate(zip(names, args)):
            if i in alias:
                callargs.append("x")
            else:
                setup.append("%s 0 %s %s" % (setop, hx(n.upper()), v))
                callargs.append(n)
        rtxt = "x"
        if flag == "const":
            rtxt = "null" if recv == "N:?0" else '"%s"' % bytes.fromhex(recv[2:]).decode()
        elif flag == "hth":
            rtxt = "(x + null)"       # hands the lvalue of x through: receiver() works on a clone
        elif flag == "tmp":
            rtxt = '(x + "")'         # a temporary equal to x
        src = "r = %s.%s(%s);" % (rtxt, member, ", ".join(callargs))
        impl = "|".join(["new 0"] + setup + ["prog 0 " + hx(src), "dump 0"])
        line = "mb %s %s %s" % (member, recv, " ".join(args))
        if flag:
            line = line.rstrip() + " " + flag
        line = re.sub(r" +", " ", line)
        vars_ = {}
        if flag != "const":
            vars_["X"] = recv
        for i, (n, v) in enumerate(zip(names, args)):
            if i not in alias:
                vars_[n.upper()] = v
        return Case(cid, line, impl, {"kind": "call", "src": src, "vars": vars_, "recv": "X" if flag != "const" else None})

    def item_case(self, cid, recv, rank, flag="", arg=None):
        setop = "setq" if flag == "opaque" else "set"
        setup = ["%s 0 %s %s" % (setop, hx("X"), recv)]
        vars_ = {"X": recv}
        if arg is None:
            src = "r = x@%d;" % rank
            line = "item %s %d" % (recv, rank)
        else:
            setup.append("%s 0 %s %s" % (setop, hx("Y"), arg))
            vars_["Y"] = arg
            src = "r = x.set@%d(y);" % rank
            line = "setitem %s %d %s" % (recv, rank, arg)
        if flag:
            line += " " + flag
        impl = "|".join(["new 0"] + setup + ["prog 0 " + hx(src), "dump 0"])
        return Case(cid, line, impl, {"kind": "call", "src": src, "vars": vars_, "recv": "X"})

    def bi_case(self, cid, name, args, flag=""):
        names = ["x", "y", "z", "w", "v"][:len(args)]
        setop = "setq" if flag == "opaque" else "set"
        setup = ["%s 0 %s %s" % (setop, hx(n.upper()), v) for n, v in zip(names, args)]
        src = "r = %s(%s);" % (name, ", ".join(names))
        impl = "|".join(["new 0"] + setup + ["prog 0 " + hx(src), "dump 0"])
        return Case(cid, ("bi %s %s %s" % (name, " ".join(args), flag)).strip(), impl,
                    {"kind": "call", "src": src, "vars": {n.upper(): v for n, v in zip(names, args)}, "recv": None})

    def seq_case(self, cid, recv, steps):
        """steps: list of (name, [args])"""
        ops = ["new 0", "set 0 %s %s" % (hx("X"), recv)]
        words = []
        for k, (name, args) in enumerate(steps):
            # a fresh variable per step and argument: re-registering an existing symbol makes its static type opaque
            for j, a in enumerate(args):
                ops.append("set 0 %s %s" % (hx("A%dK%d" % (j, k)), a))
            src = "r = x.%s(%s);" % (name, ", ".join("a%dk%d" % (j, k) for j in range(len(args))))
            ops += ["prog 0 " + hx(src), "prog 0 " + hx("c = x.count();"), "dump 0"]
            words += ["%s/%d" % (name, len(args))] + list(args)
        return Case(cid, "mseq %s %s" % (recv, " ".join(words)), "|".join(ops), {"kind": "seq", "steps": steps, "recv0": recv})

    def forall_case(self, cid, tbl, direction, op, arg=None):
        d = "" if direction == "auto" else direction + " "
        ops = ["new 0", "set 0 %s %s" % (hx("T"), tbl)]
        if op == "read":
            # collect the visited elements into a table of the same type (built from an empty copy)
            src = "forall e in t %sloop print e; end loop;" % d
            meta_src = src
            ops += ["prog 0 " + hx(src), "out 0", "dump 0"]
            line = "forall %s %s order" % (tbl, direction)
        elif op == "write":
            ops.append("set 0 %s %s" % (hx("V"), arg))
            src = "forall e in t %sloop e = v; end loop;" % d
            meta_src = src
            ops += ["prog 0 " + hx(src), "dump 0"]
            line = "forall %s %s write %s" % (tbl, direction, arg)
        return Case(cid, line, "|".join(ops), {"kind": "forall", "op": op, "src": meta_src, "tbl": tbl, "arg": arg})

    def forall_lock_case(self, cid, tbl, body, expect):
        src = "forall e in t loop %s end loop;" % body
        ops = ["new 0", "set 0 %s %s" % (hx("T"), tbl), "set 0 %s %s" % (hx("U"), tbl), "prog 0 " + hx(src), "dump 0"]
        return Case(cid, "", "|".join(ops), {"kind": "lock", "src": src, "tbl": tbl, "expect": expect})

    def lockp_case(self, cid, tbl, frames, post, op, root, nchain, args):
        """frames: list of (iter, target) names; the call `r = <root>[.at(0)]*nchain.<op>(…)` is placed after the `post`
        innermost loops have been closed. Model line `lockp …` (DrvC09.runLock: acceptMember / acceptSet with the lock flag
        computed by forallEnter / forallLeave / lockStmt)."""
        names = ["k%d" % i for i in range(len(args))]
        recv = root + ".at(0)" * nchain
        pos = "0, " if op in ("put", "insert") else ("0" if op in ("at", "delete") else "")
        call = "r = %s.%s(%s%s);" % (recv, op, pos, ", ".join(names))
        if op == "assign":
            call = "%s = %s;" % (root, names[0])
        opened = frames[:len(frames) - post]
        closed = frames[len(frames) - post:]
        inner = ""
        if closed:
            inner = "".join("forall %s in %s loop " % fr for fr in closed) + "x = 1; " + "end loop; " * len(closed)
        src = "".join("forall %s in %s loop " % fr for fr in opened) + inner + call + " end loop;" * len(opened)
        ops = ["new 0", "set 0 %s %s" % (hx("T"), tbl), "set 0 %s %s" % (hx("U"), tbl)]
        ops += ["set 0 %s %s" % (hx(n.upper()), v) for n, v in zip(names, args)]
        ops += ["prog 0 " + hx(src), "dump 0"]
        line = "lockp %s %s%s call %s %s %d %s" % (tbl, " ".join("fa:%s:%s" % fr for fr in frames), (" post:%d" % post) if post else "",
                                                  op, root, nchain, " ".join(args))
        line = re.sub(r" +", " ", line).strip()
        return Case(cid, line, "|".join(ops), {"kind": "lockp", "src": src, "tbl": tbl, "frames": frames, "post": post, "op": op,
                                                "root": root, "nchain": nchain})

    def gen_lockp(self, cid):
        """all members x locked / unlocked x direct / nested forall x receiver = the table, a chain hanging off it, a copy of it
        (other symbol), the iterator"""
        out = []
        tabs = [("i", 2, "Ti2[Ti1[I:1,I:2],Ti1[I:3]]"), ("i", 1, "Ti1[I:1,I:2,I:3]"), ("s", 1, "Ts1[S:6162,S:63]"),
                ("u", 1, "Tu1{%s}[%s,%s]" % (DECL_IS, TUP_IS[0], TUP_IS[2]))]
        configs = [([], 0), ([("e", "t")], 0), ([("e", "u")], 0), ([("e", "t")], 1), ([("e", "t"), ("f", "u")], 0), ([("e", "u"), ("f", "t")], 0),
                   ([("e", "t"), ("f", "t")], 0), ([("e", "t"), ("f", "u")], 1), ([("e", "t"), ("f", "t")], 1), ([("e", "u"), ("f", "t")], 1),
                   ([("e", "t"), ("f", "u")], 2), ([("e", "t"), ("f", "e")], 0), ([("e", "t"), ("f", "e")], 1)]
        ops = ["concat", "at", "put", "count", "delete", "insert", "set@1"]
        dist = {}
        for (kind, dim, T) in tabs:
            for frames, post in configs:
                lev = {"t": dim, "u": dim}
                ok = True
                for (it, tg) in frames:
                    if lev.get(tg, 0) < 1:
                        ok = False
                        break
                    lev[it] = lev[tg] - 1
                if not ok:
                    continue
                opened = frames[:len(frames) - post]
                roots = ["t", "u"] + [it for (it, _) in opened]
                for root in roots:
                    for nchain in (0, 1):
                        rl = lev[root] - nchain
                        if rl < 0:
                            continue
                        # an element argument of the receiver's element type
                        if rl >= 2:
                            elem = "Ti1[I:9]"
                        elif rl == 1:
                            elem = {"i": "I:7", "s": "S:78", "u": TUP_IS[1]}[kind]
                        else:
                            elem = {"i": "I:7", "s": "I:65", "u": "I:7"}[kind]
                        if nchain == 0:
                            # assignment to the symbol itself (a value of its own static type): the lock of registerSymbol
                            own = T if rl == dim else ("Ti1[I:9]" if rl == 1 else {"i": "I:7", "s": "S:78", "u": TUP_IS[1]}[kind])
                            out.append(self.lockp_case(cid(), T, frames, post, "assign", root, 0, [own]))
                            key = "%s|%s|%s" % ("nest%d" % len(frames) + ("post%d" % post if post else ""), "root=" + root, "assign")
                            dist[key] = dist.get(key, 0) + 1
                        for op in ops:
                            args = [] if op in ("at", "count", "delete") else [elem]
                            out.append(self.lockp_case(cid(), T, frames, post, op, root, nchain, args))
                            key = "%s|%s|%s" % ("nest%d" % len(frames) + ("post%d" % post if post else ""), "root=" + root + ("+chain" if nchain else ""), op)
                            dist[key] = dist.get(key, 0) + 1
        self.stats["lockp_cases"] = len(out)
        self.stats["lockp_distribution"] = {"by_nesting": {}, "by_root": {}, "by_member": {}}
        for key, n in dist.items():
            a, b, c = key.split("|")
            for nm, k in (("by_nesting", a), ("by_root", b), ("by_member", c)):
                d = self.stats["lockp_distribution"][nm]
                d[k] = d.get(k, 0) + n
        return out

    # ------------------------------------------------------------------ generation
    def gen_cases(self):
        quick = self.tier == "quick"
        cases = []
        n = [0]

        def cid():
            n[0] += 1
            return "c%d" % n[0]

        def both(member, recv, args, alias=()):
            cases.append(self.mb_case(cid(), member, recv, args, "", alias))
            cases.append(self.mb_case(cid(), member, recv, args, "opaque", alias))

        kinds = ["b", "i", "d", "s", "r", "u", "ca"]
        tables = []
        for k in kinds:
            for size in range(4):
                tables.append((k, 1, size, table(k, 1, size)))
            for size in range(3):
                tables.append((k, 2, size, table(k, 2, size, 1)))
        for k in (["i", "d", "s", "u"] if not quick else ["i", "s"]):
            for size in range(3):
                tables.append((k, 3, size, table(k, 3, size, 2)))
        self.stats["tables"] = len(tables)
        # A typed-null decimal given for an integer table (and the converse), an out-of-range decimal: these cells used to
        # end in a crash of the probe (null dereference, undefined cast) and were therefore sampled sparingly. Both are
        # repaired upstream (9e8652f: a null element of the table's own type is stored; bf3229b: OUT_OF_RANGE), so the whole
        # lattice is run: every (table, position, argument) combination, like any other argument.
        for (k, dim, size, T) in tables:
            pos = positions(size)
            eargs = elem_args(k, dim)
            small_pos = ["I:0", "I:%d" % size, "N:i0"] if quick else pos
            small_args = dedup([eargs[0], "S:78" if k != "s" else "I:3", "N:?0"])
            for p in pos:
                both("at", T, [p])
                both("delete", T, [p])
            both("count", T, [])
            for member in ("put", "insert"):
                done = set()
                for p in pos:
                    for a in small_args:
                        done.add((p, a))
                        both(member, T, [p, a])
                for p in small_pos:
                    for a in eargs:
                        if (p, a) in done:
                            continue
                        both(member, T, [p, a])
            for a in eargs:
                both("concat", T, [a])
            # self-aliasing: the argument is the receiver variable itself
            both("concat", T, [T], alias=(0,))
            for p in ("I:0", "I:%d" % size, "I:1"):
                both("insert", T, [p, T], alias=(1,))
        # strings and bytes
        seqs = [("S:", 0), ("S:61", 1), ("S:6162", 2), ("S:616263", 3), ("R:", 0), ("R:00", 1), ("R:ff00", 2), ("R:61ff00", 3)]
        sargs = ["I:65", "I:0", "I:255", "I:256", "I:-1", "N:i0", "N:?0", D65, "N:d0", "S:7879", "S:", "S:00", "R:7879", "R:", "N:s0", "N:r0",
                 "B:1", "Ts1[S:61]", "Tr1[R:61]", "Ti1[I:65]", TUP_IS[0], "N:s1"]
        for (sv, ln) in seqs:
            pos = positions(ln)
            for p in pos:
                both("at", sv, [p])
                both("delete", sv, [p])
                for a in ["I:65", "I:300", "N:?0"]:
                    both("put", sv, [p, a])
                    both("insert", sv, [p, a])
            both("count", sv, [])
            for a in sargs:
                for p in ("I:0", "I:%d" % ln, "I:%d" % (ln + 1), "N:i0"):
                    both("put", sv, [p, a])
                    both("insert", sv, [p, a])
                both("concat", sv, [a])
            both("concat", sv, [sv], alias=(0,))
            both("insert", sv, ["I:0", sv], alias=(1,))
        # constant string receivers (a new value is returned, nothing is modified)
        for sv in ("S:616263", "S:61"):
            for member, argsets in (("put", [["I:0", "I:65"], ["I:9", "I:65"], ["I:0", "I:300"]]), ("insert", [["I:1", "S:7879"], ["I:1", "I:66"], ["I:7", "I:66"]]),
                                    ("delete", [["I:0"], ["I:5"]]), ("concat", [["S:7879"], ["I:66"], ["N:s0"], ["I:300"]]), ("at", [["I:0"], ["I:5"]]), ("count", [[]])):
                for args in argsets:
                    cases.append(self.mb_case(cid(), member, sv, args, "const"))
                    # the same calls on an lvalue handed through and on a temporary: the variable must keep its value
                    cases.append(self.mb_case(cid(), member, sv, args, "hth"))
                    cases.append(self.mb_case(cid(), member, sv, args, "tmp"))
                    self.stats["recvkind_cases"] = self.stats.get("recvkind_cases", 0) + 3
        # the literal null as a receiver (constant: never overwritten)
        for a in ("S:7879", "I:65", "I:0", "I:300", "N:s0", "N:?0", "R:78", "Ti1[I:1]"):
            cases.append(self.mb_case(cid(), "concat", "N:?0", [a], "const"))
            self.stats["recvkind_cases"] = self.stats.get("recvkind_cases", 0) + 1
        # null and non-container receivers
        nulls = ["N:i1", "N:?1", "N:s0", "N:r0", "N:?0", "N:u0#0", "N:i2", "N:u1#0", "I:5", "B:1", D15]
        nargs = ["I:1", "I:0", "I:66", "I:300", D15, "S:78", "R:78", "N:?0", "N:i0", "N:s0", "Ti1[I:1]", "Ts1[S:61]", "Ti2[Ti1[I:1]]", "N:i1", "N:?1",
                 TUP_IS[0], TUP_Z, "N:u0#0", "B:1"]
        for rv in nulls:
            both("count", rv, [])
            for a in nargs:
                both("concat", rv, [a])
            for p in ("I:0", "N:i0"):
                both("at", rv, [p])
                both("delete", rv, [p])
                for a in ("I:1", "S:78", "N:?0"):
                    both("put", rv, [p, a])
                    both("insert", rv, [p, a])
        # tuples
        tups = TUP_IS + [TUP_CA, tup("d0,i0", D15, "I:2"), tup("b0", "N:b0")]
        ranks = [0, 1, 2, 3, 5, 6, 2 ** 32, 2 ** 32 + 1, 2 ** 32 + 2, 2 ** 64 - 1, 2 ** 64, 10 ** 20]
        targs = ["I:9", D25, DBIG, "N:d0", "N:i0", "N:?0", "S:7a", "N:s0", "B:0", "R:7a", "Ti1[I:1]", TUP_IS[0], "N:b0"]
        for tv in tups + ["N:u0#0", "I:5", "Tu1{%s}[%s]" % (DECL_IS, TUP_IS[0])]:
            both("count", tv, [])
            both("at", tv, ["I:0"])
            both("delete", tv, ["I:0"])
            both("put", tv, ["I:0", "I:1"])
            both("concat", tv, ["I:1"])
            for r in ranks:
                for fl in ("", "opaque"):
                    cases.append(self.item_case(cid(), tv, r, fl))
            for r in (ranks[:6] + [2 ** 32 + 1, 2 ** 64]):
                for a in (targs if r in (1, 2) else targs[:2] + ["N:?0"]):
                    for fl in ("", "opaque"):
                        cases.append(self.item_case(cid(), tv, r, fl, a))
        # constructors
        tabx = dedup([v for k in ("b", "i", "d", "s", "r") for v in SCALARS[k][:3]] + TUP_IS + [TUP_CA, TUP_CB, TUP_Z, "N:?0", "N:u0#0", "N:u0#77", "N:?1", "N:i1",
                     table("i", 1, 2), table("u", 1, 1), table("s", 2, 2, 1), table("i", 3, 1, 1), "N:u1#0"])
        for cnt in ("I:0", "I:1", "I:3", "I:-1", "N:i0", "N:?0", D25, "I:%d" % I64MIN, "S:31"):
            for x in tabx:
                cases.append(self.bi_case(cid(), "tab", [cnt, x]))
        # the same under opaque static types (run-time checks only), nested tables, the dimension limit TYPE_LEVEL_MAX = 255
        nest = ["N:i253", "N:i254", "N:i255", "N:s254", table("i", 2, 2, 1), table("u", 2, 1, 1), "Ti2[]", "Tu1{%s}[]" % DECL_IS]
        for cnt in ("I:0", "I:2", "I:-1", "N:i0", "N:?0", D25, "S:31"):
            for x in tabx + nest:
                cases.append(self.bi_case(cid(), "tab", [cnt, x], "opaque"))
        for cnt in ("I:0", "I:1", "I:2"):
            for x in nest:
                cases.append(self.bi_case(cid(), "tab", [cnt, x]))
        self.stats["tab_dist"] = {"element_values": len(tabx + nest), "counts_static": 9, "counts_opaque": 7, "level_limit_values": 4}
        cases.append(self.bi_case(cid(), "tab", []))
        cases.append(self.bi_case(cid(), "tup", []))
        # tab(n, e) with an element expression whose TYPE changes between evaluations (a function choosing at random):
        # the outcome must be one of the outcomes of the model over all scripts (uniform table, or VARYING_COLLECTION)
        for cnt in (1, 2, 3, 4):
            for (va, la), (vb, lb) in ((("I:1", "1"), ("S:61", '"a"')), (("I:1", "1"), (D15, "1.5")), (("S:61", '"a"'), ("N:s0", "str()"))):
                for rep in range(4):
                    src = ("function f() return undefined is begin if random(2) < 1 then return %s; end if; return %s; end; r = tab(%d, f());"
                           % (la, lb, cnt))
                    cases.append(Case(cid(), "bi tabrand I:%d %d %s %s" % (cnt, cnt, va, vb), "|".join(["new 0", "prog 0 " + hx(src), "dump 0"]),
                                      {"kind": "tabrand", "src": src}))
                    self.stats["tabrand_cases"] = self.stats.get("tabrand_cases", 0) + 1
        tupx = ["I:1", "N:i0", D15, "S:61", "N:s0", "R:00", "B:1", "N:?0", "N:b0", TUP_IS[0], "Ti1[I:1]", "N:?1", "N:u0#0"]
        for a in tupx:
            cases.append(self.bi_case(cid(), "tup", [a]))
            cases.append(self.bi_case(cid(), "tup", [a], "opaque"))
            for b in tupx[:8]:
                cases.append(self.bi_case(cid(), "tup", [a, b]))
                cases.append(self.bi_case(cid(), "tup", [a, b], "opaque"))
                cases.append(self.bi_case(cid(), "tup", [b, a], "opaque"))
        self.stats["tup_dist"] = {"item_values": len(tupx), "arity": [1, 2, 5], "static": True, "opaque": True}
        cases.append(self.bi_case(cid(), "tup", ["B:1", "R:61", "B:1", "B:1", "S:73"]))
        cases.append(self.bi_case(cid(), "tup", [D15, "I:2", "B:1", "S:73", "B:1"]))
        cases.append(self.bi_case(cid(), "tup", ["R:61", "R:61", "R:61", D15, "R:61"]))
        # operation sequences
        for _ in range(150 if quick else 2500):
            cases.append(self.random_seq(cid()))
        # forall
        ftabs = [table(k, 1, s) for k in ("i", "s", "u") for s in range(4)] + [table("i", 2, 3, 1), table("s", 2, 2, 1), "N:i1"]
        for T in ftabs:
            for d in ("auto", "asc", "desc"):
                cases.append(self.forall_case(cid(), T, d, "read"))
                base = re.match(r"T([a-z])(\d)", T)
                if T.startswith("T") and T.endswith("]") and not T.endswith("[]"):
                    first = self.first_elem(T)
                    for v in dedup([first, "I:42", "S:7a7a", D25, "N:i0", "N:?0", TUP_IS[1], TUP_SI, "Ti1[I:9]", "Ti1[]"]):
                        cases.append(self.forall_case(cid(), T, d, "write", v))
        for T in (table("i", 1, 3), table("s", 2, 2, 1), table("u", 1, 2)):
            first = self.first_elem(T)
            cases.append(self.forall_lock_case(cid(), T, "t.concat(t);", "perr32"))
            cases.append(self.forall_lock_case(cid(), T, "t.delete(0);", "perr32"))
            cases.append(self.forall_lock_case(cid(), T, "t.insert(0, t);", "perr32"))
            cases.append(self.forall_lock_case(cid(), T, "t.put(0, e);", "perr32"))
            cases.append(self.forall_lock_case(cid(), T, "t = u;", "reject"))
            cases.append(self.forall_lock_case(cid(), T, "t = tab();", "reject"))
            cases.append(self.forall_lock_case(cid(), T, "forall f in t loop t.delete(0); end loop;", "reject"))
            cases.append(self.forall_lock_case(cid(), T, "forall e in t loop x = 1; end loop;", "reject"))
            # after a nested traversal of the same table the outer lock must still hold
            cases.append(self.forall_lock_case(cid(), T, "forall f in t loop x = 1; end loop; t.delete(0);", "perr32"))
            cases.append(self.forall_lock_case(cid(), T, "forall f in t loop x = 1; end loop; t.concat(t);", "perr32"))
            cases.append(self.forall_lock_case(cid(), T, "forall f in u loop x = 1; end loop; t.delete(0);", "perr32"))
            cases.append(self.forall_lock_case(cid(), T, "forall f in t loop u.concat(f); end loop;", "ok-nested"))
            cases.append(self.forall_lock_case(cid(), T, "u.concat(e); u.delete(0);", "ok-other"))
            cases.append(self.forall_lock_case(cid(), T, "x = t.count();", "ok-read"))
        cases += self.gen_lockp(cid)
        self.stats["cases"] = n[0]
        return cases

    @staticmethod
    def first_elem(T):
        body = T[T.index("[") + 1:-1]
        depth = 0
        for i, ch in enumerate(body):
            if ch in "[({":
                depth += 1
            elif ch in "])}":
                depth -= 1
            elif ch == "," and depth == 0:
                return body[:i]
        return body

    def random_seq(self, cid):
        r = self.rng
        kind = r.choice(["b", "i", "d", "s", "r", "u", "i", "d", "str", "raw", "tup", "ca"])
        steps = []
        if kind in ("str", "raw"):
            recv = "S:6162" if kind == "str" else "R:00ff"
            pool = ["I:65", "I:0", "I:255", "I:300", "S:7879", "S:", "N:?0", "N:s0", "R:7a", D65, "B:1"]
            for _ in range(r.randint(4, 10)):
                m = r.choice(["concat", "insert", "put", "delete", "at", "count"])
                p = r.choice(["I:0", "I:1", "I:2", "I:3", "I:5", "I:-1", "N:i0"])
                steps.append((m, {"concat": [r.choice(pool)], "insert": [p, r.choice(pool)], "put": [p, r.choice(pool)], "delete": [p], "at": [p],
                                  "count": []}[m]))
            return self.seq_case(cid, recv, steps)
        if kind == "tup":
            recv = r.choice(TUP_IS + [tup("d0,i0,b0", D15, "I:2", "B:1")])
            pool = ["I:9", D25, "N:?0", "S:7a", "N:s0", "B:0", "N:b0", "I:-3"]
            for _ in range(r.randint(3, 8)):
                if r.random() < 0.8:
                    steps.append(("set@%d" % r.choice([0, 1, 2, 3, 4]), [r.choice(pool)]))
                else:
                    steps.append(("count", []))
            return self.seq_case(cid, recv, steps)
        dim = r.choice([1, 1, 2, 2, 3])
        recv = table(kind, dim, r.randint(0, 3), r.randint(0, 5))
        # the whole argument lattice, typed nulls of the other numeric type and out-of-range decimals included (no cell of it
        # ends the probe any more)
        pool = elem_args(kind, dim)
        good = pool[:3]
        for _ in range(r.randint(4, 12)):
            m = r.choice(["concat", "concat", "insert", "insert", "put", "put", "delete", "at", "count"])
            p = r.choice(["I:0", "I:1", "I:2", "I:3", "I:5", "I:-1", "N:i0", "I:0"])
            a = r.choice(good) if r.random() < 0.5 else r.choice(pool)
            steps.append((m, {"concat": [a], "insert": [p, a], "put": [p, a], "delete": [p], "at": [p], "count": []}[m]))
        return self.seq_case(cid, recv, steps)

    # ------------------------------------------------------------------ judging
    def step_correspondence(self):
        cases = self.corpus_cases() + self.gen_cases()
        try:
            hbin = build.harness_build(self.harness)
        except build.BuildError as e:
            self.broken_ties.append("build: %s: %s" % (e.what, e.output[-800:]))
            return
        import time
        t = time.time()
        impl = run.run_harness(hbin, ["%s %s" % (c.cid, c.impl_line) for c in cases], timeout_s=10)
        self.stats["impl_s"] = round(time.time() - t, 1)
        t = time.time()
        mlines = ["%s %s" % (c.cid, c.model_line) for c in cases if c.model_line]
        model = run.run_driver(mlines)
        self.stats["model_s"] = round(time.time() - t, 1)
        if "#driver-error" in model:
            self.broken_ties.append("driver: " + model["#driver-error"][-400:])
        for c in cases:
            self.evaluations += 1
            iraw = impl.get(c.cid)
            if iraw is None:
                self.record_violation("harness lost case", c, "?", {})
                continue
            self.judge_c09(c, iraw, model.get(c.cid, ""), impl.get(c.cid + "#stderr", ""))

    def sym(self, d, name):
        return strip_flags(d["syms"].get(name, ("", "", "?"))[2])

    def normalise_call(self, c, prog, dump, recv_name, vars_):
        """-> (normalised outcome, list of side-condition failures)"""
        bad = []
        if prog.startswith("crash") or prog.endswith("diverges") or "foreign-exception" in prog:
            return prog, bad
        d = parse_dump(dump)
        if d is None:
            return "unparsable-dump", ["unparsable dump"]
        if prog.startswith("perr "):
            out = "perr " + prog.split()[1]
        elif prog.startswith("rerr "):
            out = "rerr " + prog.split()[1]
        elif prog == "ok-":
            out = "ok " + self.sym(d, "R")
            if recv_name:
                out += " recv=" + self.sym(d, recv_name)
        else:
            out = prog
        for name, v in vars_.items():
            if name == recv_name and out.startswith("ok "):
                continue
            got = self.sym(d, name)
            if got != v:
                bad.append("%s %s: %s -> %s" % ("rejected call changed the receiver" if name == recv_name else "argument variable changed",
                                              name, v, got))
        return out, bad

    def verdict(self, c, out, m, stderr, what=""):
        """Impl outcome `out` against the model / spec answers in dict m."""
        mout, spec, kf = m.get("model"), m.get("spec"), m.get("kf")
        if mout is None:
            return self.record_violation("model gave no answer " + what, c, out, m)
        if mout == "unmodelled":
            self.stats["unmodelled"] = self.stats.get("unmodelled", 0) + 1
            return
        if mout.startswith("hazard "):
            agree_model = outcomes_agree(out, mout)
        else:
            agree_model = out == mout
        model_ok_spec = (not mout.startswith("hazard ")) and satisfies(spec, mout)
        impl_ok_spec = (not out.startswith("crash")) and "foreign-exception" not in out and satisfies(spec, out)
        if kf:
            entry = next((f for f in self.findings if f["id"] == kf and f.get("status", "known") == "known"), None)
            if entry is None:
                return self.record_violation("region %s is not a listed known finding %s" % (kf, what), c, out, m, stderr)
            if agree_model:
                if not model_ok_spec:
                    self.known_hits.setdefault(kf, {"what": entry["what"], "example": c.model_line or c.impl_line[:160], "impl": out})
                return
            if spec is not None and impl_ok_spec:
                return      # repaired: the implementation now does what the specification says
            return self.record_violation("behaviour in known-finding region %s matches neither the recorded defect nor the specification %s"
                                         % (kf, what), c, out, m, stderr)
        if mout.startswith("hazard "):
            return self.record_violation("model reaches a C-level hazard outside every recorded region " + what, c, out, m, stderr)
        if not agree_model:
            return self.record_violation("implementation differs from the model%s %s" % ("" if impl_ok_spec else " and from the specification", what),
                                         c, out, m, stderr)
        if not model_ok_spec:
            return self.record_violation("implementation and model agree but contradict the specification " + what, c, out, m, stderr)

    def judge_c09(self, c, iraw, mraw, stderr):
        kind = c.meta["kind"]
        if c.model_line:
            self.distinct.add(c.model_line)
        else:
            self.distinct.add(c.meta.get("src", "") + c.meta.get("tbl", ""))
        crashed = iraw.startswith("crash ") or iraw.endswith("diverges")
        parts = iraw.split("|")
        if kind == "call":
            m = split_answer(mraw)
            # values in the domain of the refinement theorems (Spec.canon, executed by the driver on every mb / setitem case)
            if c.model_line.startswith(("mb ", "setitem ")):
                key = "canon_values_checked" if not m.get("nc") else "noncanon_values"
                self.stats[key] = self.stats.get(key, 0) + 1
                if m.get("nc"):
                    self.record_violation("generated value outside Spec.canon (the domain of the refinement theorems)", c, "?", m)
            if c.meta["recv"] is None:
                for key in ("model", "spec"):
                    if key in m:
                        m[key] = re.sub(r" recv=.*$", "", m[key])
            if crashed or "foreign-exception" in iraw:
                out, bad = (iraw if crashed else "foreign-exception"), []
            else:
                out, bad = self.normalise_call(c, parts[-2], parts[-1], c.meta["recv"], c.meta["vars"])
            self.tally(c, out if not out.startswith("ok ") else "ok", m)
            if len(self.samples) < 12 and self.rng.random() < 0.0005:
                self.samples.append({"case": c.model_line, "impl": out, "model": m.get("model"), "spec": m.get("spec")})
            for b in bad:
                self.record_violation(b, c, out, m, stderr)
            return self.verdict(c, out, m, stderr)
        if kind == "seq":
            answers = mraw.split(";;")
            if crashed:
                # a crash inside a sequence: acceptable only when the model's last answer is a hazard in a recorded region
                m = split_answer(answers[-1])
                return self.verdict(c, iraw, m, stderr, "(sequence)")
            cur = c.meta["recv0"]
            k = 2
            for i, (step, ans) in enumerate(zip(c.meta["steps"], answers)):
                m = split_answer(ans)
                if k + len(step[1]) + 2 >= len(parts):
                    return self.record_violation("operation sequence aborted at step %d (%s): %s" % (i, step[0], parts[-1][:120]), c, parts[-1][:200], m, stderr)
                prog, cnt, dump = parts[k + len(step[1])], parts[k + len(step[1]) + 1], parts[k + len(step[1]) + 2]
                k += len(step[1]) + 3
                vars_ = {"X": cur}
                for j, a in enumerate(step[1]):
                    vars_["A%dK%d" % (j, i)] = a
                out, bad = self.normalise_call(c, prog, dump, "X", vars_)
                self.tally(c, out if not out.startswith("ok ") else "ok", m)
                for b in bad:
                    self.record_violation("%s (step %d of a sequence)" % (b, i), c, out, m, stderr)
                before = len(self.violations)
                self.verdict(c, out, m, stderr, "(step %d: %s)" % (i, step[0]))
                d = parse_dump(dump)
                if d is not None:
                    cur = self.sym(d, "X")
                    # count() against the dumped contents
                    if cnt == "ok-" and cur.startswith(("T", "U", "S:", "R:")):
                        if self.sym(d, "C") != "I:%d" % top_len(cur):
                            self.record_violation("count() = %s but the container %s has %d elements" % (self.sym(d, "C"), cur, top_len(cur)), c, out, m)
                if len(self.violations) > before:
                    return
            return
        if kind == "forall":
            m = split_answer(mraw)
            mout = m.get("model", "")
            if crashed:
                return self.record_violation("forall program crashed", c, iraw, m, stderr)
            if c.meta["op"] == "read":
                prog, outp, dump = parts[-3], parts[-2], parts[-1]
                printed = bytes.fromhex(outp[4:]).decode("latin-1")
                nlines = len([ln for ln in printed.split("\n") if ln != ""])
                order = [x for x in mout[3:].split(",") if x != ""] if mout.startswith("ok") else None
                self.tally(c, prog, m)
                if prog != "ok-":
                    return self.record_violation("forall read program failed", c, prog, m, stderr)
                d = parse_dump(dump)
                if self.sym(d, "T") != c.meta["tbl"]:
                    return self.record_violation("forall (read only) changed the table", c, self.sym(d, "T"), m)
                if d["cd"] != 0:
                    return self.record_violation("control stack not empty after forall", c, str(d["cd"]), m)
                if d["syms"].get("T", ("", "sxl1", ""))[1] != "s0l0":
                    return self.record_violation("iterated table still locked after forall", c, d["syms"]["T"][1], m)
                # the order itself is observed through the write programs and the printed scalar tables below
                want = self.expected_print(c.meta["tbl"], order)
                if want is not None and printed != want:
                    return self.record_violation("forall visits the elements in another order / number than forallTrace: printed %r, expected %r"
                                                 % (printed, want), c, printed, m)
                if want is None and order is not None and printed.count("\n") < len(order):
                    return self.record_violation("forall printed fewer lines than elements visited", c, printed, m)
                return
            prog, dump = parts[-2], parts[-1]
            self.tally(c, prog, m)
            d = parse_dump(dump)
            after = self.sym(d, "T")
            if mout.startswith("ok "):
                if prog != "ok-" or after != mout[3:]:
                    return self.record_violation("write through the forall iterator: table is %s (%s), the model gives %s" % (after, prog, mout), c, after, m, stderr)
            elif mout.startswith(("rerr ", "perr ")):
                # the parser already knows the static types: a type mismatch is refused at compile time or at run time
                if not prog.startswith(("rerr ", "perr ")):
                    return self.record_violation("write of a mismatching value through the forall iterator was accepted: %s" % after, c, after, m, stderr)
                if top_len(after) != top_len(c.meta["tbl"]):
                    return self.record_violation("rejected forall write changed the table length", c, after, m)
            if self.sym(d, "V") != c.meta["arg"]:
                return self.record_violation("forall write changed the source variable", c, self.sym(d, "V"), m)
            if d["cd"] != 0 or d["syms"].get("T", ("", "sxl1", ""))[1] != "s0l0":
                return self.record_violation("residue after forall (control depth %d, flags %s)" % (d["cd"], d["syms"]["T"][1]), c, after, m)
            return
        if kind == "tabrand":
            allowed = (mraw[len("model="):] if mraw.startswith("model=") else "").split(";;")
            if crashed:
                return self.record_violation("tab(n, random expression) crashed", c, iraw, {"model": mraw}, stderr)
            prog, dump = parts[-2], parts[-1]
            d = parse_dump(dump)
            out = "ok " + self.sym(d, "R") if prog == "ok-" and d else " ".join(prog.split()[:2])
            self.tally(c, out if not out.startswith("ok ") else "ok", {"model": mraw})
            hits = self.stats.setdefault("tabrand_outcomes", {})
            k = "ok" if out.startswith("ok ") else out
            hits[k] = hits.get(k, 0) + 1
            if out not in allowed:
                return self.record_violation("tab(n, e) with a varying element expression: outcome %s is none of the model's outcomes over all scripts %s"
                                             % (out, allowed), c, out, {"model": mraw}, stderr)
            return
        if kind == "lockp":
            m = split_answer(mraw)
            extra = dict(re.findall(r"(lr|ls|fl)=(\S+)", mraw))
            mout = re.sub(r" (lr|ls|fl)=.*$", "", m.get("model", ""))
            if crashed:
                return self.record_violation("forall lock program crashed", c, iraw, m, stderr)
            prog, dump = parts[-2], parts[-1]
            out = "perr " + prog.split()[1] if prog.startswith("perr ") else ("accept" if (prog == "ok-" or prog.startswith("rerr ")) else prog)
            self.tally(c, out, {"model": mout})
            hits = self.stats.setdefault("lockp_outcomes", {})
            hits[mout] = hits.get(mout, 0) + 1
            if not mout:
                return self.record_violation("model gave no answer (lockp)", c, out, m, stderr)
            # the statement tree (lockStmt / forallEnter / forallLeave) and the flag-level test (lockRefuses) agree
            if (extra.get("lr") == "1") != (extra.get("ls") == "refused"):
                return self.record_violation("model inconsistency: lockRefuses and lockStmt disagree", c, out, m, stderr)
            if mout == "perr 32" and extra.get("lr") != "1":
                return self.record_violation("model inconsistency: CONST_VIOLATION without lockRefuses", c, out, m, stderr)
            if out != mout:
                return self.record_violation("forall lock: compile-time outcome of `%s` is %s, the model (acceptMember with the lock flag of "
                                             "forallEnter/forallLeave) gives %s" % (c.meta["src"], out, mout), c, out, m, stderr)
            d = parse_dump(dump)
            if d is None:
                return self.record_violation("unparsable dump (lockp)", c, out, m, stderr)
            if out.startswith("perr "):
                for nm in ("T", "U"):
                    if self.sym(d, nm) != c.meta["tbl"]:
                        return self.record_violation("a program refused at compile time changed %s" % nm, c, self.sym(d, nm), m, stderr)
            # the flags saved by parse_clause are restored on both exits (normal end, ParseError)
            for nm in ("T", "U"):
                if d["syms"].get(nm, ("", "s0l0", ""))[1] != "s0l0":
                    return self.record_violation("symbol %s keeps flags %s after the statement" % (nm, d["syms"][nm][1]), c, out, m, stderr)
            # a locked table keeps its length whatever the body did
            root_locked = extra.get("fl", "0000")[0] == "1"
            if root_locked and top_len(self.sym(d, "T")) != top_len(c.meta["tbl"]):
                return self.record_violation("the table traversed by forall changed length: %s -> %s (%s)" % (c.meta["tbl"], self.sym(d, "T"), c.meta["src"]),
                                             c, self.sym(d, "T"), m, stderr)
            return
        if kind == "lock":
            if crashed:
                return self.record_violation("forall lock program crashed", c, iraw, {}, stderr)
            prog, dump = parts[-2], parts[-1]
            self.tally(c, prog, {})
            d = parse_dump(dump)
            after = self.sym(d, "T")
            exp = c.meta["expect"]
            if top_len(after) != top_len(c.meta["tbl"]):
                return self.record_violation("the table traversed by forall changed length: %s -> %s (%s)" % (c.meta["tbl"], after, c.meta["src"]), c, after, {}, stderr)
            if exp == "perr32" and not prog.startswith("perr 32"):
                return self.record_violation("changing the iterated table inside forall is not refused with CONST_VIOLATION at compile time: %s -> %s"
                                             % (c.meta["src"], prog), c, prog, {}, stderr)
            if exp == "reject" and not prog.startswith(("perr ", "rerr ")):
                return self.record_violation("statement on the iterated table inside forall accepted: %s -> %s" % (c.meta["src"], prog), c, prog, {}, stderr)
            if exp.startswith("ok") and prog != "ok-":
                return self.record_violation("legal forall body refused: %s -> %s" % (c.meta["src"], prog), c, prog, {}, stderr)
            if d["cd"] != 0 or d["syms"].get("T", ("", "sxl1", ""))[1] != "s0l0":
                return self.record_violation("residue after forall (control depth %d, flags %s)" % (d["cd"], d["syms"]["T"][1]), c, after, {})
            return

    @staticmethod
    def expected_print(tbl, order):
        """text printed by `print e` per visited element, for tables of integers / strings (None: not predicted)"""
        if order is None:
            return ""
        m = re.match(r"T([is])1\[(.*)\]$", tbl)
        if not m:
            return None
        es = [x for x in m.group(2).split(",") if x != ""]
        out = []
        for i in order:
            e = es[int(i)]
            if e.startswith("N:"):
                out.append("null")
            elif e.startswith("I:"):
                out.append(e[2:])
            elif e.startswith("S:"):
                s = bytes.fromhex(e[2:])
                if b"\0" in s:
                    return None
                out.append(s.decode("latin-1"))
            else:
                return None
        return "".join(x + "\n" for x in out)

    def replay(self, rep):
        lines = [(v.get("case"), v.get("impl_ops"), v.get("meta")) for v in rep.get("violations", [])]
        for b in rep.get("broken_ties", []):
            print("  broken: " + b[:300])
        cases = [Case("r%d" % i, ml or "", io, meta) for i, (ml, io, meta) in enumerate(lines) if io]
        if not cases:
            print("replay: no case lines recorded")
            return 1 if rep.get("broken_ties") else 0
        ok, out = build.lean_build(["blocv"])
        hbin = build.harness_build(self.harness)
        impl = run.run_harness(hbin, ["%s %s" % (c.cid, c.impl_line) for c in cases])
        model = run.run_driver(["%s %s" % (c.cid, c.model_line) for c in cases if c.model_line])
        for c in cases:
            print("case=%s\n  impl=%s\n  %s" % (c.model_line or c.meta.get("src"), impl.get(c.cid), model.get(c.cid)))
            self.judge_c09(c, impl.get(c.cid, "?"), model.get(c.cid, ""), impl.get(c.cid + "#stderr", ""))
        for v in self.violations:
            print("VIOLATION property=%s %s: case=%s" % (self.pid, v["what"], v["case"] or v["meta"].get("src")))
        return 1 if self.violations else 0
