"""C16 — an untrusted context can never obtain an object of a module it was not granted.

Complete enumeration of the permission configurations, driven through the C++ classes and through the C API, against
the Lean model `Plugin.Perm` (driver command `perm`). Every case is one host history:

  plugreset | [another, trusted context imports the module] | [unban …] | create the context (C++ trusted / C++
  untrusted / flag flipped either way before compiling / C API) | import step (by name, by path, through an included
  file, none) | use step (constructor at top level / in a function body + call / in a clone / after a typed
  declaration / in an included file) | [clear permissions] | run every executable that compiled | event log

Observed and compared step by step: accepted / which refusal (the refusals are told apart by their message text),
whether the module is registered in the process, which objects the verification module reports as created. On top of
Impl = Model, the property itself is evaluated here on the implementation's answers (`spec_check`): a constructor
compiled in an untrusted context whose exact spelling is not in the granted list at that moment must not compile, path
imports and includes must be refused with their own message, and no creation event may follow."""
import itertools
import os
import tempfile

from ..core import Case
from ..run import hx
from ..vmodcheck import VmodCheck

TRUST = ["t", "u", "u2t", "t2u", "capi"]
GRANT = ["granted", "granted_twice", "not", "cleared", "cleared_after_compile", "other_spelling", "other_module"]
PLACE = ["top", "func", "clone", "typed", "include"]
IMPORT = ["name", "path", "include", "none"]
SPELL = ["vmod", "VMOD", "Vmod"]

MSG_CLASS = [
    ("Access to the plugin is restricted", "restricted-ctor"),
    ("Importing a module from a path is not allowed", "restricted-path"),
    ("Including another source is restricted", "restricted-include"),
    ("Too many nested inclusions", "too-nested"),
    ("Import module", "import-failed"),
    ("Failed to include source", "include-failed"),
    ("Failed to open file", "include-failed"),
    ("is undefined", "undefined"),
]


def classify(res):
    """probe answer of parsem/capiparse -> class name of the model"""
    if res == "ok":
        return "ok"
    if res.startswith("perr "):
        parts = res.split(" ")
        msg = bytes.fromhex(parts[2]).decode("latin-1") if len(parts) > 2 and parts[2] != "-" else ""
        for pat, cls in MSG_CLASS:
            if pat in msg:
                return "perr:" + cls
        return "perr:other(%s:%s)" % (parts[1], msg[:60])
    return res


class Builder:
    """builds the probe ops and the model words of one history side by side"""

    def __init__(self, cid, info, tmpdir):
        self.cid, self.info, self.tmpdir = cid, info, tmpdir
        self.ops, self.words, self.files = ["plugreset"], [], []
        self.kinds = ["-"]          # per probe op: what to compare ('parse', 'run', 'flag', '-')
        self.nctx = 0
        self.nexe = 0
        self.capi = {}              # ctx index -> bool
        self.nfile = 0

    def add(self, op, word, kind="-"):
        self.ops.append(op)
        self.kinds.append(kind)
        if word is not None:
            self.words.append(word)

    def unban(self, name, api):
        self.add("unban %s %s" % (api, hx(name)), "unban:" + name)

    def clear(self, api):
        self.add("clearperm %s" % api, "clear")

    def new(self, trust):
        k = self.nctx
        self.nctx += 1
        self.capi[k] = trust == "capi"
        if trust == "capi":
            self.add("capinew %d" % k, "new:u")
        elif trust in ("t", "t2u"):
            self.add("new %d t" % k, "new:t")
        else:
            self.add("new %d" % k, "new:u")
        if trust == "u2t":
            self.add("trust %d 1" % k, "trust:%d:1" % k)
        if trust == "t2u":
            self.add("trust %d 0" % k, "trust:%d:0" % k)
        return k

    def clone(self, k):
        j = self.nctx
        self.nctx += 1
        self.capi[j] = self.capi[k]
        self.add(("capiclone %d %d" if self.capi[k] else "clone %d %d") % (k, j), "clone:%d" % k)
        return j

    def mkfile(self, text, prog):
        name = "F%d" % self.nfile
        self.nfile += 1
        path = os.path.join(self.tmpdir, "%s_%s.bloc" % (self.cid, name))
        self.add("mkfile %s %s" % (hx(path), hx(text)), None)
        self.files.append("file:%s=%s" % (name, prog))
        return name, path

    def compile(self, k, text, prog):
        x = self.nexe
        self.nexe += 1
        self.add(("capiparse %d %d %s" if self.capi[k] else "parsem %d %d %s") % (k, x, hx(text)), "compile:%d:%s" % (k, prog), "parse")
        return x

    def run(self, x, k):
        self.add("run %d %d" % (x, k), None)
        self.add("vlog", "run:%d:%d" % (x, k), "run")

    def flag(self, k):
        self.add("istrusted %d" % k, "istrusted:%d" % k, "flag")

    def loaded(self, name):
        self.add("loaded %s" % hx(name), "loaded:" + name, "flag")


def ctor_text(spell, mod, form="arg"):
    # the module's real name with the case changed as `spell` says; `form`: a constructor with an argument, or the
    # default constructor `name()` (a separate early-return path of ComplexCTORExpression::parse)
    name = {"vmod": mod, "VMOD": mod.upper(), "Vmod": mod.capitalize()}[spell]
    arg = "" if form == "noarg" else ('";"' if mod == "csv" else "1")
    return name, "XO = %s(%s);" % (name, arg)


class C16(VmodCheck):
    pid = "C16"
    proof_modules = ["BlocV.Proofs.C16"]
    rule = ("complete product {context trusted / untrusted / flag flipped either way before compiling / created through "
            "the C API} x {module granted / not / granted then cleared / cleared after compilation / another spelling "
            "granted / another module granted} x {module already imported by a trusted context or not} x {constructor "
            "at top level / in a function body / in a clone / after a typed declaration / in an included file} x "
            "{import by name / by path / through an included file / none} x {exact name, upper case, capitalised} x "
            "{constructor with an argument / default constructor name()} x "
            "{vmod, csv} x {unban through the C API / the C++ class}; each case is a host history replayed on the "
            "library (C++ classes or C API) and on the Lean model; compared: every compile outcome (kind of refusal by "
            "message), module registration, trusted flag of clones, creation events of the verification module; the "
            "property is also evaluated directly on the implementation's answers; every history ends with the host clearing "
            "the permissions and a brand-new untrusted context attempting the constructor (must be refused). distinct = history text.")
    trusted_base = VmodCheck.trusted_base + ["harness/vmod (event log of the verification module)"]
    EXTRA_FINDINGS = []

    def gen_cases(self):
        self.stats["exhaustive"] = True
        tmpdir = tempfile.mkdtemp(prefix="blocv-c16-", dir="/var/tmp")
        self.tmpdir = tmpdir
        info = self.vinfo
        cases = []
        n = 0
        mods = ["vmod", "csv"]
        apis = ["api", "cpp"]
        quick = self.tier == "quick"
        for trust, grant, preload, place, imp, spell, mod, api, form in itertools.product(
                TRUST, GRANT, [False, True], PLACE, IMPORT, SPELL, mods, apis, ["arg", "noarg"]):
            # the default constructor: every trust x grant x place x import, with the exact spelling through the C API
            if form == "noarg" and (spell != "vmod" or api == "cpp" or mod == "csv"):
                continue
            # reductions that lose no configuration class: csv and the C++ unban entry point only with the exact spelling
            if mod == "csv" and (spell != "vmod" or api == "cpp"):
                continue
            if api == "cpp" and spell != "vmod":
                continue
            if quick and mod == "csv" and place in ("typed",) and imp == "include":
                continue
            n += 1
            cid = "p%d" % n
            b = Builder(cid, info, tmpdir)
            path = info["%s_path" % mod] if mod != "csv" else info["csv_path"]
            name, ctext = ctor_text(spell, mod, form)
            granted_now = set()
            if preload:
                k0 = b.new("t")
                b.compile(k0, "import %s;" % mod, "in." + mod)
            if grant in ("granted", "granted_twice", "cleared", "cleared_after_compile"):
                b.unban(mod, api); granted_now.add(mod)
                if grant == "granted_twice":
                    b.unban(mod, api)
            elif grant == "other_spelling":
                b.unban(mod.upper(), api); granted_now.add(mod.upper())
            elif grant == "other_module":
                b.unban("vmod2", api); granted_now.add("vmod2")
            if grant == "cleared":
                b.clear(api); granted_now.clear()
            k = b.new(trust)
            trusted = trust in ("t", "u2t")
            b.flag(k)
            exes = []
            expect = []       # spec expectations on this history
            # import step
            if imp == "name":
                b.compile(k, "import %s;" % mod, "in." + mod)
            elif imp == "path":
                b.compile(k, 'import "%s";' % path, "ip.P_" + mod)
                expect.append(("parse", len(b.ops) - 1, "ok-or-other" if trusted else "perr:restricted-path"))
            elif imp == "include":
                fname, fpath = b.mkfile("import %s;\n" % mod, "in." + mod)
                b.compile(k, 'include "%s";' % fpath, "inc." + fname)
                expect.append(("parse", len(b.ops) - 1, "ok-or-other" if trusted else "perr:restricted-include"))
            b.loaded(mod)
            # use step
            ck = k
            if place == "clone":
                ck = b.clone(k)
                b.flag(ck)
            if place == "top" or place == "clone":
                x = b.compile(ck, ctext, "c." + name)
                exes.append((x, ck))
            elif place == "func":
                x = b.compile(ck, "function FF() return integer is begin %s return 1; end;\nZZ = FF();" % ctext,
                              "f.FF(c.%s);call.FF" % name)
                exes.append((x, ck))
            elif place == "typed":
                b.compile(ck, "YO : %s;" % name, "t." + name)
                x = b.compile(ck, ctext, "c." + name)
                exes.append((x, ck))
            elif place == "include":
                fname, fpath = b.mkfile(ctext + "\n", "c." + name)
                x = b.compile(ck, 'include "%s";' % fpath, "inc." + fname)
                exes.append((x, ck))
            use_op = len(b.ops) - 1
            may = trusted or (name in granted_now)
            if not may:
                expect.append(("noobject", use_op, None))
            if grant == "cleared_after_compile":
                b.clear(api)
            for x, kk in exes:
                b.run(x, kk)
            # afterwards (every history): the host clears the permissions; a brand-new untrusted context must be refused,
            # whatever was granted, compiled or run before (no memory of an earlier grant)
            if grant != "cleared_after_compile":
                b.clear(api)
            k9 = b.new("u")
            x9 = b.compile(k9, ctext, "c." + name)
            expect.append(("noobject", len(b.ops) - 1, None))
            b.run(x9, k9)
            meta = {"trust": trust, "grant": grant, "preload": preload, "place": place, "import": imp, "spell": spell,
                    "mod": mod, "api": api, "kinds": b.kinds, "expect": expect}
            cases.append(Case(cid, "perm " + " ".join(b.files + b.words), "|".join(b.ops), meta))
        self.stats["cases"] = n
        return cases

    def case_timeout(self):
        return 20

    def judge(self, c, iraw, m, stderr):
        if iraw.startswith("crash ") or iraw.endswith("diverges"):
            self.tally(c, iraw, m)
            self.record_violation("the library crashed on a permission history", c, iraw, m, stderr)
            return
        parts = iraw.split("|")
        kinds = c.meta["kinds"]
        if len(parts) != len(kinds):
            self.record_violation("probe answered %d ops for %d" % (len(parts), len(kinds)), c, iraw, m, stderr)
            return
        seen = []
        for res, kind in zip(parts, kinds):
            if kind == "parse":
                seen.append(classify(res))
            elif kind == "run":
                lines = [l for l in res[4:].split("~") if l]
                mods = [l.split(" ")[1].split("#")[0] for l in lines if l.startswith("C ")]
                seen.append("run=" + ",".join(mods))
            elif kind == "flag":
                seen.append(res)
        mouts = (m.get("model") or "").split("|")
        # the model answers every word; keep those of the compared kinds (compile / run / flags)
        mseen = [o for o in mouts if o.startswith(("perr:", "run=", "ld=", "t=")) or o == "ok" and False]
        # rebuild the model sequence aligned with `seen`: walk the words
        words = [w for w in c.model_line.split(" ")[1:] if not w.startswith("file:")]
        mseq = []
        for w, o in zip(words, mouts):
            if w.startswith(("compile:", "run:", "loaded:", "istrusted:")):
                mseq.append(o)
        # csv objects are not logged by an instrumented module: compare only that the run happened
        if c.meta["mod"] == "csv":
            seen = [("run=" if s.startswith("run=") else s) for s in seen]
            mseq = [("run=" if s.startswith("run=") else s) for s in mseq]
        iout = ";".join(seen)
        mout = ";".join(mseq)
        self.distinct.add(c.impl_line)
        d = self.stats.setdefault("impl_outcomes", {})
        for s in seen:
            key = s if not s.startswith("run=") else ("run:objects" if len(s) > 4 else "run:none")
            d[key] = d.get(key, 0) + 1
        if len(self.samples) < 12 and self.rng.random() < 0.01:
            self.samples.append({"case": c.model_line, "impl": iout, "model": mout})
        if "!spec" in mout:
            self.record_violation("the model itself creates an object without permission", c, iout, {"model": mout}, stderr)
            return
        # the property evaluated on the implementation's own answers
        for what, opi, want in c.meta["expect"]:
            res = parts[opi]
            if what == "parse" and want.startswith("perr:") and classify(res) != want:
                self.record_violation("an untrusted context was not refused (%s expected)" % want, c, iout, {"model": mout, "spec": want}, stderr)
                return
            if what == "noobject":
                if classify(res) == "ok" and c.meta["mod"] != "csv" and any(s.startswith("run=") and len(s) > 4 for s in seen):
                    self.record_violation("an untrusted context obtained an object of a module that was not granted", c, iout,
                                          {"model": mout, "spec": "no object"}, stderr)
                    return
                if classify(res) == "ok":
                    self.record_violation("a constructor of a non-granted module compiled in an untrusted context", c, iout,
                                          {"model": mout, "spec": "perr:restricted-ctor"}, stderr)
                    return
        if iout != mout:
            self.record_violation("implementation differs from the model", c, iout, {"model": mout}, stderr)

    def finish(self):
        import shutil
        if getattr(self, "tmpdir", None):
            shutil.rmtree(self.tmpdir, ignore_errors=True)
        return super().finish()

    def replay(self, rep):
        return self.run()
