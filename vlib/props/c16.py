"""C16 — an untrusted context can never obtain an object of a module it was not granted.

Complete enumeration of the permission configurations, driven through the C++ classes and through the C API, against
the Lean model `Plugin.Perm` (driver command `perm`). Every case is one host history:

  plugreset | [another, trusted context imports the module] | [unban …] | create the context (C++ trusted / C++
  untrusted / flag flipped either way before compiling / C API) | import step (by name, by path, through an included
  file, none) | use step (constructor at top level / in a function body + call / in a clone / after a typed
  declaration / in an included file) | [clear permissions] | run every executable that compiled | event log

Observed and compared step by step: accepted / which refusal (the refusals are told apart by their message text),
whether the module is registered in the process, which objects the verification module reports as created. On top of
Impl = Model, the property itself is evaluated here on the implementation's answers (`spec_check`): a constructor
compiled in an untrusted context whose exact spelling is not in the granted list at that moment must not compile, path
imports and includes must be refused with their own message, and no creation event may follow."""
import itertools
import os
import tempfile

from ..core import Case
from ..run import hx
from ..vmodcheck import VmodCheck

TRUST = ["t", "u", "u2t", "t2u", "capi"]
GRANT = ["granted", "granted_twice", "not", "cleared", "cleared_after_compile", "other_spelling", "other_module"]
PLACE = ["top", "func", "clone", "typed", "include"]
IMPORT = ["name", "path", "include", "none"]
SPELL = ["vmod", "VMOD", "Vmod"]

MSG_CLASS = [
    ("Access to the plugin is restricted", "restricted-ctor"),
    ("Importing a module from a path is not allowed", "restricted-path"),
    ("Including another source is restricted", "restricted-include"),
    ("Too many nested inclusions", "too-nested"),
    ("Import module", "import-failed"),
    ("Failed to include source", "include-failed"),
    ("Failed to open file", "include-failed"),
    ("is undefined", "undefined"),
]


def classify(res):
    """probe answer of parsem/capiparse -> class name of the model"""
    if res == "ok":
        return "ok"
    if res.startswith("perr "):
        parts = res.split(" ")
        msg = bytes.fromhex(parts[2]).decode("latin-1") if len(parts) > 2 and parts[2] != "-" else ""
        for pat, cls in MSG_CLASS:
            if pat in msg:
                return "perr:" + cls
        # any other rejection: a text the parser refuses for a reason that has nothing to do with permissions
        return "perr:syntax"
    return res


class Builder:
    """builds the probe ops and the model words of one history side by side"""

    def __init__(self, cid, info, tmpdir):
        self.cid, self.info, self.tmpdir = cid, info, tmpdir
        self.ops, self.words, self.files = ["plugreset"], [], []
        self.kinds = ["-"]          # per probe op: what to compare ('parse', 'run', 'flag', '-')
        self.nctx = 0
        self.nexe = 0
        self.capi = {}              # ctx index -> bool
        self.nfile = 0

    def add(self, op, word, kind="-"):
        self.ops.append(op)
        self.kinds.append(kind)
        if word is not None:
            self.words.append(word)

    def unban(self, name, api):
        self.add("unban %s %s" % (api, hx(name)), "unban:" + name)

    def clear(self, api):
        self.add("clearperm %s" % api, "clear")

    def new(self, trust):
        k = self.nctx
        self.nctx += 1
        self.capi[k] = trust == "capi"
        if trust == "capi":
            self.add("capinew %d" % k, "new:u")
        elif trust in ("t", "t2u"):
            self.add("new %d t" % k, "new:t")
        else:
            self.add("new %d" % k, "new:u")
        if trust == "u2t":
            self.add("trust %d 1" % k, "trust:%d:1" % k)
        if trust == "t2u":
            self.add("trust %d 0" % k, "trust:%d:0" % k)
        return k

    def clone(self, k):
        j = self.nctx
        self.nctx += 1
        self.capi[j] = self.capi[k]
        self.add(("capiclone %d %d" if self.capi[k] else "clone %d %d") % (k, j), "clone:%d" % k)
        return j

    def mkfile(self, text, prog):
        name = "F%d" % self.nfile
        self.nfile += 1
        path = os.path.join(self.tmpdir, "%s_%s.bloc" % (self.cid, name))
        self.add("mkfile %s %s" % (hx(path), hx(text)), None)
        self.files.append("file:%s=%s" % (name, prog))
        return name, path

    def compile(self, k, text, prog):
        x = self.nexe
        self.nexe += 1
        self.add(("capiparse %d %d %s" if self.capi[k] else "parsem %d %d %s") % (k, x, hx(text)), "compile:%d:%s" % (k, prog), "parse")
        return x

    def run(self, x, k):
        self.add("run %d %d" % (x, k), None)
        self.add("vlog", "run:%d:%d" % (x, k), "run")

    def flag(self, k):
        self.add("istrusted %d" % k, "istrusted:%d" % k, "flag")

    def traceflag(self, k):
        self.add("istrace %d" % k, "istrace:%d" % k, "flag")

    def settrace(self, k, b):
        self.add("settrace %d %d" % (k, b), "settrace:%d:%d" % (k, b))

    def trust(self, k, b):
        self.add("trust %d %d" % (k, b), "trust:%d:%d" % (k, b))

    def purge(self, k):
        self.add("purge %d" % k, "purge:%d" % k)

    def free(self, k):
        self.add("free %d" % k, "free:%d" % k)

    def loaded(self, name):
        self.add("loaded %s" % hx(name), "loaded:" + name, "flag")


def ctor_text(spell, mod, form="arg"):
    # the module's real name with the case changed as `spell` says; `form`: a constructor with an argument, or the
    # default constructor `name()` (a separate early-return path of ComplexCTORExpression::parse)
    name = {"vmod": mod, "VMOD": mod.upper(), "Vmod": mod.capitalize()}[spell]
    arg = "" if form == "noarg" else ('";"' if mod == "csv" else "1")
    return name, "XO = %s(%s);" % (name, arg)


# ---------------------------------------------------------------- host histories (the whole host surface)
# one letter = one host event on the CURRENT context (the latest clone after `W`)
EVENTS = {
    "G": "grant the module", "R": "clear the permissions", "P": "purge", "C": "clone", "W": "switch to the latest clone",
    "F": "free the current context (another one takes over)", "E": "a text the parser rejects", "X": "a run-time error",
    "Y": "constructor then run-time error in one program", "T": "trace statement", "S": "trace switch of the host",
    "U": "constructor at top level + run", "D": "define a function containing the constructor", "K": "call that function",
    "I": "include a file containing the constructor", "Q": "import by path", "N": "import by name",
    "O": "run again the last executable compiled for a constructor (compiled before whatever happened since)",
    "t": "Context::trusted(true)", "u": "Context::trusted(false)", "M": "a brand-new untrusted context takes over",
}


class History:
    """builds one host history (probe ops + model words) and the expectations that follow from the PROPERTY alone:
    the trusted bit of every context after every event (only `t`/`u` on that context change it, a clone inherits it), the
    refusals an untrusted context must get"""

    def __init__(self, b, mod, path, base, api):
        self.b, self.mod, self.path, self.base, self.api = b, mod, path, base, api
        self.trusted = {}        # ctx -> bool (what the property says it must be)
        self.capi = {}
        self.hist = {}           # ctx -> tuple of compile ids (symbol-table lineage)
        self.granted = False
        self.last_exe = None     # (x, home ctx, lineage after its compile)
        self.expect = []
        self.ncomp = 0
        self.clones = []
        self.cur = self.new(base)

    def new(self, trust):
        k = self.b.new(trust)
        self.trusted[k] = trust in ("t", "u2t")
        self.capi[k] = trust == "capi"
        self.hist[k] = ()
        return k

    def live(self):
        return sorted(self.trusted)

    def compile(self, text, prog, ctor=False, refusal=None, run=True):
        k = self.cur
        x = self.b.compile(k, text, prog)
        opi = len(self.b.ops) - 1
        self.ncomp += 1
        self.hist[k] = self.hist[k] + (self.ncomp,)
        if refusal and not self.trusted[k]:
            self.expect.append(("parse", opi, refusal))
        if ctor and not self.trusted[k] and not self.granted:
            self.expect.append(("noobject", opi, None))
        if run:
            self.b.run(x, k)
        return x

    def event(self, e):
        """returns False when the event does not apply in the current state (the sequence is dropped)"""
        b, k, mod = self.b, self.cur, self.mod
        ctor = "XO = %s(1);" % mod
        if e == "G":
            b.unban(mod, self.api); self.granted = True
        elif e == "R":
            b.clear(self.api); self.granted = False
        elif e == "P":
            b.purge(k); self.hist[k] = ()
        elif e == "C":
            if len(self.trusted) >= 6:
                return False
            j = b.clone(k)
            self.trusted[j] = self.trusted[k]; self.capi[j] = self.capi[k]; self.hist[j] = self.hist[k]
            self.clones.append(j)
        elif e == "W":
            live = [j for j in self.clones if j in self.trusted and j != k]
            if not live:
                return False
            self.cur = live[-1]
        elif e == "F":
            others = [j for j in self.live() if j != k]
            if not others:
                return False
            b.free(k)
            del self.trusted[k]
            if self.last_exe and self.last_exe[1] == k:
                self.last_exe = None
            self.cur = others[-1]
        elif e == "E":
            self.compile("XO = ;", "bad", run=False)
        elif e == "X":
            self.compile("raise BOOM;", "raise")
        elif e == "Y":
            self.compile(ctor + "\nraise BOOM;", "c.%s;raise" % mod, ctor=True)
        elif e == "T":
            self.compile("trace true;", "tr.1")
        elif e == "S":
            b.settrace(k, 1)
        elif e == "U":
            x = self.compile(ctor, "c." + mod, ctor=True)
            self.last_exe = (x, k, self.hist[k])
        elif e == "D":
            self.compile("function FF() return integer is begin %s return 1; end;" % ctor, "f.FF(c.%s)" % mod, ctor=True, run=False)
        elif e == "K":
            self.compile("ZZ = FF();", "call.FF")
        elif e == "I":
            fname, fpath = b.mkfile(ctor + "\n", "c." + mod)
            self.compile('include "%s";' % fpath, "inc." + fname, ctor=True, refusal="perr:restricted-include")
        elif e == "Q":
            self.compile('import "%s";' % self.path, "ip.P_" + mod, refusal="perr:restricted-path", run=False)
        elif e == "N":
            self.compile("import %s;" % mod, "in." + mod, run=False)
        elif e == "O":
            le = self.last_exe
            if not le or le[1] not in self.trusted or self.hist[k][:len(le[2])] != le[2]:
                return False
            b.run(le[0], k)
        elif e in ("t", "u"):
            if self.capi[k]:
                return False
            b.trust(k, 1 if e == "t" else 0)
            self.trusted[k] = e == "t"
        elif e == "M":
            if len(self.trusted) >= 6:
                return False
            self.cur = self.new("capi" if self.base == "capi" else "u")
        else:
            raise ValueError(e)
        # after EVERY event: the trusted bit of every live context, as the property says it must be
        for j in self.live():
            b.flag(j)
            self.expect.append(("flag", len(b.ops) - 1, "t=1" if self.trusted[j] else "t=0"))
        if e in ("P", "C", "S", "T"):
            b.traceflag(self.cur)
        return True


class C16(VmodCheck):
    pid = "C16"
    proof_modules = ["BlocV.Proofs.C16"]
    rule = ("complete product {context trusted / untrusted / flag flipped either way before compiling / created through "
            "the C API} x {module granted / not / granted then cleared / cleared after compilation / another spelling "
            "granted / another module granted} x {module already imported by a trusted context or not} x {constructor "
            "at top level / in a function body / in a clone / after a typed declaration / in an included file} x "
            "{import by name / by path / through an included file / none} x {exact name, upper case, capitalised} x "
            "{constructor with an argument / default constructor name()} x "
            "{vmod, csv} x {unban through the C API / the C++ class}; each case is a host history replayed on the "
            "library (C++ classes or C API) and on the Lean model; compared: every compile outcome (kind of refusal by "
            "message), module registration, trusted flag of clones, creation events of the verification module; the "
            "property is also evaluated directly on the implementation's answers; every history ends with the host clearing "
            "the permissions and a brand-new untrusted context attempting the constructor (must be refused). distinct = history text.")
    trusted_base = VmodCheck.trusted_base + ["harness/vmod (event log of the verification module)"]
    EXTRA_FINDINGS = [
        {"property": "C16", "id": "C16.deinit_reassigns_type_ids", "status": "known",
         "site": "blocc/plugin_manager.cpp PluginManager::destroy / registerModule; blocc/expression_complex_ctor.cpp (a compiled constructor keeps the numeric type id)",
         "what": "bloc_deinit_plugins() in the middle of a session (the header says it SHOULD be called on program exit, nothing enforces it) "
                 "deletes the PluginManager: the grant list is forgotten and the module type ids are handed out again from 1. An executable or "
                 "function body compiled before keeps the numeric id of the module it was compiled for: if another module is imported first "
                 "afterwards (any context may import by name), running the old constructor creates an object of THAT module - in an untrusted "
                 "context, although that module was never granted (with the argument list and constructor number of the other module)",
         "witness": "bloc_unban_plugin(\"vmod\"); untrusted ctx: import vmod; x = parse(\"XO = vmod(1);\"); bloc_deinit_plugins(); other ctx: import vmod2; execute(x) -> an object of vmod2",
         "why_recorded": "C16 says an untrusted context can create an object of a module only if the host granted that module by name; here the host granted vmod and the script obtains a vmod2 object. Needs a host that calls bloc_deinit_plugins mid-session and keeps executables."},
    ]

    def gen_cases(self):
        self.stats["exhaustive"] = True
        tmpdir = tempfile.mkdtemp(prefix="blocv-c16-", dir="/var/tmp")
        self.tmpdir = tmpdir
        info = self.vinfo
        cases = []
        n = 0
        mods = ["vmod", "csv"]
        apis = ["api", "cpp"]
        quick = self.tier == "quick"
        for trust, grant, preload, place, imp, spell, mod, api, form in itertools.product(
                TRUST, GRANT, [False, True], PLACE, IMPORT, SPELL, mods, apis, ["arg", "noarg"]):
            # the default constructor: every trust x grant x place x import, with the exact spelling through the C API
            if form == "noarg" and (spell != "vmod" or api == "cpp" or mod == "csv"):
                continue
            # reductions that lose no configuration class: csv and the C++ unban entry point only with the exact spelling
            if mod == "csv" and (spell != "vmod" or api == "cpp"):
                continue
            if api == "cpp" and spell != "vmod":
                continue
            if quick and mod == "csv" and place in ("typed",) and imp == "include":
                continue
            n += 1
            cid = "p%d" % n
            b = Builder(cid, info, tmpdir)
            path = info["%s_path" % mod] if mod != "csv" else info["csv_path"]
            name, ctext = ctor_text(spell, mod, form)
            granted_now = set()
            if preload:
                k0 = b.new("t")
                b.compile(k0, "import %s;" % mod, "in." + mod)
            if grant in ("granted", "granted_twice", "cleared", "cleared_after_compile"):
                b.unban(mod, api); granted_now.add(mod)
                if grant == "granted_twice":
                    b.unban(mod, api)
            elif grant == "other_spelling":
                b.unban(mod.upper(), api); granted_now.add(mod.upper())
            elif grant == "other_module":
                b.unban("vmod2", api); granted_now.add("vmod2")
            if grant == "cleared":
                b.clear(api); granted_now.clear()
            k = b.new(trust)
            trusted = trust in ("t", "u2t")
            b.flag(k)
            exes = []
            expect = []       # spec expectations on this history
            # import step
            if imp == "name":
                b.compile(k, "import %s;" % mod, "in." + mod)
            elif imp == "path":
                b.compile(k, 'import "%s";' % path, "ip.P_" + mod)
                expect.append(("parse", len(b.ops) - 1, "ok-or-other" if trusted else "perr:restricted-path"))
            elif imp == "include":
                fname, fpath = b.mkfile("import %s;\n" % mod, "in." + mod)
                b.compile(k, 'include "%s";' % fpath, "inc." + fname)
                expect.append(("parse", len(b.ops) - 1, "ok-or-other" if trusted else "perr:restricted-include"))
            b.loaded(mod)
            # use step
            ck = k
            if place == "clone":
                ck = b.clone(k)
                b.flag(ck)
            if place == "top" or place == "clone":
                x = b.compile(ck, ctext, "c." + name)
                exes.append((x, ck))
            elif place == "func":
                x = b.compile(ck, "function FF() return integer is begin %s return 1; end;\nZZ = FF();" % ctext,
                              "f.FF(c.%s);call.FF" % name)
                exes.append((x, ck))
            elif place == "typed":
                b.compile(ck, "YO : %s;" % name, "t." + name)
                x = b.compile(ck, ctext, "c." + name)
                exes.append((x, ck))
            elif place == "include":
                fname, fpath = b.mkfile(ctext + "\n", "c." + name)
                x = b.compile(ck, 'include "%s";' % fpath, "inc." + fname)
                exes.append((x, ck))
            use_op = len(b.ops) - 1
            may = trusted or (name in granted_now)
            if not may:
                expect.append(("noobject", use_op, None))
            if grant == "cleared_after_compile":
                b.clear(api)
            for x, kk in exes:
                b.run(x, kk)
            # afterwards (every history): the host clears the permissions; a brand-new untrusted context must be refused,
            # whatever was granted, compiled or run before (no memory of an earlier grant)
            if grant != "cleared_after_compile":
                b.clear(api)
            k9 = b.new("u")
            x9 = b.compile(k9, ctext, "c." + name)
            expect.append(("noobject", len(b.ops) - 1, None))
            b.run(x9, k9)
            meta = {"trust": trust, "grant": grant, "preload": preload, "place": place, "import": imp, "spell": spell,
                    "mod": mod, "api": api, "kinds": b.kinds, "expect": expect}
            cases.append(Case(cid, "perm " + " ".join(b.files + b.words), "|".join(b.ops), meta))
        self.stats["product_cases"] = n
        cases += self.history_cases(tmpdir, info)
        # bloc_deinit_plugins in mid-session (not in the model's alphabet: evaluated on the library's answers alone)
        for first, cid in (("vmod2", "d1"), ("vmod", "d2")):
            ops = ["plugreset", "unban api %s" % hx("vmod"), "capinew 0", "capiparse 0 0 %s" % hx("import vmod;\n"),
                   "capiparse 0 1 %s" % hx("XO = vmod(1);\n"), "deinit", "capinew 1", "capiparse 1 2 %s" % hx("import %s;\n" % first),
                   "banned %s" % hx("vmod2"), "run 1 0", "vlog", "free 0", "free 1", "vlog"]
            cases.append(Case(cid, "", "|".join(ops), {"family": "deinit", "first": first, "mod": "vmod", "kinds": [], "expect": []}))
        self.stats["cases"] = len(cases)
        return cases

    def history_cases(self, tmpdir, info):
        """host histories over the whole alphabet EVENTS: every sequence of two events (thorough: three) from each start
        {C++ untrusted, C++ trusted, C API} x {nothing granted, module granted and imported}, plus seeded random longer
        ones; each ends with a constructor attempt in the current context and in a brand-new untrusted one"""
        quick = self.tier == "quick"
        letters = sorted(EVENTS)
        seqs = [()] + [(a,) for a in letters] + list(itertools.product(letters, repeat=2))
        if not quick:
            seqs += list(itertools.product(letters, repeat=3))
        nrand = 1200 if quick else 6000
        for _ in range(nrand):
            seqs.append(tuple(self.rng.choice(letters) for _ in range(self.rng.randint(3, 7))))
        cases, n, dropped = [], 0, 0
        hist_len, ev_count = {}, {}
        for seq in seqs:
            for base in ("u", "t", "capi"):
                for start in ("bare", "granted"):
                    if len(seq) > 2 and quick and self.rng.random() < 0.5:
                        continue
                    cid = "h%d" % (n + 1)
                    b = Builder(cid, info, tmpdir)
                    api = "api" if base == "capi" or n % 2 else "cpp"
                    h = History(b, "vmod", info["vmod_path"], base, api)
                    ok = True
                    if start == "granted":
                        ok = h.event("G") and h.event("N")
                    for e in seq:
                        if not ok:
                            break
                        ok = h.event(e)
                    if not ok:
                        dropped += 1
                        continue
                    # the end of every history: a constructor attempt where we are, then the host revokes everything and a
                    # brand-new untrusted context tries
                    h.event("N")
                    h.event("U")
                    h.event("R")
                    h.event("M")
                    h.event("U")
                    n += 1
                    hist_len[len(seq)] = hist_len.get(len(seq), 0) + 1
                    for e in seq:
                        ev_count[e] = ev_count.get(e, 0) + 1
                    meta = {"family": "history", "seq": "".join(seq), "base": base, "start": start, "mod": "vmod",
                            "kinds": b.kinds, "expect": h.expect}
                    cases.append(Case(cid, "perm " + " ".join(b.files + b.words), "|".join(b.ops), meta))
        self.stats["history_cases"] = n
        self.stats["history_dropped_inapplicable"] = dropped
        self.stats["history_length_distribution"] = {str(k): v for k, v in sorted(hist_len.items())}
        self.stats["history_event_distribution"] = dict(sorted(ev_count.items()))
        self.stats["history_alphabet"] = EVENTS
        return cases

    def case_timeout(self):
        return 20

    def judge(self, c, iraw, m, stderr):
        if c.meta.get("family") == "deinit":
            self.distinct.add(c.impl_line)
            parts = iraw.split("|")
            made = [l.split(" ")[1].split("#")[0] for p in parts if p.startswith("log=") for l in p[4:].split("~") if l.startswith("C ")]
            d = self.stats.setdefault("deinit_outcomes", {})
            key = "first=%s:created=%s" % (c.meta["first"], ",".join(made) or "-")
            d[key] = d.get(key, 0) + 1
            if iraw.startswith("crash ") or iraw.endswith("diverges"):
                return self.record_violation("the library crashed after bloc_deinit_plugins", c, iraw, m, stderr)
            if "vmod2" in made:
                # vmod2 was never granted: the property is violated; recorded finding
                if not self.hit("C16.deinit_reassigns_type_ids", c, iraw):
                    self.record_violation("an untrusted context obtained an object of a module that was never granted (after bloc_deinit_plugins)", c, iraw, m, stderr)
            return
        if iraw.startswith("crash ") or iraw.endswith("diverges"):
            self.tally(c, iraw, m)
            self.record_violation("the library crashed on a permission history", c, iraw, m, stderr)
            return
        parts = iraw.split("|")
        kinds = c.meta["kinds"]
        if len(parts) != len(kinds):
            self.record_violation("probe answered %d ops for %d" % (len(parts), len(kinds)), c, iraw, m, stderr)
            return
        seen = []
        for i, (res, kind) in enumerate(zip(parts, kinds)):
            if kind == "parse":
                seen.append(classify(res))
            elif kind == "run":
                lines = [l for l in res[4:].split("~") if l]
                mods = [l.split(" ")[1].split("#")[0] for l in lines if l.startswith("C ")]
                # the op before the `vlog` is the `run` itself: a run-time error is part of the compared outcome
                seen.append("run=" + ",".join(mods) + ("!rerr" if parts[i - 1].startswith("rerr") else ""))
            elif kind == "flag":
                seen.append(res)
        mouts = (m.get("model") or "").split("|")
        # the model answers every word; keep those of the compared kinds (compile / run / flags)
        mseen = [o for o in mouts if o.startswith(("perr:", "run=", "ld=", "t=")) or o == "ok" and False]
        # rebuild the model sequence aligned with `seen`: walk the words
        words = [w for w in c.model_line.split(" ")[1:] if not w.startswith("file:")]
        mseq = []
        for w, o in zip(words, mouts):
            if w.startswith(("compile:", "run:", "loaded:", "istrusted:", "istrace:")):
                mseq.append(o)
        # csv objects are not logged by an instrumented module: compare only that the run happened
        if c.meta["mod"] == "csv":
            seen = [("run=" if s.startswith("run=") else s) for s in seen]
            mseq = [("run=" if s.startswith("run=") else s) for s in mseq]
        iout = ";".join(seen)
        mout = ";".join(mseq)
        self.distinct.add(c.impl_line)
        d = self.stats.setdefault("impl_outcomes", {})
        for s in seen:
            key = s if not s.startswith("run=") else ("run:objects" if len(s) > 4 else "run:none")
            d[key] = d.get(key, 0) + 1
        if len(self.samples) < 12 and self.rng.random() < 0.01:
            self.samples.append({"case": c.model_line, "impl": iout, "model": mout})
        if c.meta.get("family") == "history":
            hs = self.stats.setdefault("history_samples", [])
            if len(hs) < 8 and self.rng.random() < 0.01:
                hs.append({"seq": c.meta["seq"], "base": c.meta["base"], "start": c.meta["start"], "impl": iout[:700], "model": mout[:700]})
            ho = self.stats.setdefault("history_outcomes", {})
            for s_ in seen:
                key = s_ if not s_.startswith("run=") else ("run:objects" if s_.split("!")[0] != "run=" else "run:none") + ("!rerr" if "!rerr" in s_ else "")
                ho[key] = ho.get(key, 0) + 1
        if "!spec" in mout:
            self.record_violation("the model itself creates an object without permission", c, iout, {"model": mout}, stderr)
            return
        # the property evaluated on the implementation's own answers
        for what, opi, want in c.meta["expect"]:
            res = parts[opi]
            if what == "flag" and res != want:
                self.record_violation("the trusted bit of a context changed without the trust setter (history %s: %s expected, %s answered)"
                                      % (c.meta.get("seq"), want, res), c, iout, {"model": mout, "spec": want}, stderr)
                return
            if what == "parse" and want.startswith("perr:") and classify(res) != want:
                self.record_violation("an untrusted context was not refused (%s expected)" % want, c, iout, {"model": mout, "spec": want}, stderr)
                return
            if what == "noobject":
                if classify(res) == "ok" and c.meta["mod"] != "csv" and any(s.startswith("run=") and len(s) > 4 for s in seen):
                    self.record_violation("an untrusted context obtained an object of a module that was not granted", c, iout,
                                          {"model": mout, "spec": "no object"}, stderr)
                    return
                if classify(res) == "ok":
                    self.record_violation("a constructor of a non-granted module compiled in an untrusted context", c, iout,
                                          {"model": mout, "spec": "perr:restricted-ctor"}, stderr)
                    return
        if iout != mout:
            self.record_violation("implementation differs from the model", c, iout, {"model": mout}, stderr)

    def finish(self):
        import shutil
        if getattr(self, "tmpdir", None):
            shutil.rmtree(self.tmpdir, ignore_errors=True)
        return super().finish()

    def replay(self, rep):
        return self.run()
