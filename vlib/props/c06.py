"""C06 — loops and conditionals execute exactly the iterations the manual prescribes."""
import itertools

from .. import progen
from ..progen import I, L, S
from ..progcheck import ProgCheck
from ..core import Case
from ..run import hx

I64MIN, I64MAX = -2 ** 63, 2 ** 63 - 1


class C06(ProgCheck):
    pid = "C06"
    proof_modules = ["BlocV.Proofs.C06"]
    rule = ("(a) for-headers: every (first, limit, step, direction) over a boundary lattice incl. INT64_MIN/MAX, null and "
            "invalid steps, body prints the iterator; also bodies that modify the control variable, and bodies that set it to a null integer (`int()` or a null variable) "
            "(at the first / a later iteration, ascending / descending, with continue, inside begin…when others, nested): NOT_INTEGER (rerr 8), never a crash; (b) bounded-exhaustive "
            "nestings of for/while/if/begin with break/continue/return/raise at each position; (c) seeded random "
            "structured programs with loop emphasis (half of them with table variables, forall, writes through the iterator and "
            "container methods); (d) forall: table sizes 0..4 and null x direction x variable/temporary source x read / write "
            "through the iterator / break / continue / raise / return at each index, nested forall on one and on two tables, "
            "then the table is changed and the iterator retyped (constraints released). Observed: printed iterator sequence, returned value, every variable "
            "after the run, control/exec depth and constraint flags (BLOC_VERIF accessors). (e) the compile-time lock of a traversed table: "
            "forall bodies holding, at every nesting position (plain, in if / while / for / begin / a nested forall on the same or another table, "
            "inside an expression), a statement the lock must refuse (assignment to the table, for/forall registering its name, the four "
            "mutating members, assignment through the iterator of a nested traversal of the same table) or one it must accept (reads, other "
            "table, write through the outer iterator, the same statement after the loop): Parser::parse answers EXC_PARSE_CONST_VIOLATION "
            "exactly when the model's `lockProgram` refuses. distinct = program text.")

    def hazard_kf(self, c, hazard):
        # no hazard outcome of the model is a listed finding of this property any more: the null control variable
        # (C06.for_iterator_set_null, fixed in dcf5ae2) is now the BLOC error NOT_INTEGER (`rerr 8`) in model and code alike
        return None

    def gen_cases(self):
        quick = self.tier == "quick"
        cases = []
        n = 0

        def add(prog, meta=None):
            nonlocal n
            n += 1
            cases.append(self.prog_case("c%d" % n, prog, meta))

        lat = [I64MIN, I64MIN + 1, I64MIN + 2, -3, -1, 0, 1, 2, 3, I64MAX - 2, I64MAX - 1, I64MAX]
        steps = [None, 1, 2, 3, I64MAX, 0, -1, "null"]
        for b in lat:
            for e in lat:
                if abs(b - e) > 6 and not (abs(b) > 2 ** 62 and abs(e) > 2 ** 62 and abs(b - e) > 2 ** 63):
                    # far apart: only with a huge step (few iterations)
                    use_steps = [I64MAX]
                else:
                    use_steps = steps
                for st in use_steps:
                    for d in ("auto", "asc", "desc"):
                        if abs(b - e) > 6 and st != I64MAX:
                            continue
                        ste = None if st is None else (L("N:i0") if st == "null" else I(st))
                        prog = [("let", "N", I(0)),
                                ("for", "K", I(b), I(e), ste, d, [("print", [("var", "K")]), ("let", "N", ("bin", "ADD", ("var", "N"), I(1))),
                                                                 ("if", [(("bin", "GT", ("var", "N"), I(12)), [("break",)])])]),
                                ("print", [S("after "), ("var", "N")])]
                        add(prog, {"family": "for-header"})
        for nb, ne in (("N:i0", "I:3"), ("I:1", "N:i0"), ("N:?0", "I:2"), ("I:1", "N:?0")):
            add([("for", "K", L(nb), L(ne), None, "auto", [("print", [("var", "K")])]), ("print", [S("done")])], {"family": "for-null"})
        # bodies that modify the control variable
        for delta in (-2, -1, 1, 2, 5):
            for d in ("auto", "asc", "desc"):
                for b, e in ((0, 6), (6, 0), (I64MAX - 3, I64MAX), (I64MIN + 3, I64MIN)):
                    prog = [("let", "N", I(0)),
                            ("for", "K", I(b), I(e), None, d,
                             [("print", [("var", "K")]), ("let", "N", ("bin", "ADD", ("var", "N"), I(1))),
                              ("if", [(("bin", "GT", ("var", "N"), I(10)), [("break",)])]),
                              ("if", [(("bin", "EQ", ("bin", "MOD", ("var", "N"), I(2)), I(1)), [("let", "K", ("bin", "ADD", ("var", "K"), I(delta)))])])])]
                    add(prog, {"family": "for-modify"})
        # bodies that ASSIGN the control variable (manual: allowed, the loop continues from the assigned value): step x direction x
        # assigned value (inside the range, the limit, limit+-1, every value of the last partial-step window, beyond the limit, near
        # INT64_MAX / MIN, null -> NOT_INTEGER) x position of the assignment (first / last statement, inside an if) x iteration at which
        # it happens; the trace of visited values is printed
        na = 0
        for step in (1, 2, 3, 5, I64MAX):
            for d in ("auto", "asc", "desc"):
                for b, e in ((0, 10), (10, 0), (-3, 4), (I64MAX - 12, I64MAX), (I64MIN + 12, I64MIN), (2, 2)):
                    up = e >= b
                    if (d == "asc" and not up and e != b) or (d == "desc" and up and e != b):
                        continue
                    sg = 1 if up else -1
                    stp = min(step, 20) if step != I64MAX else step
                    window = [e - sg * w for w in range(0, min(stp, 6))] if step != I64MAX else [e, e - sg]
                    vals = sorted(set([b, b + sg, e - sg * stp, e - sg, e] + window + ([e + sg, e + sg * stp] if abs(e) < 2 ** 62 else [])
                                      + [I64MAX, I64MAX - 1, I64MIN, I64MIN + 1] + ["null"]), key=lambda x: (isinstance(x, str), x if not isinstance(x, str) else 0))
                    for a in vals:
                        if a != "null" and not (I64MIN <= a <= I64MAX):
                            continue
                        if quick and (na % 3) and a not in window and a != "null":
                            na += 1
                            continue
                        av = L("N:i0") if a == "null" else I(a)
                        for pos in ("first", "last", "if"):
                            for at in ((1,) if quick else (1, 2)):
                                cond = ("bin", "EQ", ("var", "N"), I(at))
                                asg = ("if", [(cond, [("let", "K", av)])])
                                core = [("print", [("var", "K")])]
                                if pos == "first":
                                    body = [("let", "N", ("bin", "ADD", ("var", "N"), I(1))), asg] + core
                                elif pos == "last":
                                    body = [("let", "N", ("bin", "ADD", ("var", "N"), I(1)))] + core + [asg]
                                else:
                                    body = [("let", "N", ("bin", "ADD", ("var", "N"), I(1)))] + core + \
                                           [("if", [(("bin", "GT", ("var", "N"), I(0)), [("if", [(cond, [("let", "K", av), ("print", [S("set")])])])])])]
                                body.append(("if", [(("bin", "GT", ("var", "N"), I(14)), [("break",)])]))
                                prog = [("let", "N", I(0)), ("for", "K", I(b), I(e), (None if step == 1 and na % 2 else I(step)), d, body),
                                        ("print", [S("after"), ("var", "N")])]
                                add(prog, {"family": "for-assign"})
                                na += 1
        self.stats["for_assign_cases"] = sum(1 for c in cases if c.meta.get("family") == "for-assign")
        # bodies that set the control variable to null: the re-entry raises NOT_INTEGER (model: `rerr 8`), whatever the null's type,
        # the iteration, the direction, the way the body ends; NOT_INTEGER is not catchable (`when others` does not match it)
        add([("for", "K", I(1), I(3), None, "auto", [("let", "K", L("N:i0"))])], {"family": "for-null-iterator"})
        # (an untyped `null` cannot be assigned to the type safe control variable: parse error TYPE_MISMATCH; the null arrives as
        # `int()` or through a null integer variable)
        for nulx in (L("N:i0"), ("var", "Z")):
            for b, e, d in ((1, 3, "auto"), (3, 1, "auto"), (3, 1, "desc"), (2, 2, "asc"), (I64MAX - 1, I64MAX, "auto"), (I64MIN + 1, I64MIN, "auto")):
                for at in (0, 1):
                    for tail in ("none", "continue", "print"):
                        setnull = [("let", "K", nulx)] + ([("continue",)] if tail == "continue" else [("print", [S("set")])] if tail == "print" else [])
                        body = [("print", [("var", "K")]), ("if", [(("bin", "EQ", ("var", "N"), I(at)), setnull)]),
                                ("let", "N", ("bin", "ADD", ("var", "N"), I(1)))]
                        loop = ("for", "K", I(b), I(e), None, d, body)
                        add([("let", "Z", L("N:i0")), ("let", "N", I(0)), loop, ("print", [S("after")])], {"family": "for-null-iterator"})
                        add([("let", "Z", L("N:i0")), ("let", "N", I(0)), ("begin", [loop], [("OTHERS", [("print", [S("caught")])])]), ("print", [S("after")])],
                            {"family": "for-null-iterator"})
            add([("let", "Z", L("N:i0")), ("for", "A", I(0), I(1), None, "auto", [("for", "K", I(0), I(2), None, "auto", [("let", "K", nulx)])]),
                 ("print", [S("after")])], {"family": "for-null-iterator"})
            add([("let", "Z", L("N:i0")), ("let", "W", I(0)), ("while", ("bin", "LT", ("var", "W"), I(2)),
                 [("let", "W", ("bin", "ADD", ("var", "W"), I(1))), ("for", "K", I(0), I(2), I(2), "auto", [("let", "K", nulx)])])],
                {"family": "for-null-iterator"})
        # bounded-exhaustive nestings: two loops, one exit statement at each position
        exits = [("break",), ("continue",), ("return", I(7)), ("raise", "E1"), ("nop",)]
        loops = ["for", "while", "forall"]
        for outer, inner in itertools.product(loops, loops):
            for ex in exits:
                for pos in range(4):
                    for guard in (True, False):
                        body_in = [("print", [S("i"), ("var", "A"), ("var", "B")])]
                        exs = ("if", [(("bin", "EQ", ("var", "B"), I(1)), [ex])]) if guard else ex
                        if pos == 0:
                            body_in = [exs] + body_in
                        elif pos == 1:
                            body_in = body_in + [exs]

                        def mk(kind, var, body):
                            if kind == "for":
                                return [("for", var, I(0), I(2), None, "auto", body)]
                            if kind == "forall":
                                # three elements; the counter plays the iterator's role; the element is read and written
                                return [("let", "T" + var, ("call", "tab", [I(3), I(0)])), ("let", var, I(-1)),
                                        ("forall", "E" + var, ("var", "T" + var), "auto",
                                         [("let", var, ("bin", "ADD", ("var", var), I(1))),
                                          ("let", "E" + var, ("bin", "ADD", ("var", "E" + var), ("bin", "ADD", ("var", var), I(10))))] + body)]
                            return [("let", var, I(-1)), ("while", ("bin", "LT", ("var", var), I(2)), [("let", var, ("bin", "ADD", ("var", var), I(1)))] + body)]
                        inner_s = mk(inner, "B", body_in)
                        body_out = [("print", [S("o"), ("var", "A")])] + inner_s + [("print", [S("x"), ("var", "A")])]
                        if pos == 2:
                            body_out = [("if", [(("bin", "EQ", ("var", "A"), I(1)), [ex])])] + body_out
                        elif pos == 3:
                            body_out = body_out + [("if", [(("bin", "EQ", ("var", "A"), I(1)), [ex])])]
                        prog = [("let", "A", I(0)), ("let", "B", I(0))]
                        core = mk(outer, "A", body_out)
                        for wrap in ("none", "begin"):
                            p2 = list(prog) + ([("begin", core, [("E1", [("print", [S("caught")])])])] if wrap == "begin" else core)
                            p2 += [("print", [S("end"), ("var", "A"), ("var", "B")]), ("let", "A", S("retyped")), ("let", "B", L("B:1"))]
                            for lk, lv in ((outer, "A"), (inner, "B")):
                                if lk == "forall":
                                    # left by whatever route: the table is writable again, the iterator is a plain variable again
                                    p2 += [("do", ("member", "concat", ("var", "T" + lv), [I(99)])),
                                           ("print", [("member", "count", ("var", "T" + lv), [])]), ("let", "E" + lv, S("free"))]
                            add(p2, {"family": "nest"})
        # forall: every size 0..4 and a null table x direction x source (variable / temporary) x body
        # (read, write through the iterator, break / continue / raise at each index)
        for size in (None, 0, 1, 2, 3, 4):
            for d in ("auto", "asc", "desc"):
                for source in ("var", "tmp"):
                    for action in ("read", "write", "break", "continue", "raise", "return", "write-null"):
                        for at in ((0,) if action in ("read", "write", "write-null") else range(max(1, size or 1))):
                            n_e = L("N:i0") if size is None else I(size)
                            mk_tab = ("call", "tab", [n_e, ("fcall", "NX", [])])
                            body = [("print", [S("v"), ("var", "E")]), ("let", "C", ("bin", "ADD", ("var", "C"), I(1)))]
                            if action == "write":
                                body.append(("let", "E", ("bin", "MUL", ("var", "E"), I(2))))
                            elif action == "write-null":
                                body.append(("let", "E", L("N:i0")))
                            elif action != "read":
                                ex = {"break": ("break",), "continue": ("continue",), "raise": ("raise", "E1"), "return": ("return", ("var", "C"))}[action]
                                body = body[:1] + [("if", [(("bin", "EQ", ("var", "C"), I(at)), [("let", "C", ("bin", "ADD", ("var", "C"), I(1))), ex])])] + body[1:]
                            src = ("var", "T") if source == "var" else mk_tab
                            loop = ("forall", "E", src, d, body)
                            prog = [("func", "NX", [], "i", [("let", "G", I(5)), ("return", ("var", "G"))], []),
                                    ("let", "C", I(0)), ("let", "T", mk_tab), ("let", "E", I(-5)),
                                    ("begin", [loop], [("E1", [("print", [S("caught")])])]) if action == "raise" else loop,
                                    ("print", [S("after"), ("var", "C"), ("var", "E"), ("member", "count", ("var", "T"), [])]),
                                    ("forall", "F", ("var", "T"), "auto", [("print", [("var", "F")])]),
                                    ("do", ("member", "concat", ("var", "T"), [I(7)])), ("let", "E", S("retyped"))]
                            add(prog, {"family": "forall"})
        # nested forall: same table twice (read only inside), two tables, inner write
        for d1, d2 in itertools.product(("auto", "desc"), repeat=2):
            for same in (True, False):
                for inner_write in (False, True):
                    if same and inner_write:
                        continue
                    t2 = "T" if same else "U"
                    inner = [("print", [("var", "E"), ("var", "F")])] + ([("let", "F", ("bin", "ADD", ("var", "F"), ("var", "E")))] if inner_write else [])
                    prog = [("let", "T", ("call", "tab", [I(3), I(1)])), ("let", "U", ("call", "tab", [I(2), I(5)])),
                            ("forall", "E", ("var", "T"), d1, [("forall", "F", ("var", t2), d2, inner)] + ([] if same else [("let", "E", ("bin", "ADD", ("var", "E"), I(1)))])),
                            ("forall", "E", ("var", "T"), "auto", [("print", [("var", "E")])]),
                            ("forall", "F", ("var", "U"), "auto", [("print", [("var", "F")])]),
                            ("do", ("member", "concat", ("var", "T"), [I(7)])), ("do", ("member", "delete", ("var", "U"), [I(0)]))]
                    add(prog, {"family": "forall-nest"})
        # random structured programs with loop emphasis
        for k in range(400 if quick else 6000):
            g = progen.Gen(self.rng, nvars=2, funcs=(k % 3 == 0), errors=0.06, tables=(0.3 if k % 2 else 0.0),
                           errrec=(0.05 if k % 4 == 1 else 0.0), extras=(0.15 if k % 4 == 2 else 0.0), mathx=(0.2 if k % 4 == 3 else 0.0))
            add(g.program(nstmts=self.rng.randint(3, 7), depth=3), {"family": "random"})
            for kk, vv in g.stats.items():
                if kk.startswith(("error-", "handler-reports", "function-clause", "function-reads", "isnull", "mathx-")):
                    self.stats.setdefault("int_random", {})[kk] = self.stats.get("int_random", {}).get(kk, 0) + vv
        cases += self.lock_cases(quick)
        self.stats["cases"] = len(cases)
        return cases

    # ------------------------------------------------------------------ the compile-time lock (model: lockProgram; driver command `lockchk`)
    def lock_cases(self, quick):
        r = self.rng
        T, U = ("var", "TT"), ("var", "UU")
        init = [("let", "TT", ("call", "tab", [I(2), I(1)])), ("let", "UU", ("call", "tab", [I(1), I(2)])), ("let", "X", I(0))]

        def mut(tv, m):
            if m == "delete":
                return ("do", ("member", "delete", tv, [I(0)]))
            if m == "concat":
                return ("do", ("member", "concat", tv, [I(9)]))
            return ("do", ("member", m, tv, [I(0), I(7)]))

        # statements over table variable `tv` (refused iff tv is locked), and neutral ones
        def atoms(tv):
            name = tv[1]
            return {
                "assign": ("let", name, ("call", "tab", [I(1), I(3)])),
                "assign-copy": ("let", name, U if tv == T else T),
                "put": mut(tv, "put"), "insert": mut(tv, "insert"), "delete": mut(tv, "delete"), "concat": mut(tv, "concat"),
                "in-expr": ("let", "X", ("member", "count", ("member", "insert", tv, [I(0), I(1)]), [])),
                "count": ("let", "X", ("member", "count", tv, [])),
                "at": ("let", "X", ("member", "at", tv, [I(0)])),
                "nested-write": ("forall", "F", tv, "auto", [("let", "F", I(5))]),
                "nested-read": ("forall", "F", tv, "auto", [("print", [("var", "F")])]),
                "nested-mutate": ("forall", "F", tv, "auto", [mut(tv, "delete")]),
            }

        def wrap(kind, st):
            if kind == "if":
                return ("if", [(("bin", "EQ", ("var", "X"), I(0)), [st])])
            if kind == "else":
                return ("if", [(("bin", "EQ", ("var", "X"), I(1)), [("nop",)]), (None, [st])])
            if kind == "while":
                return ("while", ("bin", "LT", ("var", "X"), I(0)), [st])
            if kind == "for":
                return ("for", "KK", I(1), I(1), None, "auto", [st])
            if kind == "begin":
                return ("begin", [st], [("OTHERS", [("nop",)])])
            if kind == "handler":
                return ("begin", [("nop",)], [("OTHERS", [st])])
            if kind == "forall-other":
                fresh[0] += 1
                return ("forall", "G%d" % fresh[0], U, "auto", [st])    # a fresh iterator per level: reusing a running iterator is another error
            return st

        wraps = ["plain", "if", "else", "while", "for", "begin", "handler", "forall-other"]
        fresh = [0]
        cases = []
        dist = {}
        n = 0

        def add(prog, what):
            nonlocal n
            n += 1
            dist[what] = dist.get(what, 0) + 1
            src = progen.program_src(prog)
            cases.append(Case("l%d" % n, "lockchk %s" % hx(progen.program_sexp(prog)), "new 0|prog 0 %s" % hx(src),
                              {"family": "lock", "src": src, "what": what}))

        for tv in (T, U):
            for an, st in atoms(tv).items():
                for w in wraps:
                    if quick and tv == U and w not in ("plain", "if", "forall-other"):
                        continue
                    body = [("print", [("var", "E")]), wrap(w, st)]
                    add(init + [("forall", "E", T, "auto", body), ("print", [S("end")])], "%s/%s/%s" % ("locked" if tv == T else "other", an, w))
                # the same statement after the loop: the lock is released
                add(init + [("forall", "E", T, "auto", [("print", [("var", "E")])]), st, ("print", [S("end")])], "after-loop/" + an)
        # write through the outer iterator (accepted); through the iterator when the table was locked by an enclosing traversal (refused)
        add(init + [("forall", "E", T, "auto", [("let", "E", I(4))])], "iterator-write/outer")
        add(init + [("forall", "E", T, "auto", [("forall", "F", T, "auto", [("let", "E", I(4))])])], "iterator-write/outer-from-inner")
        add(init + [("forall", "E", T, "auto", [("forall", "F", T, "auto", [("let", "F", I(4))])])], "iterator-write/inner-locked")
        add(init + [("forall", "E", T, "auto", [("forall", "F", U, "auto", [("let", "F", I(4))])])], "iterator-write/inner-other")
        add(init + [("forall", "E", T, "auto", [("for", "TT", I(1), I(2), None, "auto", [("nop",)])])], "register/for")
        add(init + [("forall", "E", T, "auto", [("forall", "TT", U, "auto", [("nop",)])])], "register/forall")
        # a function body is compiled in its own context: the caller's lock does not reach it
        fn = ("func", "FM", [], "i", [("let", "TT", ("call", "tab", [I(1), I(1)])), ("do", ("member", "put", ("var", "TT"), [I(0), I(2)])), ("return", I(1))], [])
        add([fn] + init + [("forall", "E", T, "auto", [("let", "X", ("fcall", "FM", []))])], "function-own-context")
        for _ in range(150 if quick else 3000):
            # random nesting depth 1..3 of wraps around a random atom on a random table, inside forall over TT (and sometimes also over UU)
            tv = r.choice([T, U])
            an, st = r.choice(list(atoms(tv).items()))
            for _k in range(r.randint(0, 3)):
                st = wrap(r.choice(wraps), st)
            body = [st]
            outer = ("forall", "E", T, r.choice(["auto", "asc", "desc"]), body)
            if r.random() < 0.3:
                outer = ("forall", "H", U, "auto", [outer])
            add(init + [outer], "random")
        self.stats["lock_cases"] = n
        self.stats["lock_distribution"] = {k.split("/")[0] + "/" + (k.split("/")[1] if "/" in k else ""): 0 for k in dist}
        for k, v in dist.items():
            kk = k.split("/")[0] + "/" + (k.split("/")[1] if "/" in k else "")
            self.stats["lock_distribution"][kk] += v
        return cases

    def judge(self, c, iraw, m, stderr):
        if c.meta.get("family") != "lock":
            return ProgCheck.judge(self, c, iraw, m, stderr)
        impl = iraw.split("|")[-1] if not iraw.startswith("crash") else iraw
        self.tally(c, "lock " + " ".join(impl.split(" ")[:2]) if impl.startswith("perr") else "lock accepted", m)
        self.distinct.add((c.model_line,))
        mout = m.get("model")
        if mout is None or mout == "bad-prog":
            return self.record_violation("model gave no answer", c, impl, m)
        refused = impl.startswith("perr 32")
        d = self.stats.setdefault("lock_outcomes", {})
        key = ("refused" if mout.startswith("perr") else "accepted")
        d[key] = d.get(key, 0) + 1
        if impl.startswith("crash"):
            return self.record_violation("lock program crashed", c, impl, m, stderr)
        if c.meta.get("what") == "register/forall":
            # a locked NAME used as the iterator of another forall is refused as well, but an earlier test of FORALLStatement::parse
            # answers first (EXC_PARSE_OTHER_S): only "refused" is compared
            refused = impl.startswith("perr")
        if mout.startswith("perr") != refused or (not refused and impl.startswith("perr")):
            return self.record_violation("the parser's lock decision differs from the model (lockProgram)", c, impl, m, stderr)
