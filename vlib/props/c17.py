"""C17 — every module object is destroyed exactly once, after its last reference is gone.

Two correspondence streams against the Lean models of Model/Plugin.lean and Model/ObjProg.lean:

* `hops` — raw `bloc::Complex` handle operations (factory, copy ctor, move ctor, destructor, operator=, both swaps) on
  objects of the verification module, all well-formed sequences up to a length bound plus random longer ones; the
  module's create/destroy log must equal the model's, a model hazard (dereference of a null counter) must be a crash.
* `obj` — generated BLOC programs that create, copy, store, overwrite, pass, return and drop object references through
  variables, tables, functions, loops, error exits, clones, purge; compared with the model's trace:
  constructor / method events with their arguments EXACTLY and in order; every object destroyed at most once, never
  before the model's (earliest possible) release point, never after the release of the last context it was ever held
  in, exactly once at quiescence; no method or destroy on a dead or foreign object (module-side registry + ASan on the
  object storage). A call whose later argument raises after earlier parameters were bound (`callt`) is an ordinary
  case: FunctorManager::createEnv hands the callee context back to the function's cache, the bound objects stay in its
  slots until the context is recycled by the next call of that function (model: destroyed exactly there, before the
  new parameters are bound) or until the root context is purged / freed (model: destroyed there); an object that is
  never destroyed, or destroyed before that point, is a VIOLATION."""
import itertools

from ..core import Case
from ..run import hx
from ..vmodcheck import VmodCheck

OBJ_VARS = ["A", "B", "C", "D"]


# ---------------------------------------------------------------- handle-operation sequences
def hop_options(state):
    """state: list of 'g' (gone) | 'n' (null) | 'r'. Well-formed next operations (no destructed handle named)."""
    live = [i for i, s in enumerate(state) if s != "g"]
    ops = ["n"]
    for i in live:
        ops += ["c%d" % i, "m%d" % i, "d%d" % i]
    for i in live:
        for j in live:
            ops += ["a%d.%d" % (i, j), "s%d.%d" % (i, j), "x%d.%d" % (i, j)]
    return ops


def hop_apply(state, op):
    """abstract effect on the gone/null/ref shape; returns (new state, hazard?)"""
    st = list(state)
    k = op[0]
    if k == "n":
        return st + ["r"], False
    body = op[1:]
    if "." in body:
        i, j = [int(x) for x in body.split(".")]
    else:
        i, j = int(body), None
    if k == "c":
        if st[i] == "n":
            return st, True
        return st + ["r"], False
    if k == "m":
        v = st[i]
        st[i] = "n"
        return st + [v], False
    if k == "d":
        if st[i] == "n":
            return st, True
        st[i] = "g"
        return st, False
    if k == "a":
        if i == j:
            return st, False
        if st[i] == "n" or st[j] == "n":
            return st, True
        return st, False
    if k == "s":
        st[i], st[j] = st[j], st[i]
        return st, False
    if k == "x":
        if st[i] == "n":
            return st, True
        if i == j:
            st[i] = "n"
            return st, False
        st[i] = st[j]
        st[j] = "n"
        return st, False
    raise ValueError(op)


def enumerate_hops(maxlen, max_handles, hazard_cap):
    """all well-formed sequences starting with `n`, up to maxlen ops; a hazard ends its sequence"""
    out, hazards = [], []
    frontier = [(["n"], ["r"])]
    out.append(["n"])
    for _ in range(maxlen - 1):
        nxt = []
        for seq, st in frontier:
            for op in hop_options(st):
                if op == "n" and len(st) >= max_handles:
                    continue
                if op[0] in "cm" and len(st) >= max_handles:
                    continue
                st2, hz = hop_apply(st, op)
                if hz:
                    hazards.append(seq + [op])
                else:
                    nxt.append((seq + [op], st2))
                    out.append(seq + [op])
        frontier = nxt
    return out, hazards


# ---------------------------------------------------------------- object programs
class ProgGen:
    def __init__(self, rng):
        self.rng = rng

    def var(self):
        return self.rng.choice(OBJ_VARS)

    def simple(self, vars_, allow_call=True, in_func=False):
        r = self.rng
        v = lambda: r.choice(vars_)
        k = r.random()
        if k < 0.16:
            return ("new", v(), r.randint(1, 99))
        if k < 0.32:
            return ("cp", v(), v())
        if k < 0.38:
            return ("nul", v())
        if k < 0.44:
            return ("self", v(), v())
        if k < 0.50:
            return ("spawn", v(), v(), r.randint(1, 99))
        if k < 0.56:
            return ("id", v())
        if k < 0.61:
            return ("peer", v(), v())
        if k < 0.65:
            return ("tmp", r.randint(1, 99))
        if k < 0.665:
            return ("mthrow", r.randint(1, 99))
        if k < 0.68:
            return ("newf", v(), r.randint(0, 1))
        if not in_func:
            k2 = r.random()
            if k2 < 0.05:
                return ("tdel", "T", 0 if r.random() < 0.7 else r.randint(0, 3))
            if k2 < 0.10:
                return ("tins", "T", r.randint(0, 1) if r.random() < 0.8 else r.randint(0, 4), v())
            if k2 < 0.15:
                return ("tcat", "T", v())
            if k2 < 0.20:
                return ("fall", "T")
            if k < 0.71:
                return ("tnew", "T", r.randint(1, 3) if r.random() < 0.9 else 0, v())
            if k < 0.78:
                return ("tput", "T", 0 if r.random() < 0.7 else r.randint(0, 3), v())
            if k < 0.84:
                return ("tat", v(), "T", 0 if r.random() < 0.7 else r.randint(0, 3))
        if allow_call:
            if k < 0.93:
                return ("call", v(), r.choice(["F", "H"]) if not in_func else "H", None)
            if k < 0.97 and not in_func:
                return ("callt", "G", [v()], v())
        return ("id", v())

    def fix_call(self, ins, vars_):
        if ins[0] == "call":
            f = ins[2]
            n = 2 if f == "F" else 1
            return ("call", ins[1], f, [self.rng.choice(vars_) for _ in range(n)])
        return ins

    def block(self, n, depth, vars_, in_func=False):
        out = []
        for _ in range(n):
            k = self.rng.random()
            if depth > 0 and k < 0.10:
                body = self.block(self.rng.randint(1, 3), depth - 1, vars_, in_func)
                if self.rng.random() < 0.6:
                    body.insert(self.rng.randint(0, len(body)), ("stop",))
                out.append(("try", body, self.block(self.rng.randint(0, 2), depth - 1, vars_, in_func)))
            elif depth > 0 and k < 0.18:
                out.append(("loop", self.rng.randint(1, 3), self.block(self.rng.randint(1, 3), depth - 1, vars_, in_func)))
            elif k < 0.19 and not in_func:
                out.append(("stop",))
            else:
                out.append(self.fix_call(self.simple(vars_, True, in_func), vars_))
        return out

    def funcs(self):
        fv = ["P1", "P2", "R", "L1"]
        hv = ["P1", "R", "L1"]
        h_body = [self.fix_call(self.simple(hv, False, True), hv) for _ in range(self.rng.randint(0, 3))]
        if self.rng.random() < 0.15:
            h_body.append(("stop",))
        f_body = self.block(self.rng.randint(1, 4), 1, fv, in_func=True)
        return [("H", 1, h_body + [("ret", self.rng.choice(hv))]), ("G", 2, [("cp", "R", "P1"), ("ret", "R")]),
                ("F", 2, f_body + [("ret", "R")])]


def tok(ins):
    k = ins[0]
    if k == "try":
        return ["try", "["] + toks(ins[1]) + ["]", "["] + toks(ins[2]) + ["]"]
    if k == "loop":
        return ["loop.%d" % ins[1], "["] + toks(ins[2]) + ["]"]
    if k == "call":
        return [".".join(["call", ins[1], ins[2]] + ins[3])]
    if k == "callt":
        return [".".join(["callt", ins[1]] + ins[2] + [ins[3]])]
    return [".".join(str(x) for x in ins)]


def toks(block):
    out = []
    for i in block:
        out += tok(i)
    return out


def render(block, ind, depth=0):
    out = []
    p = "  " * ind
    for ins in block:
        k = ins[0]
        if k == "new":
            out.append(p + "%s = vmod(%d);" % (ins[1], ins[2]))
        elif k == "cp":
            out.append(p + "%s = %s;" % (ins[1], ins[2]))
        elif k == "nul":
            out.append(p + "%s = ZN;" % ins[1])
        elif k == "self":
            out.append(p + "%s = %s.self();" % (ins[1], ins[2]))
        elif k == "spawn":
            out.append(p + "%s = %s.spawn(%d);" % (ins[1], ins[2], ins[3]))
        elif k == "id":
            out.append(p + "NN = %s.id();" % ins[1])
        elif k == "peer":
            out.append(p + "NN = %s.peer(%s);" % (ins[1], ins[2]))
        elif k == "tnew":
            out.append(p + "%s = tab(%d, %s);" % (ins[1], ins[2], ins[3]))
        elif k == "tput":
            out.append(p + "%s.put(%d, %s);" % (ins[1], ins[2], ins[3]))
        elif k == "tat":
            out.append(p + "%s = %s.at(%d);" % (ins[1], ins[2], ins[3]))
        elif k == "tmp":
            out.append(p + "NN = vmod(%d).id();" % ins[1])
        elif k == "tdel":
            out.append(p + "%s.delete(%d);" % (ins[1], ins[2]))
        elif k == "tins":
            out.append(p + "%s.insert(%d, %s);" % (ins[1], ins[2], ins[3]))
        elif k == "tcat":
            out.append(p + "%s.concat(%s);" % (ins[1], ins[2]))
        elif k == "fall":
            out.append(p + "forall EE in %s loop NN = EE.id(); end loop;" % ins[1])
        elif k == "mthrow":
            out.append(p + "NN = vmod(%d).fail(1);" % ins[1])
        elif k == "newf":
            out.append(p + "%s = vmod(%s);" % (ins[1], "true" if ins[2] else "false"))
        elif k == "call":
            out.append(p + "%s = %s(%s);" % (ins[1], ins[2], ", ".join(ins[3])))
        elif k == "callt":
            out.append(p + "CT = %s(%s, %s.fail(1));" % (ins[1], ", ".join(ins[2]), ins[3]))
        elif k == "ret":
            out.append(p + "return %s;" % ins[1])
        elif k == "stop":
            out.append(p + "raise BOOM;")
        elif k == "try":
            out.append(p + "begin")
            out += render(ins[1], ind + 1, depth) or [p + "  nop;"]
            out.append(p + "exception when others then")
            out += render(ins[2], ind + 1, depth) or [p + "  nop;"]
            out.append(p + "end;")
        elif k == "loop":
            out.append(p + "for I%d in 1 to %d loop" % (depth, ins[1]))
            out += render(ins[2], ind + 1, depth + 1)
            out.append(p + "end loop;")
        else:
            raise ValueError(ins)
    return out


def render_func(name, nparams, body):
    if name == "G":
        params = "P1:vmod, P2"
    else:
        params = ", ".join("P%d:vmod" % (i + 1) for i in range(nparams))
    lines = ["function %s(%s) return vmod is" % (name, params), "begin", "  ZN:vmod; R:vmod; L1:vmod; NN = 0;"]
    lines += render(body, 1)
    lines.append("end;")
    return lines


PROLOGUE = ["import vmod;", "ZN:vmod; A:vmod; B:vmod; C:vmod; D:vmod; CT:vmod; EE:vmod; NN = 0;", "T = tab(1, ZN);"]
PROLOGUE_INSTR = [("tnew", "T", 1, "ZN")]


class C17(VmodCheck):
    pid = "C17"
    proof_modules = ["BlocV.Proofs.C17"]
    rule = ("(1) every well-formed sequence of bloc::Complex handle operations (factory, copy ctor, move ctor, destructor, "
            "operator=, swap(&), swap(&&)) up to the length bound, plus seeded random longer ones, executed on real "
            "handles of the verification module: create/destroy log equal to the model's, model hazard = crash; "
            "(2) seeded random programs over variables, a table, three functions (typed parameters, locals, nested "
            "call, error exit), loops, begin/exception blocks, uncaught errors, a call whose last argument raises after the "
            "first parameter was bound (createEnv hands the callee context back to the cache: the bound object is released "
            "when that context is recycled or its root released, never lost), temporaries, followed by clone / second "
            "program in the clone / purge / free in random order: "
            "constructor and method events with arguments exact and in order; each destroy at most once, not before "
            "the model's earliest release point, not after the release of the last context the object was held in; "
            "exactly once at quiescence; no event on a dead or foreign object; ASan on the object storage; "
            "(3) evaluated directly on the two verification modules' event log (no model): method calls compiled for one "
            "module whose receiver is, at run time, an object of the other module (variable retyped by a dead branch, copy, "
            "table element, function local, loop with handler) x {id, self, spawn, peer}: no method or destructor event on a "
            "foreign object, every object destroyed once; one object referenced by 65535..70000 table elements, shrunk, "
            "copied, replaced: 7 method calls reach it, it is destroyed once, after its last use. "
            "distinct = case text.")
    trusted_base = VmodCheck.trusted_base + ["harness/vmod (event log of the verification module)",
                                             "vlib/props/c17.py render(): BLOC text of each model instruction"]
    EXTRA_FINDINGS = [
        {"property": "C17", "id": "C17.createEnv_arg_throw_leaks_context", "status": "fixed", "commit": "50ff576",
         "what": "(repaired) a call F(a, y.fail(1)) whose later argument raises after an earlier parameter was bound: FunctorManager::createEnv "
                 "neither cached nor deleted the runtime context, the object bound to the earlier parameter was never destroyed "
                 "(site: blocc/functor_manager.cpp createEnv; the context now goes back to the function's cache)",
         "witness": "import vmod; function g(p1:vmod, p2) return vmod is begin return p1; end; a = vmod(1); y = vmod(2); ct = g(a, y.fail(1));"},
        {"property": "C17", "id": "C17.clone_outlives_origin_uaf", "status": "fixed", "commit": "4769647",
         "what": "a context in which a function was defined is cloned, the original is purged or freed first, then the clone is "
                 "freed: ~Functor deletes the function's private parse context, whose _fctm still points to the original's deleted "
                 "FunctorManager -> heap-use-after-free in Context::~Context (context.cpp:86 via functor_manager.h:168). No module "
                 "object is needed; it prevents the release of the clone, hence recorded here (belongs to C14/C15 as well)",
         "witness": "function f() return integer is begin return 1; end;  -- then: clone = ctx.clone(); delete ctx; delete clone;"},
        {"property": "C17", "id": "C17.moved_from_handle_null_deref", "status": "known",
         "what": "bloc::Complex: the move constructor and swap(Complex&&) leave _refcount == nullptr; the destructor, copy "
                 "constructor, operator= and swap(Complex&&) dereference it unconditionally (site: blocc/complex.cpp:66-76). "
                 "Not reachable from scripts: libblocc and the shipped modules only use the copy constructor and the destructor",
         "witness": "Complex b(std::move(a)); /* a.~Complex() */"},
    ]

    EXTRA_FINDINGS.append(
        {"property": "C17", "id": "C17.deinit_with_live_objects_null_call", "status": "known",
         "site": "blocc/complex.cpp:70 (Complex::~Complex) / blocc/plugin_manager.h:51 (plugged) / PluginManager::destroy",
         "what": "bloc_deinit_plugins() while a context still holds an object: the module instance is deleted and its library closed; "
                 "when the last reference disappears later, ~Complex asks the NEW, empty PluginManager for plugged(type id), gets the "
                 "placeholder entry whose instance is null and calls instance->destroyObject through the null pointer (UBSan: member call on "
                 "null pointer, then SIGSEGV). The object never reaches its module's destructor. If the module is imported again first, "
                 "methods and the destructor of the new instance receive the handle created by the old one. The header only says the "
                 "function SHOULD be called on program exit",
         "witness": "import vmod; A = vmod(1);  -- host: bloc_deinit_plugins(); bloc_free_context(ctx);",
         "why_recorded": "C17: every object a module constructor created is handed back to the module's destructor exactly once, no later than the release of the contexts involved"})

    def hazard_kf(self, c, hazard):
        return "C17.moved_from_handle_null_deref" if hazard == "nullDeref" else None

    # ------------------------------------------------------------ cases
    def gen_cases(self):
        quick = self.tier == "quick"
        cases = []
        n = 0
        seqs, hazards = enumerate_hops(4 if quick else 5, 4, 0)
        self.stats["hops_exhaustive_len"] = 4 if quick else 5
        self.stats["hops_ok_sequences"] = len(seqs)
        self.stats["hops_hazard_sequences"] = len(hazards)
        self.rng.shuffle(hazards)
        hz = hazards[:(60 if quick else 400)]
        for seq in seqs + hz:
            n += 1
            s = ",".join(seq)
            cases.append(Case("h%d" % n, "hops " + s, "plugreset|hops %s|vlog|live" % s, {"family": "hops"}))
        # random longer sequences (hazard-free prefix property: stop at the first hazard)
        for _ in range(400 if quick else 5000):
            st, seq = ["r"], ["n"]
            for _ in range(self.rng.randint(5, 14)):
                opts = hop_options(st)
                op = self.rng.choice(opts)
                st2, hzd = hop_apply(st, op)
                if hzd and self.rng.random() < 0.97:
                    continue
                seq.append(op)
                if hzd:
                    break
                st = st2
            n += 1
            s = ",".join(seq)
            cases.append(Case("h%d" % n, "hops " + s, "plugreset|hops %s|vlog|live" % s, {"family": "hops-random"}))
        # object programs
        g = ProgGen(self.rng)
        for _ in range(500 if quick else 6000):
            n += 1
            cases.append(self.obj_case("o%d" % n, g))
        # receiver of another module than the one the method call was compiled for (the parser's idea of the variable's
        # type comes from a branch that never runs): decided on the module's own event log — no method may reach an
        # object of the other module, every object is still destroyed exactly once
        n_recv = 0
        for m1, m2 in (("vmod", "vmod2"), ("vmod2", "vmod")):
            for meth in ("id()", "self()", "spawn(5)", "peer(A)"):
                for shape in ("var", "copy", "table", "func", "loop"):
                    pre = "import vmod;\nimport vmod2;\nA = %s(1);\n" % m1
                    if shape == "var":
                        body = "if false then A = %s(2); end if;\nNN = A.%s;\n" % (m2, meth)
                    elif shape == "copy":
                        body = "B = %s(2);\nif false then B = A; else A = B; end if;\nB = %s(3);\nC = A;\nif false then C = %s(4); end if;\nNN = C.%s;\n" % (m2, m1, m1, meth.replace("A", "C"))
                    elif shape == "table":
                        body = "T = tab(2, A);\nif false then T = tab(1, %s(2)); end if;\nNN = T.at(1).%s;\n" % (m2, meth)
                    elif shape == "func":
                        body = ("function g9() return integer is begin X = %s(7); if false then X = %s(8); end if; Y = X.%s; return 1; end;\nNN = g9();\nNN = g9();\n"
                                % (m1, m2, meth.replace("A", "X")))
                    else:
                        body = "for K in 1 to 2 loop begin if false then A = %s(2); end if; NN = A.%s; exception when others then NN = 0; end; end loop;\n" % (m2, meth)
                    n_recv += 1
                    text = pre + body
                    cases.append(Case("r%d" % n_recv, "", "plugreset|new 0 t|prog 0 %s|vlog|free 0|vlog|live" % hx(text),
                                      {"family": "recv", "src": text, "nomodel": True}))
        # very many simultaneous references to one object (table of 65540 / 70000 copies; 2^16 is where a narrow counter would wrap)
        for nrefs in (65535, 65536, 65537, 65540, 70000):
            text = ("import vmod;\nA = vmod(7);\nT = tab(%d, A);\nA = vmod(8);\nfor K in 1 to 6 loop T.delete(0); NN = T.at(0).id(); end loop;\n"
                    "U = T;\nT = tab(1, A);\nNN = U.at(5).id();\nU = tab(1, A);\nNN = A.id();\n" % nrefs)
            n_recv += 1
            cases.append(Case("r%d" % n_recv, "", "plugreset|new 0 t|prog 0 %s|vlog|free 0|vlog|live" % hx(text),
                              {"family": "recv", "src": text, "nomodel": True, "manyrefs": True}))
        self.stats["receiver_cases"] = n_recv
        # ---- receivers that are RESULTS of expressions whose static type names one module while the value belongs to the
        # other: a function declared `return <m1>` that returns an object of <m2> on some branch, the method called
        # directly on the call / on an element of the returned table / on a chained method result
        n_rr = 0
        for m1, m2 in (("vmod", "vmod2"), ("vmod2", "vmod")):
            for meth in ("id()", "self()", "spawn(5)", "peer(A)", "tag()"):
                for shape in ("call", "callvar", "chain", "tabfn", "loop"):
                    defs = ("import vmod;\nimport vmod2;\nA = %s(9);\n"
                            "function pick(n) return %s is begin if n == 1 then return %s(1); end if; return %s(2); end;\n"
                            "function pick3(n) return %s is begin T = tab(2, %s(4)); if n == 1 then T = tab(2, %s(3)); end if; return T.at(1); end;\n"
                            % (m1, m1, m1, m2, m1, m2, m1))
                    if shape == "call":
                        calls = ["NN = pick(1).%s;" % meth, "NN = pick(2).%s;" % meth]
                    elif shape == "callvar":
                        calls = ["K = 2;\nNN = pick(K).%s;" % meth, "K = 1;\nNN = pick(K).%s;" % meth, "NN = pick(K + 1).%s;" % meth]
                    elif shape == "chain":
                        calls = ["NN = pick(2).self().%s;" % meth, "NN = pick(1).self().%s;" % meth]
                    elif shape == "tabfn":
                        calls = ["NN = pick3(1).%s;" % meth, "NN = pick3(2).%s;" % meth]
                    else:
                        calls = ["for K in 1 to 3 loop begin NN = pick(K).%s; exception when others then NN = 0; end; end loop;" % meth]
                    n_rr += 1
                    ops = ["plugreset", "new 0 t", "prog 0 %s" % hx(defs), "vlog"]
                    for cl in calls:
                        ops += ["prog 0 %s" % hx(cl + "\n"), "vlog"]
                    ops += ["free 0", "vlog", "live"]
                    cases.append(Case("rr%d" % n_rr, "", "|".join(ops),
                                      {"family": "recv", "sub": "result-receiver", "src": defs + "\n".join(calls), "nomodel": True}))
        self.stats["result_receiver_cases"] = n_rr
        # ---- a host that runs programs ending in `return <object>` again and again on one context and never takes the
        # returned value (bloc_reset_stop only), through the C API; then purge / free: nothing may be lost
        n_ret = 0
        ret_progs = [
            ["import vmod;\nA = vmod(1);\nreturn A;", "B = vmod(2);\nreturn B;", "return vmod(3);", "return A;"],
            ["import vmod;\nreturn vmod(1);", "return vmod(2);", "return vmod(3);", "return vmod(4);"],
            ["import vmod;\nT = tab(2, vmod(1));\nreturn T;", "return T.at(0);", "return tab(3, vmod(2));", "return 5;"],
            ["import vmod;\nfunction mk(n) return vmod is begin return vmod(n); end;\nreturn mk(1);", "return mk(2).self();", "X = mk(3);\nreturn X;", "return X;"],
            ["import vmod;\nA = vmod(1);\nreturn tup(A, 1);", "return tup(vmod(2), 2);", "return tup(A, 3);"],
        ]
        for progs in ret_progs:
            for nrun in range(1, len(progs) + 1):
                for ending in ("free", "purge-free", "dropret-free", "clone-free"):
                    n_ret += 1
                    ops = ["plugreset", "unban api %s" % hx("vmod"), "capinew 0"]
                    for t in progs[:nrun]:
                        ops += ["retrun 0 %s" % hx(t + "\n"), "vlog"]
                    if ending == "purge-free":
                        ops += ["purge 0", "vlog"]
                    elif ending == "dropret-free":
                        ops += ["dropret 0", "vlog"]
                    elif ending == "clone-free":
                        ops += ["capiclone 0 1", "vlog", "free 1", "vlog"]
                    ops += ["free 0", "vlog", "live"]
                    cases.append(Case("rt%d" % n_ret, "", "|".join(ops),
                                      {"family": "recv", "sub": "returned-not-taken", "src": " // ".join(progs[:nrun]) + " // " + ending, "nomodel": True}))
        self.stats["returned_not_taken_cases"] = n_ret
        # ---- a constructor or a method fails in the middle of building a container or an argument list: what was built
        # before the failure must still reach the destructor (exactly once) by the time the context is released
        n_cf = 0
        fail_exprs = [
            "T = tab(3, vmod(10 / (5 - vmod(0).id())));",                 # element expression raises at the 3rd repetition
            "T = tab(4, vmod(10 / (3 - vmod(0).id())));",                 # ... at the 2nd
            "T = tab(2, vmod(true));",                                     # constructor returns no object at the 1st
            "TU = tup(vmod(1), vmod(true));", "TU = tup(vmod(1), 2, vmod(false));", "TU = tup(vmod(1), vmod(2).fail(1));",
            "X = F2(vmod(1), vmod(true));", "X = F2(vmod(1), vmod(2).fail(1));", "X = F2(vmod(true), vmod(1));",
            "T = tab(1, vmod(1));\nT.concat(vmod(true));", "T = tab(1, vmod(1));\nT.concat(vmod(2)).concat(vmod(false));",
            "T = tab(1, vmod(1));\nT.put(0, vmod(true));", "T = tab(2, vmod(1));\nT.insert(1, vmod(false));",
            "NN = vmod(1).peer(vmod(true));", "NN = vmod(1).peer(vmod(false));", "NN = vmod(1).spawn(2).peer(vmod(3).spawn(4).self().spawn(5 / (0 * vmod(6).id())));", "A = vmod(1);\nNN = A.fail(0);", "A = vmod(1);\nNN = A.fail(1);",
            "A = vmod(1).spawn(2).spawn(3).fail(1);", "A = vmod(1);\nA = vmod(true);", "A = vmod(1);\nB = A;\nA = vmod(false);",
            "T = tab(2, tab(2, vmod(10 / (4 - vmod(0).id()))));",
        ]
        pre = "import vmod;\nfunction F2(p1:vmod, p2:vmod) return vmod is begin return p1; end;\n"
        for fe in fail_exprs:
            for wrap in ("top", "handler", "func", "loop"):
                if wrap == "top":
                    body = fe
                elif wrap == "handler":
                    body = "begin\n%s\nexception when others then NN = 0;\nend;\nZ = vmod(77);" % fe
                elif wrap == "func":
                    body = "function w9() return integer is begin\n%s\nreturn 1; end;\nbegin NN = w9(); exception when others then NN = 0; end;\nNN = w9();" % fe
                else:
                    body = "for K in 1 to 2 loop\nbegin\n%s\nexception when others then NN = 0;\nend;\nend loop;" % fe
                for ending in ("free", "purge-free"):
                    n_cf += 1
                    ops = ["plugreset", "new 0 t", "prog 0 %s" % hx(pre), "vlog", "prog 0 %s" % hx(body + "\n"), "vlog",
                           "prog 0 %s" % hx("Y = vmod(88);\nNN = Y.id();\n"), "vlog"]
                    if ending == "purge-free":
                        ops += ["purge 0", "vlog"]
                    ops += ["free 0", "vlog", "live"]
                    cases.append(Case("cf%d" % n_cf, "", "|".join(ops),
                                      {"family": "recv", "sub": "failure-while-building", "src": body + " // " + ending, "nomodel": True}))
        self.stats["failure_while_building_cases"] = n_cf
        # ---- bloc_deinit_plugins: after every context is released (the documented use) it is clean; while an object is
        # still referenced the later release calls through a null module instance (recorded finding)
        P = "import vmod;\nA = vmod(1);\nB = A;\nT = tab(2, A);\n"
        cases.append(Case("dq1", "", "|".join(["plugreset", "new 0 t", "prog 0 %s" % hx(P), "vlog", "free 0", "vlog", "deinit", "live"]),
                          {"family": "deinit", "liveobj": False, "src": P}))
        cases.append(Case("dq2", "", "|".join(["plugreset", "new 0 t", "prog 0 %s" % hx(P), "vlog", "clone 0 1", "purge 0", "vlog", "free 1", "vlog", "free 0", "vlog", "deinit", "live"]),
                          {"family": "deinit", "liveobj": False, "src": P}))
        cases.append(Case("dq3", "", "|".join(["plugreset", "new 0 t", "prog 0 %s" % hx(P), "vlog", "deinit", "free 0", "vlog", "live"]),
                          {"family": "deinit", "liveobj": True, "src": P}))
        # ---- part M of the model (Model/Plugin.lean, namespace M): objects of two modules in three variables, constructors
        # that fail, copies, drops, method calls compiled for either module on whatever the variable holds at run time
        n_m = 0
        mdist = {}
        for _ in range(300 if quick else 3000):
            n_m += 1
            cases.append(self.meth_case("m%d" % n_m, mdist))
        self.stats["meth_cases"] = n_m
        self.stats["meth_step_distribution"] = dict(sorted(mdist.items()))
        for cid, case in self.fixed_obj_cases():
            cases.append(case)
        self.stats["cases"] = len(cases)
        return cases

    def obj_case(self, cid, g, funcs=None, progs=None, script=None):
        r = self.rng
        funcs = funcs or g.funcs()
        ftext = []
        for name, np, body in funcs:
            ftext += render_func(name, np, body)
        words = ["func:%s:%d:%s" % (name, np, ",".join(toks(body))) for name, np, body in funcs]
        ops = ["plugreset"]
        segkind = []        # per model word: ('prog'|'host')

        def host(op, word):
            ops.append(op)
            ops.append("vlog")
            words.append(word)

        if script is None:
            p1 = g.block(r.randint(3, 9), 2, OBJ_VARS)
            script = [("new", 0), ("prog", 0, p1, True)]
            live = [0]
            if r.random() < 0.5:
                script.append(("clone", 0, 1))
                live.append(1)
                if r.random() < 0.7:
                    script.append(("prog", 1, g.block(r.randint(1, 6), 2, OBJ_VARS), False))
            if r.random() < 0.5:
                script.append(("prog", 0, g.block(r.randint(1, 6), 2, OBJ_VARS), False))
            if r.random() < 0.35:
                # a host that runs programs ending in `return X` and does not take the value (or takes it now and then)
                for _ in range(r.randint(1, 4)):
                    kk = r.choice(live)
                    if r.random() < 0.25:
                        script.append(("dropret", kk))
                    else:
                        script.append(("retprog", kk, g.block(r.randint(0, 3), 1, OBJ_VARS) + [("ret", r.choice(OBJ_VARS))]))
            # any release order: a clone may outlive its origin (this order crashed - heap-use-after-free in
            # Context::~Context - until /repo commit 4769647; finding C17.clone_outlives_origin_uaf, now 'fixed')
            r.shuffle(live)
            for k in live:
                if r.random() < 0.3:
                    script.append(("purge", k))
                script.append(("free", k))
        roots = {}
        nroot = 0
        release_seg = {}
        seg = 0
        for st in script:
            if st[0] == "new":
                host("new %d t" % st[1], "new:%d" % st[1])
                roots[st[1]] = nroot
                nroot += 1
            elif st[0] == "prog":
                _, k, block, first = st
                self._count_instrs(block)
                text = (PROLOGUE + ftext if first else []) + render(block, 0)
                instrs = (PROLOGUE_INSTR if first else []) + block
                host("prog %d %s" % (k, hx("\n".join(text) + "\n")), "prog:%d:%s" % (k, ",".join(toks(instrs)) or "id.ZN"))
            elif st[0] == "retprog":
                _, k, block = st
                self._count_instrs(block)
                host("retrun %d %s" % (k, hx("\n".join(render(block, 0)) + "\n")), "retprog:%d:%s" % (k, ",".join(toks(block))))
            elif st[0] == "dropret":
                host("dropret %d" % st[1], "dropret:%d" % st[1])
            elif st[0] == "clone":
                host("clone %d %d" % (st[1], st[2]), "clone:%d:%d" % (st[1], st[2]))
                roots[st[2]] = nroot
                nroot += 1
            elif st[0] in ("purge", "free"):
                host("%s %d" % (st[0], st[1]), "%s:%d" % (st[0], st[1]))
                release_seg.setdefault(roots[st[1]], seg)
            seg += 1
        ops.append("live")
        # origin (slot 0) purged or freed while a clone (slot 1) is still alive?
        rel = [st for st in script if st[0] in ("purge", "free", "clone")]
        origin_first = False
        clone_alive = False
        for st in rel:
            if st[0] == "clone":
                clone_alive = True
            elif st[1] == 1 and st[0] == "free":
                clone_alive = False
            elif st[1] == 0 and clone_alive:
                origin_first = True
        return Case(cid, "obj " + " ".join(words), "|".join(ops),
                    {"family": "obj", "release_seg": release_seg, "nseg": seg, "origin_first": origin_first})


    MODS = ["vmod", "vmod2"]

    def meth_case(self, cid, dist):
        """a straight-line history, one statement per `prog` op; the Lean side runs the same history as MOps"""
        r = self.rng
        vars_ = ["A", "B", "C"]
        held = {v: None for v in vars_}     # var -> (slot, module index)
        nslot = 0
        words = ["nc"]
        ops = ["plugreset", "new 0 t",
               "prog 0 %s" % hx("import vmod;\nimport vmod2;\nZN0:vmod; ZN1:vmod2;\nA:vmod; B:vmod; C:vmod2; NN = 0;\n"), "vlog"]
        expect = ["ok"]
        steps = []
        for _ in range(r.randint(3, 10)):
            k = r.random()
            x = r.choice(vars_)
            if k < 0.25:
                m, arg = r.randint(0, 1), r.randint(1, 99)
                text = "%s = %s(%d);" % (x, self.MODS[m], arg)
                words.append("c.0.%d" % m)
                old = held[x]
                held[x] = (nslot, m); nslot += 1
                if old:
                    words.append("clr.%d" % old[0])
                expect.append("ok"); kind = "new"
            elif k < 0.33:
                m = r.randint(0, 1)
                text = "%s = %s(%s);" % (x, self.MODS[m], r.choice(["true", "false"]))
                words.append("cf.0.%d" % m)
                expect.append("rerr"); kind = "newfail"
            elif k < 0.45:
                ys = [v for v in vars_ if v != x and held[v]]
                if not ys:
                    continue
                y = r.choice(ys)
                text = "%s = %s;" % (x, y)
                words.append("cl.%d.0" % held[y][0])
                old = held[x]
                held[x] = (nslot, held[y][1]); nslot += 1
                if old:
                    words.append("clr.%d" % old[0])
                expect.append("ok"); kind = "copy"
            elif k < 0.53:
                m = held[x][1] if held[x] else r.randint(0, 1)
                text = "%s = ZN%d;" % (x, m)
                if held[x]:
                    words.append("clr.%d" % held[x][0])
                held[x] = None
                expect.append("ok"); kind = "drop"
            else:
                ms = r.randint(0, 1)       # the module the call is compiled for
                full = [v for v in vars_ if held[v]]
                if full and r.random() < 0.85:
                    x = r.choice(full)
                if held[x] and r.random() < 0.6:
                    ms = held[x][1]
                peers = [v for v in vars_ if held[v] and held[v][1] == ms]
                if peers and r.random() < 0.4:
                    y = r.choice(peers)
                    call, name, args = "peer(%s)" % y, "peer", ["O:@%d" % held[y][0]]
                else:
                    name = r.choice(["id", "tag"])
                    call, args = name + "()", []
                # the parser's idea of the variable's type: a branch that never runs
                text = "if false then %s = %s(0); end if;\nNN = %s.%s;" % (x, self.MODS[ms], x, call)
                if held[x]:
                    words.append(".".join(["m", str(held[x][0]), str(ms), name] + args))
                    bad = held[x][1] != ms
                    expect.append("rerr" if bad else "ok")
                    kind = "call-refused" if bad else "call"
                else:
                    expect.append("ok"); kind = "call-null"
            dist[kind] = dist.get(kind, 0) + 1
            steps.append(text)
            ops += ["prog 0 %s" % hx(text + "\n"), "vlog"]
        # the end of the session: release, then (sometimes) unload the modules - the documented order; or, rarely, the
        # wrong order: bloc_deinit_plugins while the context still holds whatever it holds
        e = r.random()
        if e < 0.08:
            ending = "deinit-first"
            ops += ["deinit", "vlog", "free 0", "vlog", "live"]
            words += ["dei", "rel.0"]
        elif e < 0.40:
            ending = "release-deinit"
            ops += ["free 0", "vlog", "deinit", "vlog", "live"]
            words += ["rel.0", "dei"]
        else:
            ending = "release"
            ops += ["free 0", "vlog", "live"]
            words.append("rel.0")
        dist["end:" + ending] = dist.get("end:" + ending, 0) + 1
        return Case(cid, "meth " + " ".join(words), "|".join(ops),
                    {"family": "meth", "expect": expect, "ending": ending, "src": " // ".join(s_.replace("\n", " ") for s_ in steps)})

    def judge_meth(self, c, iraw, m, stderr):
        self.distinct.add(c.model_line)
        if (m.get("model") or "").startswith("hazard nullDeref") and c.meta.get("ending") == "deinit-first":
            # the model says: the release after bloc_deinit_plugins destroys an object through the deleted module instance
            self.tally(c, iraw if iraw.startswith("crash") else "no-crash", m)
            d = self.stats.setdefault("meth_deinit_first", {})
            d["model hazard / " + iraw.split("|")[0][:24]] = d.get("model hazard / " + iraw.split("|")[0][:24], 0) + 1
            if iraw.startswith(("crash ubsan:null", "crash segv")) and self.hit("C17.deinit_with_live_objects_null_call", c, iraw):
                return
            return self.record_violation("model: call through the unloaded module instance; the library did not crash that way", c, iraw, m, stderr)
        if iraw.startswith("crash ") or iraw.endswith("diverges"):
            self.tally(c, iraw, m)
            return self.record_violation("the library crashed on a two-module method history", c, iraw, m, stderr)
        parts = iraw.split("|")
        outs = [p for p in parts[2:-1][0::2]]
        logs = [p for p in parts[2:-1][1::2]]
        lines = [l for lg in logs for l in lg[4:].split("~") if l]
        self.tally(c, "ok", m)

        def bad(what):
            self.record_violation(what + " (%s)" % c.meta["src"][:300], c, "~".join(lines)[:1200],
                                  {"model": "calls=%s mods=%s log=%s refused=%s failed=%s" % (m.get("calls"), m.get("mods"), m.get("log"), m.get("refused"), m.get("failed"))}, stderr)

        if m.get("model") != "ok":
            return bad("the model could not run the history: %s" % m.get("model"))
        for l in lines:
            if l.startswith(("M!", "D!")):
                return bad("a method / destructor was executed on a dead or foreign object: " + l)
        # outcomes of the statements (the last `out` is the free)
        want = c.meta["expect"] + (["ok"] if c.meta.get("ending", "release") == "release" else ["ok", "ok"])
        if c.meta.get("ending") == "deinit-first":
            d = self.stats.setdefault("meth_deinit_first", {})
            d["model ok / no object left"] = d.get("model ok / no object left", 0) + 1
        got = ["ok" if o.startswith("ok") else o.split(" ")[0] for o in outs]
        if got != want:
            return bad("statement outcomes %s, expected %s" % (got, want))
        mods = [int(x) for x in (m.get("mods") or "").split(",") if x != ""]
        names, cnt = [], {}
        for mo in mods:
            cnt[mo] = cnt.get(mo, 0) + 1
            names.append("%s#%d" % (self.MODS[mo], cnt[mo]))
        mlog = [x for x in (m.get("log") or "").split(",") if x]
        calls = []
        for cl in [x for x in (m.get("calls") or "").split(",") if x]:
            o, mo, at, name, args = cl.split("/")
            import re as _re
            args = _re.sub(r"O:#(\d+)", lambda mm: "O:" + names[int(mm.group(1)) - 1], args.replace(";", " "))
            calls.append((int(o), int(mo), int(at), name, args))
        # slots named in argument dumps -> object names: the model prints O:@<slot>=<object>
        merged = []
        ci = 0
        for pos in range(len(mlog) + 1):
            while ci < len(calls) and calls[ci][2] == pos:
                o, mo, at, name, args = calls[ci]
                merged.append("M %s %s %s" % (names[o], name, args or "-"))
                ci += 1
            if pos < len(mlog) and mlog[pos].startswith("C"):
                merged.append("C " + names[int(mlog[pos][1:]) - 1])
        icm = []
        for l in lines:
            w = l.split(" ")
            if w[0] == "C":
                icm.append("C " + w[1])
            elif w[0] == "M":
                icm.append("M %s %s %s" % (w[1], w[2], " ".join(w[3:]) or "-"))
        if icm != merged:
            return bad("constructor/method events of the modules %s differ from the model's %s" % (icm, merged))
        nfail = len([l for l in lines if l.startswith("F ")])
        if nfail != int(m.get("failed") or 0):
            return bad("failing constructor calls: modules saw %d, model %s" % (nfail, m.get("failed")))
        nref = len([o for o in outs if o.startswith("rerr")]) - nfail
        if nref != int(m.get("refused") or 0):
            return bad("method calls stopped by the receiver check: %d, model %s" % (nref, m.get("refused")))
        gone = [l.split(" ")[1] for l in lines if l.startswith("D ")]
        mgone = [names[int(x[1:]) - 1] for x in mlog if x.startswith("D")]
        if sorted(gone) != sorted(mgone) or len(set(gone)) != len(gone) or sorted(gone) != sorted(names):
            return bad("objects destroyed %s, model %s, created %s" % (gone, mgone, names))
        live = parts[-1]
        if any(int(x) > 0 for x in live[5:].split(",")):
            return bad("modules report live objects at quiescence: " + live)

    def _count_instrs(self, block):
        d = self.stats.setdefault("obj_instruction_distribution", {})
        for ins in block:
            d[ins[0]] = d.get(ins[0], 0) + 1
            if ins[0] == "try":
                self._count_instrs(ins[1]); self._count_instrs(ins[2])
            elif ins[0] == "loop":
                self._count_instrs(ins[2])

    def fixed_obj_cases(self):
        """fixed programs replayed on every run: the former witnesses w1, w2 of the repaired finding
        C17.createEnv_arg_throw_leaks_context (now ordinary cases: every object destroyed exactly once, the bound
        parameter when the callee context is recycled or its root released), the families w5.. that pin down WHEN, a
        basic tour (w3) and the release order of the repaired finding C17.clone_outlives_origin_uaf (w4)"""
        g = ProgGen(self.rng)
        funcs = [("H", 1, [("ret", "P1")]), ("G", 2, [("cp", "R", "P1"), ("ret", "R")]),
                 ("F", 2, [("cp", "R", "P1"), ("id", "P2"), ("ret", "R")])]
        out = []
        leak = [("new", 0), ("prog", 0, [("new", "A", 1), ("new", "B", 2), ("callt", "G", ["A"], "B")], True), ("free", 0)]
        out.append(("w1", self.obj_case("w1", g, funcs, script=leak)))
        leak2 = [("new", 0), ("prog", 0, [("new", "A", 1), ("new", "B", 2), ("call", "C", "H", ["A"]),
                                           ("try", [("callt", "G", ["A"], "B")], [("id", "A")]), ("nul", "A"), ("nul", "C")], True),
                 ("purge", 0), ("free", 0)]
        out.append(("w2", self.obj_case("w2", g, funcs, script=leak2)))
        basic = [("new", 0), ("prog", 0, [("new", "A", 7), ("cp", "B", "A"), ("tnew", "T", 2, "A"), ("new", "A", 8), ("nul", "B"),
                                           ("tput", "T", 0, "A"), ("tput", "T", 1, "A"), ("call", "C", "F", ["A", "A"]), ("tmp", 3)], True),
                 ("clone", 0, 1), ("prog", 0, [("nul", "A"), ("nul", "C"), ("tnew", "T", 0, "ZN")], False),
                 ("prog", 1, [("id", "A"), ("id", "C")], False), ("free", 1), ("free", 0)]
        out.append(("w3", self.obj_case("w3", g, funcs, script=basic)))
        tour = [("new", 0), ("prog", 0, [("new", "A", 1), ("new", "B", 2), ("tnew", "T", 2, "A"), ("tcat", "T", "B"), ("tins", "T", 0, "B"),
                                          ("tins", "T", 4, "ZN"), ("fall", "T"), ("tdel", "T", 1), ("nul", "A"), ("tdel", "T", 1), ("fall", "T"),
                                          ("nul", "B"), ("tdel", "T", 0), ("tdel", "T", 0), ("fall", "T"), ("tmp", 5)], True),
                ("prog", 0, [("new", "A", 3), ("mthrow", 4)], False), ("prog", 0, [("newf", "A", 1)], False), ("prog", 0, [("newf", "A", 0)], False),
                ("prog", 0, [("id", "A"), ("tins", "T", 9, "A")], False), ("prog", 0, [("tdel", "T", 7)], False),
                ("prog", 0, [("try", [("mthrow", 6)], [("id", "A")]), ("id", "A")], False), ("clone", 0, 1), ("prog", 1, [("fall", "T"), ("tcat", "T", "A")], False),
                ("free", 0), ("free", 1)]
        out.append(("w10", self.obj_case("w10", g, funcs, script=tour)))
        rets = [("new", 0), ("prog", 0, [("new", "A", 1), ("new", "B", 2)], True), ("retprog", 0, [("ret", "A")]), ("retprog", 0, [("nul", "A"), ("ret", "B")]),
                ("retprog", 0, [("new", "C", 3), ("ret", "C")]), ("retprog", 0, [("nul", "C"), ("nul", "B"), ("ret", "ZN")]), ("dropret", 0), ("dropret", 0),
                ("retprog", 0, [("new", "D", 4), ("ret", "D")]), ("clone", 0, 1), ("retprog", 1, [("ret", "D")]), ("prog", 0, [("nul", "D")], False),
                ("purge", 0), ("free", 0), ("free", 1)]
        out.append(("w11", self.obj_case("w11", g, funcs, script=rets)))
        uaf = [("new", 0), ("prog", 0, [("new", "A", 1)], True), ("clone", 0, 1), ("free", 0), ("free", 1)]
        out.append(("w4", self.obj_case("w4", g, funcs, script=uaf)))
        # a call whose last argument raises after P1 was bound (the program ends there: a module's error is not caught by
        # `when others`); `thrown` leaves object #1 referenced by A and by the slot P1 of G's cached runtime context
        thrown = [("new", "A", 1), ("new", "B", 2), ("callt", "G", ["A"], "B")]
        # w5: A dropped, then G is called again: the recycled context resets its slots -> #1 destroyed exactly there
        out.append(("w5", self.obj_case("w5", g, funcs, script=[("new", 0), ("prog", 0, thrown, True),
                    ("prog", 0, [("nul", "A"), ("id", "B"), ("call", "C", "G", ["B", "B"]), ("id", "C")], False), ("free", 0)])))
        # w6: A dropped, G never called again: #1 lives until the function table goes (purge), not later
        out.append(("w6", self.obj_case("w6", g, funcs, script=[("new", 0), ("prog", 0, thrown, True),
                    ("prog", 0, [("nul", "A"), ("id", "B")], False), ("purge", 0), ("free", 0)])))
        # w7: the failing call twice in a row (the second recycles the context the first handed back), then a third time
        # after a successful call; everything else dropped before the release
        out.append(("w7", self.obj_case("w7", g, funcs, script=[("new", 0), ("prog", 0, thrown, True),
                    ("prog", 0, [("new", "A", 3), ("callt", "G", ["A"], "B")], False),
                    ("prog", 0, [("call", "C", "G", ["A", "A"]), ("new", "A", 4), ("callt", "G", ["C"], "B")], False),
                    ("prog", 0, [("nul", "A"), ("nul", "B"), ("nul", "C")], False), ("free", 0)])))
        # w8: the cache is per context: a clone does not inherit the cached runtime context (nor what its slots hold);
        # the failing call in the clone, the origin released first
        out.append(("w8", self.obj_case("w8", g, funcs, script=[("new", 0), ("prog", 0, thrown, True), ("clone", 0, 1),
                    ("prog", 1, [("callt", "G", ["B"], "A")], False), ("prog", 0, [("nul", "A"), ("nul", "B")], False),
                    ("prog", 1, [("nul", "A"), ("call", "C", "G", ["A", "A"])], False), ("free", 0), ("purge", 1), ("free", 1)])))
        # w9: a successful call first (its context is in the cache), then the failing call recycles it; a null receiver of
        # fail() does not raise (the call runs); F's cache is untouched by G's failure
        out.append(("w9", self.obj_case("w9", g, funcs, script=[("new", 0),
                    ("prog", 0, [("new", "A", 1), ("call", "C", "G", ["A", "A"]), ("call", "D", "F", ["A", "C"]), ("callt", "G", ["A"], "B"),
                                 ("new", "B", 2), ("callt", "G", ["C"], "B")], True),
                    ("prog", 0, [("call", "D", "F", ["B", "B"]), ("nul", "A"), ("nul", "C")], False), ("free", 0)])))
        return out

    def case_timeout(self):
        return 20

    # ------------------------------------------------------------ judging
    def judge(self, c, iraw, m, stderr):
        fam = c.meta["family"]
        if fam.startswith("hops"):
            return self.judge_hops(c, iraw, m, stderr)
        if fam == "recv":
            return self.judge_recv(c, iraw, stderr)
        if fam == "meth":
            return self.judge_meth(c, iraw, m, stderr)
        if fam == "deinit":
            if c.meta["liveobj"]:
                self.distinct.add(c.impl_line)
                self.tally(c, iraw.split("|")[0] if not iraw.startswith("crash") else iraw, {})
                if iraw.startswith("crash ubsan:null") or iraw.startswith("crash segv"):
                    if self.hit("C17.deinit_with_live_objects_null_call", c, iraw):
                        return
                    return self.record_violation("crash when a context is released after bloc_deinit_plugins", c, iraw, {}, stderr)
                # repaired upstream? then the object must have been destroyed exactly once
                return self.judge_recv(c, iraw, stderr)
            return self.judge_recv(c, iraw, stderr)
        return self.judge_obj(c, iraw, m, stderr)

    def judge_recv(self, c, iraw, stderr):
        self.distinct.add(c.impl_line)
        if iraw.startswith("crash ") or iraw.endswith("diverges"):
            self.tally(c, iraw, {})
            return self.record_violation("crash in an object-lifetime program (%s)" % ("many references to one object" if c.meta.get("manyrefs") else "receiver of another module"), c, iraw, {}, stderr)
        parts = iraw.split("|")
        logs = [p for p in parts if p.startswith("log=")]
        lines = [l for lg in logs for l in lg[4:].split("~") if l]
        self.tally(c, parts[2].split(" ")[0] if len(parts) > 2 else "?", {})
        sub = c.meta.get("sub")
        if sub:
            d = self.stats.setdefault("outcomes_" + sub, {})
            for p_ in parts:
                w_ = p_.split(" ")[0]
                if w_ in ("ok", "ok-", "ret", "rerr", "perr", "none", "nox"):
                    key = w_ + ((":" + p_.split(" ")[1]) if w_ in ("rerr", "perr") and len(p_.split(" ")) > 1 else "")
                    d[key] = d.get(key, 0) + 1
            d["C-events"] = d.get("C-events", 0) + len([l for l in lines if l.startswith("C ")])
            d["M-events"] = d.get("M-events", 0) + len([l for l in lines if l.startswith("M ")])
            d["F-events"] = d.get("F-events", 0) + len([l for l in lines if l.startswith("F ")])
        for l in lines:
            if l.startswith(("M!", "D!")):
                return self.record_violation("a method / destructor was executed on a dead or foreign object: %s (%s)" % (l, c.meta["src"].replace("\n", " ")[:200]),
                                             c, "~".join(lines)[:800], {"spec": "no M!/D! event"}, stderr)
        made = [l.split(" ")[1] for l in lines if l.startswith("C ")]
        gone = [l.split(" ")[1] for l in lines if l.startswith("D ")]
        dead = set()
        for l in lines:
            w = l.split(" ")
            if w[0] == "D":
                dead.add(w[1])
            elif w[0] == "M" and w[1] in dead:
                return self.record_violation("method executed on %s after it was destroyed" % w[1], c, "~".join(lines)[:800], {}, stderr)
        if c.meta.get("manyrefs"):
            # the shared object (#1) must outlive every use: its destruction comes after the last method call on it
            last_m = max([i for i, l in enumerate(lines) if l.startswith("M ") and l.split(" ")[1].endswith("#1")] or [-1])
            d1 = [i for i, l in enumerate(lines) if l.startswith("D ") and l.split(" ")[1].endswith("#1")]
            nm = len([l for l in lines if l.startswith("M ") and l.split(" ")[1].endswith("#1")])
            if nm != 7 or not d1 or d1[0] < last_m:
                return self.record_violation("object #1 (held by tens of thousands of table elements): %d method calls (7 expected), destroyed at event %s, last use at %d"
                                             % (nm, d1, last_m), c, "~".join(lines)[:800], {}, stderr)
        if sorted(made) != sorted(gone) or len(set(gone)) != len(gone):
            return self.record_violation("objects created %s, destroyed %s" % (made, gone), c, "~".join(lines)[:800], {"spec": "each object destroyed exactly once"}, stderr)
        live = [p for p in parts if p.startswith("live=")]
        if live and any(int(x) > 0 for x in live[-1][5:].split(",")):
            return self.record_violation("module reports live objects at quiescence", c, "~".join(lines)[:800], {}, stderr)

    def judge_hops(self, c, iraw, m, stderr):
        mout = m.get("model", "")
        if iraw.startswith("crash ") or iraw.endswith("diverges"):
            iout = iraw
        else:
            parts = iraw.split("|")
            if len(parts) < 4 or parts[1] != "ok":
                iout = "probe:" + iraw[:80]
            else:
                evs = []
                for l in [x for x in parts[2][4:].split("~") if x]:
                    w = l.split(" ")
                    if w[0] in ("C", "D") and "#" in w[1]:
                        evs.append(w[0] + w[1].split("#")[1])
                    else:
                        evs.append("?" + l)
                iout = "ok log=%s live=%s" % (",".join(evs), parts[3][5:].split(",")[0])
        self.distinct.add(c.model_line)
        self.tally(c, iout.split(" log=")[0], m)
        if len(self.samples) < 6 and self.rng.random() < 0.005:
            self.samples.append({"case": c.model_line, "impl": iout, "model": mout})
        if mout.startswith("hazard "):
            kf = m.get("kf") or self.hazard_kf(c, mout.split()[1])
            from ..core import outcomes_agree
            if outcomes_agree(iout, mout) and kf and self.hit(kf, c, iout):
                return
            self.record_violation("model hazard not matched by the recorded crash", c, iout, m, stderr)
            return
        want = "ok log=%s live=%s" % (m.get("log", ""), m.get("live", ""))
        if mout != "ok" or iout != want:
            self.record_violation("handle operations: implementation differs from the model", c, iout,
                                  {"model": want if mout == "ok" else mout}, stderr)

    def judge_obj(self, c, iraw, m, stderr):
        self.distinct.add(c.model_line)
        if iraw.startswith("crash ") or iraw.endswith("diverges"):
            self.tally(c, iraw, m)
            if iraw == "crash asan:use-after-free" and c.meta.get("origin_first") and "FunctorManager::getRoot" in stderr \
                    and self.hit("C17.clone_outlives_origin_uaf", c, iraw):
                return
            self.record_violation("the library crashed on an object program (sanitizer report in stderr_tail)", c, iraw, m, stderr)
            return
        parts = iraw.split("|")
        # plugreset, then (op, vlog) pairs, then live
        pairs = parts[1:-1]
        outs = pairs[0::2]
        logs = pairs[1::2]
        live = parts[-1]
        mouts = (m.get("model") or "").split("|")
        msegs = (m.get("ev") or "").split("/") if "ev" in m else []
        leak = set(x for x in (m.get("leak") or "").split(",") if x)
        inv = {}
        for p in (m.get("inv") or "").split(","):
            if "@" in p:
                o, r = p.split("@")
                inv.setdefault(o, set()).add(int(r))
        release_seg = {int(k): v for k, v in c.meta["release_seg"].items()}
        nseg = c.meta["nseg"]
        self.tally(c, ";".join(o.split(" ")[0] for o in outs), m)
        if len(self.samples) < 6 and self.rng.random() < 0.01:
            self.samples.append({"case": c.model_line[:600], "impl": "/".join(l[4:] for l in logs)[:600], "model": (m.get("ev") or "")[:600]})

        def bad(what, iout="", model=""):
            self.record_violation(what, c, iout or "/".join(l[4:] for l in logs)[:1500], {"model": model or (m.get("ev") or "")[:1500]}, stderr)

        if any("unmodelled" in o or "hazard" in o or "bad-op" in o for o in mouts):
            return bad("the model could not run the case: " + "|".join(mouts))
        if len(outs) != nseg or len(mouts) != nseg or len(msegs) != nseg:
            return bad("segment count mismatch: impl %d model %d/%d expected %d" % (len(outs), len(mouts), len(msegs), nseg))
        # outcomes of the host operations
        for k, (io, mo) in enumerate(zip(outs, mouts)):
            icls = "ok" if io.startswith("ok") else ("rerr" if io.startswith("rerr") else io)
            if icls != mo:
                return bad("host operation %d: implementation answered %s, model %s" % (k, io, mo))
        ipos, mpos = {}, {}
        for s in range(nseg):
            ilines = [l for l in logs[s][4:].split("~") if l]
            mlines = [l for l in msegs[s].split("~") if l]
            for l in ilines:
                if l.startswith(("D!", "M!")):
                    return bad("the module was called on a dead or foreign object: " + l)
            icm = [l for l in ilines if not l.startswith("D ")]
            mcm = [l for l in mlines if not l.startswith("D ")]
            if icm != mcm:
                return bad("constructor/method events differ in segment %d" % s, "~".join(icm)[:1500], "~".join(mcm)[:1500])
            for lines, pos in ((ilines, ipos), (mlines, mpos)):
                ncm = 0
                for l in lines:
                    if l.startswith("D "):
                        o = l[2:]
                        if o in pos:
                            return bad("object %s destroyed twice%s" % (o, "" if pos is ipos else " (model)"))
                        pos[o] = (s, ncm)
                    else:
                        ncm += 1
        created = set()
        for sg in msegs:
            for l in sg.split("~"):
                if l.startswith("C "):
                    created.add(l.split(" ")[1])
        if leak:
            # no known-finding region any more (C17.createEnv_arg_throw_leaks_context is repaired): the model itself must
            # destroy every object once every context is released
            return bad("the model leaves %s undestroyed although every context was released" % ",".join(sorted(leak)))
        for o in sorted(created):
            if o not in mpos:
                return bad("model never destroys %s" % o)
            if o not in ipos:
                return bad("object %s is never destroyed although every context was released" % o)
            if ipos[o] < mpos[o]:
                return bad("object %s destroyed at %s, before its last reference is gone (model: %s)" % (o, ipos[o], mpos[o]))
            ub = max([release_seg.get(r, nseg - 1) for r in inv.get(o, [])] or [nseg - 1])
            ub = max(ub, mpos[o][0])
            if ipos[o][0] > ub:
                return bad("object %s destroyed in segment %d, after the release (segment %d) of every context that held it" % (o, ipos[o][0], ub))
        for o in ipos:
            if o not in created:
                return bad("destroy of an object never created: " + o)
        nlive = int(live[5:].split(",")[0])
        if nlive != 0:
            return bad("module reports %d live objects at quiescence" % nlive)

    def replay(self, rep):
        return self.run()
