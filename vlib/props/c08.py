"""C08 — a function call depends only on its arguments, never on earlier calls."""
from .. import progen
from ..progen import I, L, S, ERRPRINT, ERRITEM
from ..progcheck import ProgCheck


def fdef(name, params, rt, body, whens=()):
    return ("func", name, list(params), rt, list(body), list(whens))


class C08(ProgCheck):
    pid = "C08"
    proof_modules = ["BlocV.Proofs.C08"]
    rule = ("the same call placed after every prefix of generated call histories: functions with conditionally assigned "
            "locals, locals re-typed between branches, recursion (incl. to the limit of 255 nested calls and one beyond), "
            "mutual recursion, calls failing inside the body or in argument evaluation, overloads by arity, arguments "
            "that call the same function; the printed results of the probe call must equal the model's (which starts every "
            "call from unset locals); plus seeded random programs with functions. Family errrec-history: functions that read "
            "error@1/@2/@3 at entry, after histories of calls whose own `when` clause failed (the record stays in the recycled "
            "context), recursion (several cached contexts, LIFO order), the same function called in its own argument list, a failing "
            "argument (context handed back), re-execution of the function statement (cache dropped). Family end-forms: one function "
            "whose call ends in every way (valueless `return;`, falling off the end, `return null;`, `return <expr>;`, a raise handled inside, "
            "a raise escaping, break / continue / valueless return / value return inside loops inside the function), histories of 3..6 calls "
            "mixing the forms, each later call must run its whole body (it prints at entry and at its tail) and return as a fresh call; "
            "recursion-depth histories (first used at depth d1, then d2, then d1 again, d in 1..256). Family receiver-forms: in-place "
            "members on NON-storage receivers ((s + null).concat(x), substr(s,0).concat(y), idf(t).put(0,1), idf(s).concat, literals, "
            "constructor results) followed by a print of the variable that must be unchanged. Family reclimit-after-cache: runaway "
            "recursion (direct F -> F, mutual P -> Q -> P) entered through a wrapper that puts k frames below it, k in {0,1,2,100,200,254,255}, "
            "AFTER histories that filled the per-function context caches (finished recursions of depth 1, 10, 250, 255, finished ones "
            "through a wrapper, runs that hit the limit, mixed F / P / wrapper histories), every function printing at entry: the run must "
            "end with the recursion-limit error after exactly 255 - k chain levels, with the same printed output as the model's and as "
            "the same probe after every other history (the history-free one included). distinct = program text.")

    def gen_cases(self):
        quick = self.tier == "quick"
        cases = []
        n = 0

        def add(prog, meta):
            nonlocal n
            n += 1
            cases.append(self.prog_case("c%d" % n, prog, meta))

        # library of functions with history-sensitive shapes
        F = [
            fdef("FA", ["B7"], "i", [("if", [(("var", "B7"), [("let", "X", I(42))])]), ("return", ("var", "X"))]),
            fdef("FB", ["I7"], "s", [("if", [(("bin", "GT", ("var", "I7"), I(0)), [("let", "Y", S("pos"))]),
                                              (("bin", "LT", ("var", "I7"), I(0)), [("let", "Y", S("neg")), ("let", "Z", I(1))])]),
                                     ("print", [("var", "Y"), ("var", "Z")]), ("return", ("var", "Y"))]),
            fdef("FC", ["I7"], "i", [("if", [(("bin", "LE", ("var", "I7"), I(0)), [("return", I(0))])]),
                                     ("let", "T", ("fcall", "FC", [("bin", "SUB", ("var", "I7"), I(1))])),
                                     ("return", ("bin", "ADD", ("var", "T"), ("var", "I7")))]),
            fdef("FD", ["I7"], "i", [("let", "Q", ("bin", "DIV", I(10), ("var", "I7"))), ("let", "W", ("var", "Q")), ("return", ("var", "W"))],
                 []),
            fdef("FE", ["I7"], "i", [("let", "Q", ("bin", "DIV", I(10), ("var", "I7"))), ("return", ("var", "Q"))],
                 [("DIVIDE_BY_ZERO", [("return", ("var", "Q"))])]),
            fdef("FG", ["I7", "I8"], "i", [("return", ("bin", "SUB", ("var", "I7"), ("var", "I8")))]),
            fdef("FG", ["I7"], "i", [("return", ("bin", "MUL", ("var", "I7"), I(100)))]),
            fdef("FH", ["I7"], "i", [("if", [(("bin", "GT", ("var", "I7"), I(100)), [("let", "ACC", I(0))]), (("bin", "EQ", ("var", "I7"), I(4)), [("let", "ACC", I(1000))])]),
                                     ("for", "K1", I(1), ("var", "I7"), None, "auto", [("let", "ACC", ("bin", "ADD", ("var", "ACC"), ("var", "K1"))),
                                                                                    ("if", [(("bin", "EQ", ("var", "K1"), I(2)), [("return", ("var", "ACC"))])])]),
                                     ("return", ("var", "ACC"))]),
            fdef("FI", ["I7"], "b", [("if", [(("bin", "EQ", ("var", "I7"), I(0)), [("return", L("B:1"))])]),
                                     ("return", ("fcall", "FJ", [("bin", "SUB", ("var", "I7"), I(1))]))]),
        ]
        FJ = fdef("FJ", ["I7"], "b", [("if", [(("bin", "EQ", ("var", "I7"), I(0)), [("return", L("B:0"))])]),
                                      ("return", ("fcall", "FI", [("bin", "SUB", ("var", "I7"), I(1))]))])
        # FI calls FJ which is declared later: declare a stub first so that FI compiles, then the real pair
        stub = fdef("FJ", ["I7"], "b", [("return", L("B:0"))])
        lib = F[:-1] + [stub, F[-1], FJ]
        calls = [("fcall", "FA", [L("B:1")]), ("fcall", "FA", [L("B:0")]), ("fcall", "FA", [L("N:b0")]),
                 ("fcall", "FB", [I(1)]), ("fcall", "FB", [I(-1)]), ("fcall", "FB", [I(0)]),
                 ("fcall", "FC", [I(3)]), ("fcall", "FC", [I(0)]), ("fcall", "FD", [I(5)]), ("fcall", "FD", [I(0)]),
                 ("fcall", "FE", [I(2)]), ("fcall", "FE", [I(0)]), ("fcall", "FG", [I(10), ("fcall", "FG", [I(5), I(1)])]),
                 ("fcall", "FG", [I(7)]), ("fcall", "FH", [I(1)]), ("fcall", "FH", [I(4)]), ("fcall", "FI", [I(3)]), ("fcall", "FI", [I(4)]),
                 ("fcall", "FG", [("fcall", "FG", [I(2)]), ("fcall", "FG", [I(9), ("fcall", "FG", [I(4), I(1)])])])]

        def guarded(call, tag):
            # each call in its own block so that a failing call does not end the history
            return ("begin", [("print", [S(tag), call])], [("OTHERS", [("print", [S(tag + " failed")])])])

        hist_len = 3 if quick else 4
        nhist = 250 if quick else 4000
        for k in range(nhist):
            hist = [self.rng.choice(calls) for _ in range(self.rng.randint(0, hist_len))]
            probe = self.rng.choice(calls)
            prog = list(lib) + [guarded(c, "h%d" % i) for i, c in enumerate(hist)] + [guarded(probe, "probe")] + [guarded(probe, "again")]
            add(prog, {"family": "history"})
        # every probe call after every single-call history (complete)
        for h in calls:
            for p in calls:
                add(list(lib) + [guarded(h, "h"), guarded(p, "probe")], {"family": "pair"})
        # recursion limit: depth d reached exactly
        for d in (1, 10, 253, 254, 255, 256, 300):
            rec = fdef("R", ["I7"], "i", [("if", [(("bin", "LE", ("var", "I7"), I(1)), [("return", I(1))])]),
                                          ("return", ("bin", "ADD", I(1), ("fcall", "R", [("bin", "SUB", ("var", "I7"), I(1))])))])
            add([rec, ("begin", [("print", [S("depth"), ("fcall", "R", [I(d)])])], []), ("print", [S("not reached when failing")])], {"family": "reclimit"})
            add([rec, ("begin", [("print", [("fcall", "R", [I(3)])]), ("print", [S("depth"), ("fcall", "R", [I(d)])])], [("OTHERS", [("print", [S("caught")])])]),
                 ("print", [("fcall", "R", [I(d - 1 if d > 1 else 1)])])], {"family": "reclimit"})
        # the limit must not depend on the depth at which a recycled context was used before
        rec = fdef("R", ["I7"], "i", [("if", [(("bin", "LE", ("var", "I7"), I(1)), [("return", I(1))])]),
                                      ("return", ("bin", "ADD", I(1), ("fcall", "R", [("bin", "SUB", ("var", "I7"), I(1))])))])
        wr = fdef("WR", ["I7"], "i", [("return", ("fcall", "R", [("var", "I7")]))])
        ww = fdef("WW", ["I7"], "i", [("return", ("fcall", "WR", [("var", "I7")]))])
        for first in (("fcall", "WR", [I(1)]), ("fcall", "WW", [I(2)]), ("fcall", "R", [I(1)]), ("fcall", "R", [I(5)]), ("fcall", "WW", [I(40)])):
            for second in (("fcall", "R", [I(254)]), ("fcall", "R", [I(255)]), ("fcall", "R", [I(256)]), ("fcall", "WR", [I(254)]), ("fcall", "WR", [I(255)]),
                           ("fcall", "WW", [I(253)]), ("fcall", "WW", [I(254)]), ("fcall", "R", [I(3)])):
                add([rec, wr, ww, guarded(first, "first"), guarded(second, "second"), guarded(first, "third")], {"family": "reclimit-history"})
        # ---- the error record of recycled function contexts (finding C08.error_record_survives_in_cached_context)
        STALE = "C08.error_record_survives_in_cached_context"
        failing_clause = lambda nm, again: ("begin", [("raise", nm)], [(nm, [("raise", again)])])
        # FS(b): reports the record at entry; when b: a clause fails (record stays); returns error@1
        fs = fdef("FS", ["B7"], "s", [ERRPRINT("fs"), ("if", [(("var", "B7"), [failing_clause("E1", "E2")])]), ("return", ERRITEM(1))])
        # FT(i): recursion to depth i, the innermost call fails in a clause: one stale record at the bottom of the cache
        ft = fdef("FT", ["I7"], "i", [("print", [S("ft"), ("var", "I7"), S(":"), ERRITEM(1), ERRITEM(3)]),
                                      ("if", [(("bin", "GT", ("var", "I7"), I(0)), [("return", ("fcall", "FT", [("bin", "SUB", ("var", "I7"), I(1))]))]),
                                              (("bin", "EQ", ("var", "I7"), I(0)), [failing_clause("DIVIDE_BY_ZERO", "E1")])]),
                                      ("return", I(7))])
        # FU(s): identity on strings that reports the record (used in its own argument list)
        fu = fdef("FU", ["S7"], "s", [ERRPRINT("fu"), ("if", [(("bin", "EQ", ("var", "S7"), S("boom")), [failing_clause("E2", "E1")])]),
                                      ("return", ("bin", "ADD", ("var", "S7"), ERRITEM(1)))])
        elib = [fs, ft, fu]
        ecalls = [("fcall", "FS", [L("B:0")]), ("fcall", "FS", [L("B:1")]), ("fcall", "FT", [I(0)]), ("fcall", "FT", [I(1)]), ("fcall", "FT", [I(2)]),
                  ("fcall", "FT", [I(-1)]), ("fcall", "FU", [S("a")]), ("fcall", "FU", [S("boom")]), ("fcall", "FU", [("fcall", "FU", [S("b")])]),
                  ("fcall", "FU", [("fcall", "FU", [S("boom")])]), ("fcall", "FU", [("call", "chr", [I(300)])]), ("fcall", "FS", [("bin", "EQ", ("fcall", "FT", [I(1)]), I(7))])]
        ne = 0
        # the witness and its variants: the same call before and after a failing one must report the same record
        for first in ecalls:
            for mid in ecalls:
                g2 = lambda call, tag: ("begin", [("print", [S(tag), call])], [("OTHERS", [("print", [S("failed")])])])
                prog = elib + [g2(first, "first:"), guarded(mid, "mid"), g2(first, "again:")]
                tag = {"FS": "fs", "FU": "fu"}.get(first[1])
                add(prog, {"family": "errrec-history", "same": [("first", "again", STALE)]})
                ne += 1
        for k in range(150 if quick else 3000):
            hist = [self.rng.choice(ecalls) for _ in range(self.rng.randint(1, 4))]
            prog = list(elib) + [guarded(c, "h%d" % i) for i, c in enumerate(hist)]
            if self.rng.random() < 0.3:
                # executing the function statement again drops the function's cached contexts
                prog.insert(len(elib) + self.rng.randint(0, len(hist)), self.rng.choice(elib))
            add(prog, {"family": "errrec-history"})
            ne += 1
        self.stats["errrec_history_cases"] = ne
        # ---- every way a call can end, then LATER calls of the same function in the recycled context
        def when(m, body):
            return (("bin", "EQ", ("var", "I7"), I(m)), body)
        loop = lambda inner: ("for", "K3", I(1), I(3), None, "auto", [("print", [S("k"), ("var", "K3")]), ("if", [(("bin", "EQ", ("var", "K3"), I(2)), [inner])])])
        fe = fdef("FE", ["I7"], "?", [
            ("if", [(("bin", "EQ", ("var", "I7"), I(99)), [("let", "LOC", I(-1))])]),     # registers the local without assigning it
            ("print", [S("enter"), ("var", "I7"), S(" loc="), ("var", "LOC")]),
            ("let", "LOC", ("var", "I7")),
            ("if", [when(0, [("return", None)]),
                    when(2, [("return", L("N:?0"))]),
                    when(3, [("return", ("bin", "MUL", ("var", "I7"), I(2)))]),
                    when(4, [("begin", [("raise", "E1")], [("E1", [("print", [S("handled")])])])]),
                    when(5, [("raise", "E2")]),
                    when(6, [loop(("break",))]),
                    when(7, [loop(("continue",))]),
                    when(8, [loop(("return", None))]),
                    when(9, [("let", "W3", I(0)), ("while", ("bin", "LT", ("var", "W3"), I(3)), [("let", "W3", ("bin", "ADD", ("var", "W3"), I(1))),
                                                                                        ("if", [(("bin", "EQ", ("var", "W3"), I(2)), [("return", ("var", "W3"))])])])]),
                    when(10, [("begin", [("return", None)], [("OTHERS", [("nop",)])])]),
                    when(11, [("begin", [("raise", "E1")], [("E1", [("return", None)])])])]),
            ("print", [S("tail"), ("var", "I7")])])
        forms = list(range(0, 12))
        nf = 0
        for a in forms:                       # complete: every ordered pair, probed a third time
            for b in forms:
                add([fe, guarded(("fcall", "FE", [I(a)]), "a"), guarded(("fcall", "FE", [I(b)]), "b"), guarded(("fcall", "FE", [I(a)]), "c")], {"family": "end-forms"})
                nf += 1
        for _ in range(200 if quick else 4000):
            hist = [self.rng.choice(forms) for _ in range(self.rng.randint(3, 6))]
            add([fe] + [guarded(("fcall", "FE", [I(m)]), "h%d" % i) for i, m in enumerate(hist)], {"family": "end-forms"})
            nf += 1
        # the same inside a caller function (the callee's context is recycled across calls made from another function's context)
        fcaller = fdef("FQ", ["I7", "I8"], "i", [("let", "R1", ("fcall", "FE", [("var", "I7")])), ("print", [S("mid")]), ("let", "R2", ("fcall", "FE", [("var", "I8")])),
                                                ("print", [S("r"), ("var", "R1"), S(","), ("var", "R2")]), ("return", I(1))])
        for a in forms:
            for b in (forms if not quick else forms[::2]):
                add([fe, fcaller, guarded(("fcall", "FQ", [I(a), I(b)]), "q"), guarded(("fcall", "FE", [I(1)]), "after")], {"family": "end-forms"})
                nf += 1
        self.stats["end_forms_cases"] = nf
        # recursion depth histories: the same function first used at depth d1, then d2, then d1
        rec2 = fdef("R", ["I7"], "i", [("if", [(("bin", "LE", ("var", "I7"), I(1)), [("return", I(1))])]),
                                       ("return", ("bin", "ADD", I(1), ("fcall", "R", [("bin", "SUB", ("var", "I7"), I(1))])))])
        depths = (1, 2, 100, 253, 254, 255, 256)
        for d1 in depths:
            for d2 in depths:
                if quick and (depths.index(d1) + depths.index(d2)) % 2:
                    continue
                add([rec2, guarded(("fcall", "R", [I(d1)]), "d1"), guarded(("fcall", "R", [I(d2)]), "d2"), guarded(("fcall", "R", [I(d1)]), "d1again")],
                    {"family": "depth-history"})
        # ---- the recursion limit after histories that filled the per-function caches of contexts (seeded change C08-m4: the depth is only
        # tested when a NEW context is created). The recursion-limit error is not catchable: a history that runs into it is a first
        # program of its own (prog2_case: same context, the functions and their caches persist), the probe is the second program.
        BIG = I(100000)
        N7, M7, K7 = ("var", "N7"), ("var", "M7"), ("var", "K7")
        def chain(me, nxt, tag):
            return fdef(me, ["N7", "M7"], "i", [("print", [S(tag + " "), N7]), ("if", [(("bin", "GE", N7, M7), [("return", N7)])]),
                                               ("return", ("fcall", nxt, [("bin", "ADD", N7, I(1)), M7]))])
        def wrapper(me, target):       # me(k) puts k + 1 frames below a runaway call of target
            return fdef(me, ["K7"], "i", [("if", [(("bin", "GT", K7, I(0)), [("return", ("fcall", me, [("bin", "SUB", K7, I(1))]))])]),
                                          ("return", ("fcall", target, [I(1), BIG]))])
        hh = fdef("H", ["K7", "M7"], "i", [("if", [(("bin", "GT", K7, I(0)), [("return", ("fcall", "H", [("bin", "SUB", K7, I(1)), M7]))])]),
                                           ("return", ("fcall", "F", [I(1), M7]))])       # a FINISHED recursion of F entered k + 1 frames up
        qstub = fdef("Q", ["N7", "M7"], "i", [("return", I(0))])
        rlib = [chain("F", "F", "f"), wrapper("G", "F"), hh, qstub, chain("P", "Q", "p"), chain("Q", "P", "q"), wrapper("GP", "P")]
        fin = lambda call, tag: guarded(call, tag)
        FC = lambda nm, *a: ("fcall", nm, [x if isinstance(x, tuple) else I(x) for x in a])
        histories = [
            ("none", []), ("F1", [fin(FC("F", 1, 1), "h")]), ("F10", [fin(FC("F", 1, 10), "h")]), ("F250", [fin(FC("F", 1, 250), "h")]),
            ("F255", [fin(FC("F", 1, 255), "h")]), ("Ffail", [fin(FC("F", 1, BIG), "h")]), ("Gfail", [fin(FC("G", 99), "h")]),
            ("Hfin", [fin(FC("H", 100, 100), "h")]), ("P250", [fin(FC("P", 1, 250), "h")]), ("Pfail", [fin(FC("P", 1, BIG), "h")]),
            ("mixed-finished", [fin(FC("F", 1, 250), "h0"), fin(FC("P", 1, 250), "h1"), fin(FC("H", 50, 200), "h2")]),
            ("finished-then-failed", [fin(FC("F", 1, 10), "h0"), fin(FC("P", 1, 120), "h1"), fin(FC("GP", 150), "h2")]),
        ]
        nrl = 0
        for hname, hist in histories:
            for k in (0, 1, 2, 100, 200, 254, 255):
                for wname, target in (("G", "F"), ("GP", "P")):
                    probe = FC(target, 1, BIG) if k == 0 else FC(wname, k - 1)
                    n += 1
                    cases.append(self.prog2_case("c%d" % n, rlib + hist, [("print", [S("PHASE2")]), ("let", "Y", probe), ("print", [S("not reached")])],
                                                 {"family": "reclimit-after-cache", "probe": "%s/%d" % (target, k), "frames": k, "history": hname}))
                    nrl += 1
        self.stats["reclimit_after_cache_cases"] = nrl
        # ---- in-place members on NON-storage receivers: they work on a copy, the variable behind is unchanged (repo 876bec0, a40085e)
        idt = fdef("IDT", ["T"], "?", [("return", ("var", "T"))])
        nr = 0
        sv, tv = ("var", "S1"), ("var", "TT")
        srecv = [("bin", "ADD", sv, L("N:s0")), ("bin", "ADD", sv, S("")), ("call", "substr", [sv, I(0)]), ("call", "upper", [sv]), ("call", "str", [sv]),
                 S("lit"), L("N:s0"), ("bin", "ADD", L("N:s0"), L("N:s0"))]
        for rv in srecv:
            for arg in (S("x"), L("N:s0"), sv):
                add([("let", "S1", S("ab")), ("print", [S("r:"), ("member", "concat", rv, [arg])]), ("print", [S("s:"), sv])], {"family": "receiver-forms"})
                add([("let", "S1", S("ab")), ("for", "K", I(1), I(2), None, "auto", [("print", [S("r:"), ("member", "concat", rv, [arg])])]), ("print", [S("s:"), sv])],
                    {"family": "receiver-forms"})
                nr += 2
        trecv = [("call", "tab", [I(2), I(1)]), ("fcall", "IDT", [tv])]
        for rv in trecv:
            for m, args in (("put", [I(0), I(5)]), ("insert", [I(0), I(5)]), ("delete", [I(0)]), ("concat", [I(9)])):
                add([idt, ("let", "TT", ("call", "tab", [I(2), I(1)])), ("print", [S("r:"), ("member", "count", ("member", m, rv, args), [])]),
                     ("print", [S("t:"), ("member", "count", tv, []), S(" "), ("member", "at", tv, [I(0)])])], {"family": "receiver-forms"})
                nr += 1
        # chained in-place members designate the storage of their first receiver: the variable changes at every link (model: `rootVar`)
        chain = lambda m1, a1, m2, a2: ("member", m2, ("member", m1, tv, a1), a2)
        links = (("put", [I(0), I(7)]), ("insert", [I(0), I(6)]), ("delete", [I(0)]), ("concat", [I(9)]))
        for m1, a1 in links:
            for m2, a2 in links:
                add([("let", "TT", ("call", "tab", [I(2), I(1)])), ("let", "Y", ("member", "count", chain(m1, a1, m2, a2), [])),
                     ("print", [S("y:"), ("var", "Y"), S(" t:"), ("member", "count", tv, []), S(" "), ("member", "at", tv, [I(0)])])], {"family": "receiver-forms"})
                nr += 1
        add([("let", "S1", S("ab")), ("print", [S("r:"), ("member", "concat", ("member", "concat", sv, [S("x")]), [S("y")])]), ("print", [S("s:"), sv])], {"family": "receiver-forms"})
        add([idt, ("let", "TT", ("call", "tab", [I(2), I(1)])), ("let", "Y", ("member", "count", ("member", "put", ("member", "put", ("fcall", "IDT", [tv]), [I(0), I(7)]), [I(1), I(8)]), [])),
             ("print", [S("y:"), ("var", "Y"), S(" t:"), ("member", "at", tv, [I(0)])])], {"family": "receiver-forms"})
        nr += 2
        self.stats["receiver_forms_cases"] = nr
        for k in range(300 if quick else 5000):
            g = progen.Gen(self.rng, nvars=2, funcs=True, errors=0.1, errrec=(0.08 if k % 2 else 0.0), extras=(0.15 if k % 3 else 0.0), mathx=(0.2 if k % 4 == 1 else 0.0))
            add(g.program(nstmts=self.rng.randint(3, 7), depth=2), {"family": "random"})
            for kk, vv in g.stats.items():
                if kk.startswith(("error-", "handler-reports", "function-clause", "function-reads", "isnull", "mathx-")):
                    self.stats.setdefault("errrec_random", {})[kk] = self.stats.get("errrec_random", {}).get(kk, 0) + vv
        self.stats["cases"] = n
        return cases

    def judge(self, c, iraw, m, stderr):
        r = ProgCheck.judge(self, c, iraw, m, stderr)
        probe = c.meta.get("probe")
        if probe is None:
            return r
        # Spec-level oracle on the implementation alone: exactly 255 nested calls, whatever ran before
        outcome, out, _ = self.split_impl(c, iraw)
        if out is None:
            return r
        text = bytes.fromhex(out).decode("latin-1")
        if "PHASE2\n" not in text:
            return self.record_violation("the probe program did not start (history `%s`)" % c.meta["history"], c, outcome, m)
        ph2 = text.split("PHASE2\n", 1)[1]
        levels = sum(1 for ln in ph2.split("\n") if ln[:2] in ("f ", "p ", "q "))
        seen = self.__dict__.setdefault("_phase2", {})
        if levels != 255 - c.meta["frames"] or "not reached" in ph2:
            return self.record_violation("runaway recursion entered %d frames up ran %d levels (expected %d = 255 - %d) after history `%s`" % (
                c.meta["frames"], levels, 255 - c.meta["frames"], c.meta["frames"], c.meta["history"]), c, outcome, m)
        second = (outcome or "").split(";")[-1]
        ref = seen.setdefault(probe, (c.meta["history"], second, ph2))
        if ref[1:] != (second, ph2):
            return self.record_violation("the same call behaves differently after history `%s` than after history `%s`: outcome %s / %s, %d / %d lines" % (
                c.meta["history"], ref[0], second, ref[1], ph2.count("\n"), ref[2].count("\n")), c, outcome, m)
        return r
