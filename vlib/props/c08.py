"""C08 — a function call depends only on its arguments, never on earlier calls."""
from .. import progen
from ..progen import I, L, S
from ..progcheck import ProgCheck


def fdef(name, params, rt, body, whens=()):
    return ("func", name, list(params), rt, list(body), list(whens))


class C08(ProgCheck):
    pid = "C08"
    proof_modules = ["BlocV.Proofs.C08"]
    rule = ("the same call placed after every prefix of generated call histories: functions with conditionally assigned "
            "locals, locals re-typed between branches, recursion (incl. to the limit of 255 nested calls and one beyond), "
            "mutual recursion, calls failing inside the body or in argument evaluation, overloads by arity, arguments "
            "that call the same function; the printed results of the probe call must equal the model's (which starts every "
            "call from unset locals); plus seeded random programs with functions. distinct = program text.")

    def gen_cases(self):
        quick = self.tier == "quick"
        cases = []
        n = 0

        def add(prog, meta):
            nonlocal n
            n += 1
            cases.append(self.prog_case("c%d" % n, prog, meta))

        # library of functions with history-sensitive shapes
        F = [
            fdef("FA", ["B7"], "i", [("if", [(("var", "B7"), [("let", "X", I(42))])]), ("return", ("var", "X"))]),
            fdef("FB", ["I7"], "s", [("if", [(("bin", "GT", ("var", "I7"), I(0)), [("let", "Y", S("pos"))]),
                                              (("bin", "LT", ("var", "I7"), I(0)), [("let", "Y", S("neg")), ("let", "Z", I(1))])]),
                                     ("print", [("var", "Y"), ("var", "Z")]), ("return", ("var", "Y"))]),
            fdef("FC", ["I7"], "i", [("if", [(("bin", "LE", ("var", "I7"), I(0)), [("return", I(0))])]),
                                     ("let", "T", ("fcall", "FC", [("bin", "SUB", ("var", "I7"), I(1))])),
                                     ("return", ("bin", "ADD", ("var", "T"), ("var", "I7")))]),
            fdef("FD", ["I7"], "i", [("let", "Q", ("bin", "DIV", I(10), ("var", "I7"))), ("let", "W", ("var", "Q")), ("return", ("var", "W"))],
                 []),
            fdef("FE", ["I7"], "i", [("let", "Q", ("bin", "DIV", I(10), ("var", "I7"))), ("return", ("var", "Q"))],
                 [("DIVIDE_BY_ZERO", [("return", ("var", "Q"))])]),
            fdef("FG", ["I7", "I8"], "i", [("return", ("bin", "SUB", ("var", "I7"), ("var", "I8")))]),
            fdef("FG", ["I7"], "i", [("return", ("bin", "MUL", ("var", "I7"), I(100)))]),
            fdef("FH", ["I7"], "i", [("if", [(("bin", "GT", ("var", "I7"), I(100)), [("let", "ACC", I(0))]), (("bin", "EQ", ("var", "I7"), I(4)), [("let", "ACC", I(1000))])]),
                                     ("for", "K1", I(1), ("var", "I7"), None, "auto", [("let", "ACC", ("bin", "ADD", ("var", "ACC"), ("var", "K1"))),
                                                                                    ("if", [(("bin", "EQ", ("var", "K1"), I(2)), [("return", ("var", "ACC"))])])]),
                                     ("return", ("var", "ACC"))]),
            fdef("FI", ["I7"], "b", [("if", [(("bin", "EQ", ("var", "I7"), I(0)), [("return", L("B:1"))])]),
                                     ("return", ("fcall", "FJ", [("bin", "SUB", ("var", "I7"), I(1))]))]),
        ]
        FJ = fdef("FJ", ["I7"], "b", [("if", [(("bin", "EQ", ("var", "I7"), I(0)), [("return", L("B:0"))])]),
                                      ("return", ("fcall", "FI", [("bin", "SUB", ("var", "I7"), I(1))]))])
        # FI calls FJ which is declared later: declare a stub first so that FI compiles, then the real pair
        stub = fdef("FJ", ["I7"], "b", [("return", L("B:0"))])
        lib = F[:-1] + [stub, F[-1], FJ]
        calls = [("fcall", "FA", [L("B:1")]), ("fcall", "FA", [L("B:0")]), ("fcall", "FA", [L("N:b0")]),
                 ("fcall", "FB", [I(1)]), ("fcall", "FB", [I(-1)]), ("fcall", "FB", [I(0)]),
                 ("fcall", "FC", [I(3)]), ("fcall", "FC", [I(0)]), ("fcall", "FD", [I(5)]), ("fcall", "FD", [I(0)]),
                 ("fcall", "FE", [I(2)]), ("fcall", "FE", [I(0)]), ("fcall", "FG", [I(10), ("fcall", "FG", [I(5), I(1)])]),
                 ("fcall", "FG", [I(7)]), ("fcall", "FH", [I(1)]), ("fcall", "FH", [I(4)]), ("fcall", "FI", [I(3)]), ("fcall", "FI", [I(4)]),
                 ("fcall", "FG", [("fcall", "FG", [I(2)]), ("fcall", "FG", [I(9), ("fcall", "FG", [I(4), I(1)])])])]

        def guarded(call, tag):
            # each call in its own block so that a failing call does not end the history
            return ("begin", [("print", [S(tag), call])], [("OTHERS", [("print", [S(tag + " failed")])])])

        hist_len = 3 if quick else 4
        nhist = 250 if quick else 4000
        for k in range(nhist):
            hist = [self.rng.choice(calls) for _ in range(self.rng.randint(0, hist_len))]
            probe = self.rng.choice(calls)
            prog = list(lib) + [guarded(c, "h%d" % i) for i, c in enumerate(hist)] + [guarded(probe, "probe")] + [guarded(probe, "again")]
            add(prog, {"family": "history"})
        # every probe call after every single-call history (complete)
        for h in calls:
            for p in calls:
                add(list(lib) + [guarded(h, "h"), guarded(p, "probe")], {"family": "pair"})
        # recursion limit: depth d reached exactly
        for d in (1, 10, 253, 254, 255, 256, 300):
            rec = fdef("R", ["I7"], "i", [("if", [(("bin", "LE", ("var", "I7"), I(1)), [("return", I(1))])]),
                                          ("return", ("bin", "ADD", I(1), ("fcall", "R", [("bin", "SUB", ("var", "I7"), I(1))])))])
            add([rec, ("begin", [("print", [S("depth"), ("fcall", "R", [I(d)])])], []), ("print", [S("not reached when failing")])], {"family": "reclimit"})
            add([rec, ("begin", [("print", [("fcall", "R", [I(3)])]), ("print", [S("depth"), ("fcall", "R", [I(d)])])], [("OTHERS", [("print", [S("caught")])])]),
                 ("print", [("fcall", "R", [I(d - 1 if d > 1 else 1)])])], {"family": "reclimit"})
        # the limit must not depend on the depth at which a recycled context was used before
        rec = fdef("R", ["I7"], "i", [("if", [(("bin", "LE", ("var", "I7"), I(1)), [("return", I(1))])]),
                                      ("return", ("bin", "ADD", I(1), ("fcall", "R", [("bin", "SUB", ("var", "I7"), I(1))])))])
        wr = fdef("WR", ["I7"], "i", [("return", ("fcall", "R", [("var", "I7")]))])
        ww = fdef("WW", ["I7"], "i", [("return", ("fcall", "WR", [("var", "I7")]))])
        for first in (("fcall", "WR", [I(1)]), ("fcall", "WW", [I(2)]), ("fcall", "R", [I(1)]), ("fcall", "R", [I(5)]), ("fcall", "WW", [I(40)])):
            for second in (("fcall", "R", [I(254)]), ("fcall", "R", [I(255)]), ("fcall", "R", [I(256)]), ("fcall", "WR", [I(254)]), ("fcall", "WR", [I(255)]),
                           ("fcall", "WW", [I(253)]), ("fcall", "WW", [I(254)]), ("fcall", "R", [I(3)])):
                add([rec, wr, ww, guarded(first, "first"), guarded(second, "second"), guarded(first, "third")], {"family": "reclimit-history"})
        for k in range(300 if quick else 5000):
            g = progen.Gen(self.rng, nvars=2, funcs=True, errors=0.1)
            add(g.program(nstmts=self.rng.randint(3, 7), depth=2), {"family": "random"})
        self.stats["cases"] = n
        return cases
