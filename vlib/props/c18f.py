"""C18, file and sqlite3 halves — data written/bound and then read/queried comes back unchanged; any argument is tolerated.

The REAL modules (libbloc_file.so, libbloc_sqlite3.so of the ASan+UBSan build of /repo) are driven by BLOC statements
run in-process through harness/blocprobe (trusted context, `import file; import sqlite3;`), one `prog` per method call,
on scratch files under /var/tmp/blocv-c18f-* (removed at the end). Every case is also given to the Lean models
(lean/BlocV/Model/Mod/File.lean, Sqlite.lean through the driver commands `fil` / `sql` of lean/BlocV/DrvC18F.lean) and
the file / database is read back by an independent reader (Python `open(..,'rb')`, Python's own `sqlite3`).

Compared textually: the per-call results (`I:3,S:616263;B:1;E;…`) and the final content (`final=` / `db=`), where the
implementation side's `final=` / `db=` comes from the independent reader. The models have no hazard answer any more (the read
preallocation, the empty-bytes write, the dangling statement after close(), the SQLITE_STATIC bind, utf8 reserve() and the null
last element of csv deserialize_next are repaired): a crash
of the probe or a foreign C++ exception is a violation. (A model answer `H:<hazard>` would be accepted only with
kf=<listed KNOWN finding>; none is left.) The utf8 plugin's `at` range check is driven here as well (family u8.plugin_at).

`run_half(check)` is what `C18.run` calls; the class `C18F` runs this half alone (`./check C18F`)."""
import json
import os
import re
import shutil
import sqlite3 as pysqlite
import struct
import tempfile
import time
from concurrent.futures import ThreadPoolExecutor

from .. import build, build_vmod, run
from ..core import Case, Check, log, parse_model

I64MAX, I64MIN = 2 ** 63 - 1, -(2 ** 63)

SIZES = {
    "quick": {"rand_u8ops": 150, "rand_file": 500, "rand_sql": 300, "hist_sql": 120, "rand_u8case": 60, "big_reads": 1, "ln_rand": 60, "vals_rand": 40},
    "thorough": {"rand_u8ops": 3000, "rand_file": 6000, "rand_sql": 4000, "hist_sql": 2000, "rand_u8case": 1500, "big_reads": 3, "ln_rand": 600, "vals_rand": 400},
}

FILE_SIZES = [0, 1, 4095, 4096, 4097, 8191, 8192, 10000]
READ_COUNTS = [0, 1, 100, 4095, 4096, 4097, 4106, 5000, 8192, 9000]
MODES = ["r", "w", "a", "r+", "w+", "a+", "rb", "wb", "ab", "rb+", "wb+", "ab+", "r+b", "w+b", "a+b",
         "rw", "wr", "ra", "ar", "rr", "x", "", "+", "b", "wx", "w+x", "ax", "rx", "a+r", "rbbbbbb+", "rbbbbb+", "r\0+", "w\0r",
         "R", "W", " r", "r ", "wt", "rt+", "rm", "re", "rc"]
GOOD_MODES = ["r", "w", "a", "r+", "w+", "a+", "rb", "wb+", "ab+"]


def hx(b):
    return bytes(b).hex()


def dot(b):
    return bytes(b).hex() if len(b) else "."


def sval(b, kind="S"):
    return "N:%s0" % ("s" if kind == "S" else "r") if b is None else "%s:%s" % ("S" if kind == "S" else "R", bytes(b).hex())


# ------------------------------------------------------------------------------------------------ file cases
class FileCase:
    """one history of a `file` object: builds the probe ops and the model words side by side"""

    def __init__(self, path, init):
        self.path, self.init = path, init
        self.toks = []           # model op tokens
        self.progs = []          # per op: list of BLOC statements (1 or 2 probe `prog` ops)
        self.sets = [("S", "S:3f"), ("X", "R:3f"), ("L", "S:3f")]
        self.nvar = 0

    def var(self, canon):
        self.nvar += 1
        name = "A%d" % self.nvar
        self.sets.append((name, canon))
        return name

    def pathtok(self, p):
        return "null" if p is None else "@" if p == "@" else dot(p)

    def pathvar(self, p):
        return self.var(sval(self.path.encode() if p == "@" else p))

    def add(self, tok, *stmts):
        self.toks.append(tok)
        self.progs.append(list(stmts))

    # -- ops
    def ctor0(self):
        self.add("n0", "F = file(); return true;")

    def ctor(self, p, m):
        self.add("n:%s:%s" % (self.pathtok(p), "null" if m is None else dot(m)),
                 "F = file(%s, %s); return true;" % (self.pathvar(p), self.var(sval(m))))

    def open(self, p, m):
        self.add("o:%s:%s" % (self.pathtok(p), "null" if m is None else dot(m)),
                 "return F.open(%s, %s);" % (self.pathvar(p), self.var(sval(m))))

    def close(self):
        self.add("c", "return F.close();")

    def write(self, d, kind):
        self.add("%s:%s" % ("ws" if kind == "S" else "wb", "null" if d is None else dot(d)), "return F.write(%s);" % self.var(sval(d, kind)))

    def read(self, n, kind):
        v = self.var("N:i0" if n is None else "I:%d" % n)
        if kind == "S":
            self.add("rs:%s" % ("null" if n is None else n), "S = \"?\"; return F.read(S, %s);" % v, "return S;")
        else:
            self.add("rb:%s" % ("null" if n is None else n), "return F.read(X, %s);" % v, "return X;")

    def readln(self):
        self.add("l", "L = \"?\"; return F.readln(L);", "return L;")

    def seek(self, how, n):
        v = self.var("N:i0" if n is None else "I:%d" % n)
        self.add("%s:%s" % ({"set": "ss", "cur": "sc", "end": "se"}[how], "null" if n is None else n), "return F.seek%s(%s);" % (how, v))

    def simple(self, tok):
        if tok == "c":
            return self.close()
        meth = {"p": "position", "f": "flush", "io": "isopen", "m": "mode", "fn": "filename", "fd": "dirname", "fb": "basename",
                "fs": "stat", "sep": "separator"}[tok]
        self.add(tok, "return F.%s();" % meth)

    def pathfn(self, tok, p):
        meth = {"st": "stat", "di": "dir", "dn": "dirname", "bn": "basename"}[tok]
        self.add("%s:%s" % (tok, self.pathtok(p)), "return F.%s(%s);" % (meth, self.pathvar(p)))

    # -- lines
    def model_line(self, maxoff):
        init = "-" if self.init is None else dot(self.init)
        return "fil %d %s %s %s" % (maxoff, hx(self.path.encode()), init, " ".join(self.toks))

    def impl_line(self):
        ops = ["new 0 t"] + ["set 0 %s %s" % (hx(n.encode()), v) for n, v in self.sets]
        ops.append("prog 0 " + hx(b"import file; F = file();"))
        for st in self.progs:
            for s in st:
                ops.append("prog 0 " + hx(s.encode()))
        return "|".join(ops)

    def nsetup(self):
        return 1 + len(self.sets) + 1


def val_of(res):
    """probe answer of one `prog` -> canonical token"""
    if res.startswith("ok "):
        return res[3:]
    if res == "ok-":
        return "-"
    if res.startswith("rerr "):
        return "E" if res.split(" ")[1] == "2" else "Q" if res.split(" ")[1] == "1" else "E" + res.split(" ")[1]
    return "?" + res.replace(" ", "_")[:80]


def file_impl_answer(fc, iraw, final):
    """canonical implementation answer: `<tok>;<tok>;… final=<hex>` (or the crash / foreign-exception text)"""
    if iraw.startswith("crash ") or iraw.endswith("diverges"):
        return iraw
    parts = iraw.split("|")
    if any(p.startswith("foreign-exception") or p.startswith("uncaught-") for p in parts):
        return "foreign-exception " + "|".join(p for p in parts[fc.nsetup():] if p)[-160:]
    setup = parts[:fc.nsetup()]
    if any(p != "ok" and p != "ok-" for p in setup):
        return "setup-failed " + "|".join(setup)[:200]
    res = parts[fc.nsetup():]
    toks = []
    k = 0
    for st in fc.progs:
        r = [val_of(x) for x in res[k:k + len(st)]]
        k += len(st)
        if len(r) < len(st):
            toks.append("?missing")
        elif len(st) == 1:
            toks.append(r[0])
        elif r[0].startswith("I:"):
            toks.append(r[0] + "," + r[1])
        elif r[0] == "B:1":
            toks.append("B:1," + r[1])
        else:
            toks.append(r[0])
    return ";".join(toks) + " final=" + final


PAIR_MODES = ["r", "w", "a", "r+", "w+", "a+", "rb", "wb", "ab", "rb+", "w+b", "ab+"]
PAIR_OPS = ["rs:3", "rb:2", "ws:5859", "l", "ss:1", "se:0", "p", "f"]
PAIR_INIT = b"abcdef\nghi"


def py_posix_history(path, init, mode, toks):
    """the independent oracle of the family file.modepairs: the same history on a file of its own through the operating system's
    calls (os.open / os.read / os.write / os.lseek: no stdio, no BLOC), answered in the vocabulary of `file_impl_answer`.
    Only for histories whose switches of direction go through a seek (there the C stream and the descriptor agree)."""
    with open(path, "wb") as f:
        f.write(init)
    plus = "+" in mode
    kind = mode[0]
    can_r = kind == "r" or plus
    can_w = kind in "wa" or plus
    flags = {"r": os.O_RDONLY, "w": os.O_WRONLY | os.O_CREAT | os.O_TRUNC, "a": os.O_WRONLY | os.O_CREAT | os.O_APPEND}[kind]
    if plus:
        flags = (flags & ~(os.O_RDONLY | os.O_WRONLY)) | os.O_RDWR
    fd = os.open(path, flags, 0o644)
    out = []
    try:
        for t in toks:
            w = t.split(":")
            if w[0] == "o":
                out.append("I:0")
            elif w[0] == "c":
                out.append("B:1")
            elif w[0] in ("rs", "rb"):
                if not can_r:
                    out.append("E")
                    continue
                d = os.read(fd, int(w[1]))
                out.append("I:%d,%s:%s" % (len(d), "S" if w[0] == "rs" else "R", d.hex()))
            elif w[0] in ("ws", "wb"):
                if not can_w:
                    out.append("E")
                    continue
                d = bytes.fromhex(w[1])
                out.append("I:%d" % os.write(fd, d))
            elif w[0] == "l":
                if not can_r:
                    out.append("E")
                    continue
                here = os.lseek(fd, 0, os.SEEK_CUR)
                d = os.read(fd, 4096)
                k = d.find(b"\n")
                line = d if k < 0 else d[:k + 1]
                os.lseek(fd, here + len(line), os.SEEK_SET)
                out.append("B:1,S:" + line.hex() if line else "B:0")
            elif w[0] in ("ss", "se", "sc"):
                os.lseek(fd, int(w[1]), {"ss": os.SEEK_SET, "se": os.SEEK_END, "sc": os.SEEK_CUR}[w[0]])
                out.append("I:0")
            elif w[0] == "p":
                out.append("I:%d" % os.lseek(fd, 0, os.SEEK_CUR))
            elif w[0] == "f":
                out.append("B:1")
            else:
                out.append("?" + t)
    finally:
        os.close(fd)
    with open(path, "rb") as f:
        final = f.read()
    return ";".join(out) + " final=" + dot(final)


def mask_unmodelled(impl, model):
    """tokens the model answers `U` (stat, dir: they read the real file system) are not compared; nothing is compared
    from a `U!` on (direction of an update stream switched without repositioning: undefined by C11 7.21.5.3 p7)"""
    if " final=" not in impl or " final=" not in model:
        return impl, model
    it, ifin = impl.split(" final=", 1)
    mt, mfin = model.split(" final=", 1)
    a, b = it.split(";"), mt.split(";")
    if "U!" in b:
        k = b.index("U!")
        return ";".join("U" if y == "U" and not x.startswith("?") else x for x, y in zip(a[:k], b[:k])), ";".join(b[:k])
    if len(a) != len(b):
        return impl, model
    return ";".join("U" if y == "U" and not x.startswith("?") else x for x, y in zip(a, b)) + " final=" + ifin, model


# ------------------------------------------------------------------------------------------------ utf8 plugin: at()
class U8AtCase:
    """`U = utf8(S); U.at(P)` through the REAL utf8 plugin (the range check of plugin_utf8.cpp case At), against the
    driver command `u8 at <hex> <pos>` (Utf8.pluginAt). One case = one string, several positions."""

    def __init__(self, text, positions):
        self.text, self.positions = text, positions
        self.kind = "u8.plugin_at"
        self.toks = ["at:%s" % ("null" if p is None else p) for p in positions]

    def model_lines(self):
        return ["u8 at %s %s" % (dot(self.text), "null" if p is None else p) for p in self.positions]

    def impl_line(self):
        ops = ["new 0 t", "set 0 %s S:%s" % (hx(b"S"), hx(self.text))]
        for i, p in enumerate(self.positions):
            ops.append("set 0 %s %s" % (hx(("P%d" % i).encode()), "N:i0" if p is None else "I:%d" % p))
        ops.append("prog 0 " + hx(b"import utf8; U = utf8(S);"))
        for i in range(len(self.positions)):
            ops.append("prog 0 " + hx(("return U.at(P%d);" % i).encode()))
        return "|".join(ops)

    def nsetup(self):
        return 2 + len(self.positions) + 1


def u8_impl_answers(uc, iraw):
    """per position: `ok I:<v>` | `rerr invalid` | `rerr range` (the vocabulary of the driver's `u8 at`)"""
    if iraw.startswith("crash ") or iraw.endswith("diverges"):
        return None
    parts = iraw.split("|")
    if any(p.startswith("foreign-exception") or p.startswith("uncaught-") for p in parts):
        return None
    if any(p != "ok" and p != "ok-" for p in parts[:uc.nsetup()]):
        return None
    out = []
    for r in parts[uc.nsetup():]:
        out.append("rerr invalid" if r == "rerr 2" else "rerr range" if r == "rerr 22" else r)
    return out


# ------------------------------------------------------------------------------------------------ utf8 plugin: every method
class U8OpsCase:
    """a history of method calls on `U = utf8(S)` (second object `V = utf8(T)`, typed null object `NO`) through the REAL
    utf8 plugin, against the driver command `u8p` (Utf8.pstep: the plugin's method table). After every call the state is
    read back with count() / rawsize() / string()."""
    MEM = 1 << 32          # the model's memLimit: requests are either <= 10^6 elements or >= 2^40 (never in between)
    NEW_LIMIT = MEM * 4    # ... in bytes (elements are uint32_t): what harness/newlimit.cpp refuses with std::bad_alloc

    def __init__(self, text, other):
        self.text, self.other = text, other
        self.kind = "u8.plugin_ops"
        self.toks = []
        self.progs = []
        self.sets = []
        self.nvar = 0

    def var(self, canon):
        self.nvar += 1
        n = "A%d" % self.nvar
        self.sets.append((n, canon))
        return n

    def ivar(self, n):
        return self.var("N:i0" if n is None else "I:%d" % n)

    @staticmethod
    def itok(n):
        return "null" if n is None else str(n)

    def add(self, tok, stmt):
        self.toks.append(tok)
        self.progs.append([stmt, "return U.count();", "return U.rawsize();", "return U.string();"])

    def who(self, w):
        return {"s": "U", "o": "V", None: "NO"}[w], ("null" if w is None else w)

    def op(self, name, *a):
        it = self.itok
        if name in ("em", "ct", "rw", "cl", "st"):
            self.add(name, "return U.%s();" % {"em": "empty", "ct": "count", "rw": "rawsize", "cl": "clear", "st": "string"}[name])
        elif name in ("tu", "tl", "tc", "tn", "tt"):
            self.add(name, "return U.%s().count();" % {"tu": "toupper", "tl": "tolower", "tc": "capitalize", "tn": "normalize", "tt": "translit"}[name])
        elif name == "rv":
            self.add("rv:%s" % it(a[0]), "return U.reserve(%s);" % self.ivar(a[0]))
        elif name == "ap":
            self.add("ap:%s" % it(a[0]), "return U.append(%s).count();" % self.ivar(a[0]))
        elif name == "al":
            self.add("al:%s" % ("null" if a[0] is None else dot(a[0])), "return U.append(%s).count();" % self.var(sval(a[0])))
        elif name == "cc":
            v, w = self.who(a[0])
            self.add("cc:%s" % w, "return U.concat(%s).count();" % v)
        elif name == "at":
            self.add("at:%s" % it(a[0]), "return U.at(%s);" % self.ivar(a[0]))
        elif name == "rm":
            self.add("rm:%s:%s" % (it(a[0]), it(a[1])), "return U.remove(%s, %s);" % (self.ivar(a[0]), self.ivar(a[1])))
        elif name == "in":
            self.add("in:%s:%s" % (it(a[0]), it(a[1])), "return U.insert(%s, %s);" % (self.ivar(a[0]), self.ivar(a[1])))
        elif name == "ic":
            v, w = self.who(a[1])
            self.add("ic:%s:%s" % (it(a[0]), w), "return U.insert(%s, %s);" % (self.ivar(a[0]), v))
        elif name == "s1":
            self.add("s1:%s" % it(a[0]), "return U.substr(%s);" % self.ivar(a[0]))
        elif name == "s2":
            self.add("s2:%s:%s" % (it(a[0]), it(a[1])), "return U.substr(%s, %s);" % (self.ivar(a[0]), self.ivar(a[1])))
        else:
            raise ValueError(name)

    def model_line(self):
        return "u8p %d %s %s %s" % (self.MEM, "null" if self.text is None else dot(self.text), dot(self.other), " ".join(self.toks))

    def impl_line(self):
        ops = ["new 0 t", "set 0 %s %s" % (hx(b"S"), sval(self.text)), "set 0 %s %s" % (hx(b"T"), sval(self.other))]
        ops += ["set 0 %s %s" % (hx(n.encode()), v) for n, v in self.sets]
        ops.append("prog 0 " + hx(b"import utf8; U = utf8(S); V = utf8(T);"))
        ops.append("set 0 %s N:o0:1" % hx(b"NO"))          # a null object of the utf8 type (the first imported module: minor 1)
        for st in self.progs:
            for x in st:
                ops.append("prog 0 " + hx(x.encode()))
        return "|".join(ops)

    def nsetup(self):
        return 3 + len(self.sets) + 2


_CM_ENTRY = re.compile(r'\{\s*0x([0-9a-fA-F]+)\s*,\s*0x([0-9a-fA-F]+)\s*,\s*0x([0-9a-fA-F]+)\s*,\s*([A-Za-z| ]+?)\s*,\s*"((?:[^"\\]|\\.)*)"')
_CM_CAT = {"None": 0, "IsSpace": 1, "IsBreaker": 2, "IsControl": 4, "IsModifier": 8, "IsDiacritic": 16, "IsPunctuation": 32}


def read_charmap():
    """the REAL character table: utf8helper_charmap.cpp -> {code: (upper, lower)} over every entry `{ code, upper, lower, category,
    "translit" }` of every page (code = the packed bytes of the sequence: verified by `u8 tableid` on every run)"""
    with open(os.path.join(build.REPO, "modules", "utf8", "utf8helper_charmap.cpp")) as f:
        src = f.read()
    tab = {}
    for m in _CM_ENTRY.finditer(src):
        code, up, lo = (int(x, 16) for x in m.groups()[:3])
        cat = 0
        for w in m.group(4).split("|"):
            cat |= _CM_CAT[w.strip()]          # (an unknown flag name is a KeyError: the table's vocabulary changed)
        tr = m.group(5).encode("latin-1").decode("unicode_escape").encode("latin-1")          # the C string literal: \\xNN, \\", plain characters
        tab[code] = (up, lo, cat, int.from_bytes(tr, "big"))
    return tab


def packed_codes(text):
    """packed byte sequences of the well-formed characters of a byte string"""
    return [int.from_bytes(ch.encode(), "big") for ch in text.decode("utf-8", "ignore")]


class U8CaseCase(U8OpsCase):
    """toupper / tolower / append(string) / append(integer) / clear on `U = utf8(S)` through the REAL plugin, against the driver
    command `u8t` (Utf8.tstep: Model/Mod/Utf8Case.lean), which gets the entries of the REAL character table for every sequence
    the history can touch. State read back after every call (count, rawsize, string)."""

    def __init__(self, text, charmap):
        super().__init__(text, b"z")
        self.kind = "u8.plugin_case"
        self.charmap = charmap
        self.codes = set(packed_codes(text))

    def op(self, name, *a):
        if name == "al" and a[0] is not None:
            self.codes.update(packed_codes(a[0]))
        if name == "ap" and a[0] is not None:
            self.codes.add(a[0] % (1 << 32))
        if name == "cl":
            self.add("cl", "return U.clear();")
            return
        super().op(name, *a)

    def table(self):
        """the WHOLE table (2560 entries, ~40 KB): a character can be completed across two append(string) calls, so the set of
        sequences a history touches is not a function of its texts taken one by one"""
        if not hasattr(U8CaseCase, "_table"):
            U8CaseCase._table = ",".join("%x:%x:%x:%x:%x" % ((c,) + e) for c, e in sorted(self.charmap.items())) or "-"
        return U8CaseCase._table

    def model_line(self):
        return "u8t %s %s %s" % (self.table(), dot(self.text), " ".join(self.toks))


def u8ops_impl_answer(pc, iraw):
    """canonical implementation answer: `<res>,<count>,<rawsize>,<string>;…` (the vocabulary of the driver's `u8p`)"""
    if iraw.startswith("crash ") or iraw.endswith("diverges"):
        return iraw
    parts = iraw.split("|")
    if any(p.startswith("foreign-exception") or p.startswith("uncaught-") for p in parts):
        return "foreign-exception " + "|".join(p for p in parts[pc.nsetup():] if p)[-160:]
    setup = parts[:pc.nsetup()]
    if any(p != "ok" and p != "ok-" for p in setup):
        return "setup-failed " + "|".join(setup)[:200]
    res = parts[pc.nsetup():]
    toks = []
    for k, tok in enumerate(pc.toks):
        r = [val_of(x) for x in res[4 * k:4 * k + 4]]
        if len(r) < 4:
            toks.append("?missing")
            continue
        cnt = r[1][2:] if r[1].startswith("I:") else "?" + r[1]
        raw = r[2][2:] if r[2].startswith("I:") else "?" + r[2]
        st = (r[3][2:] or ".") if r[3].startswith("S:") else "?" + r[3]
        a = r[0]
        if a == "E":
            a = "Ei"
        elif a == "E22":
            a = "Er"
        elif a == "E21":          # EXC_RT_OUT_OF_RANGE
            a = "Eo"
        elif a == "S:":
            a = "S:."
        elif tok.split(":")[0] in ("ap", "al", "cc"):
            a = "T" if a == "I:" + cnt else "?" + a
        toks.append("%s,%s,%s,%s" % (a, cnt, raw, st))
    return ";".join(toks)


# ------------------------------------------------------------------------------------------------ csv plugin glue
class CsvPCase:
    """`C = csv(...)` and a history of serialize / deserialize / deserialize_next / in_error / error_pos calls on the table
    variable T through the REAL csv plugin (plugin_csv.cpp: constructor arguments, BLOC table <-> vector copies, null
    checks), against the driver command `csvp` (CsvPlugin.step). After every call T is read back."""

    def __init__(self, ctor, table):
        self.ctor, self.table = ctor, table          # ctor: ("d",) | ("f", bytes|None) | ("c", int|None, int|None)
        self.kind = "csv.plugin"
        self.toks = []
        self.progs = []
        self.sets = []
        self.nvar = 0

    def var(self, canon):
        self.nvar += 1
        n = "A%d" % self.nvar
        self.sets.append((n, canon))
        return n

    @staticmethod
    def ttok(t):
        if t is None:
            return "null"
        if not t:
            return "-"
        return ",".join("~" if e is None else dot(e) for e in t)

    @staticmethod
    def tcanon(t):
        if t is None:
            return "N:s1"
        return "Ts1[%s]" % ",".join("N:s0" if e is None else "S:" + hx(e) for e in t)

    def op(self, name, line=b""):
        if name in ("se", "ie", "ep"):
            self.toks.append(name)
            self.progs.append("return C.%s;" % {"se": "serialize(T)", "ie": "in_error()", "ep": "error_pos()"}[name])
        else:
            self.toks.append("%s:%s" % (name, "null" if line is None else dot(line)))
            self.progs.append("return C.%s(%s, T);" % ({"de": "deserialize", "dn": "deserialize_next"}[name], self.var(sval(line))))

    def ctor_tok(self):
        c = self.ctor
        if c[0] == "d":
            return "d"
        if c[0] == "f":
            return "f:%s" % ("null" if c[1] is None else dot(c[1]))
        return "c:%s:%s" % tuple("null" if x is None else str(x) for x in c[1:])

    def ctor_src(self):
        c = self.ctor
        if c[0] == "d":
            return "C = csv();"
        if c[0] == "f":
            return "C = csv(%s);" % self.var(sval(c[1]))
        return "C = csv(%s, %s);" % tuple(self.var("N:i0" if x is None else "I:%d" % x) for x in c[1:])

    def model_line(self):
        return "csvp %s %s %s" % (self.ctor_tok(), self.ttok(self.table), " ".join(self.toks))

    def impl_line(self):
        src = self.ctor_src()          # (allocates its variables)
        ops = ["new 0 t", "set 0 %s %s" % (hx(b"T"), self.tcanon(self.table))]
        ops += ["set 0 %s %s" % (hx(n.encode()), v) for n, v in self.sets]
        ops.append("prog 0 " + hx(b"import csv;"))
        ops.append("prog 0 " + hx((src + " return true;").encode()))
        for st in self.progs:
            ops.append("prog 0 " + hx(st.encode()))
            ops.append("prog 0 " + hx(b"return T;"))
        return "|".join(ops)

    def nsetup(self):
        return 2 + len(self.sets) + 1


def py_csv_write(row, sep, enc):
    """independent CSV writer: a field is quoted when it holds the separator, the quote, CR or LF; quotes are doubled"""
    out = []
    for f in row:
        if any(b in (sep, enc, 13, 10) for b in f):
            out.append(bytes([enc]) + f.replace(bytes([enc]), bytes([enc, enc])) + bytes([enc]))
        else:
            out.append(f)
    return bytes([sep]).join(out)


_TELEM = re.compile(r"N:s0|S:[0-9a-f]*")


def csvp_table(v):
    """probe dump of T -> the driver's table text"""
    if v.startswith("N:"):
        return "null"
    if not v.startswith("Ts1["):
        return "?" + v[:60]
    el = _TELEM.findall(v[4:])
    if not el:
        return "-"
    return ",".join("~" if e == "N:s0" else (e[2:] or ".") for e in el)


def csvp_impl_answer(cc, iraw):
    if iraw.startswith("crash ") or iraw.endswith("diverges"):
        return iraw
    parts = iraw.split("|")
    if any(p.startswith("foreign-exception") or p.startswith("uncaught-") for p in parts):
        return "foreign-exception " + "|".join(p for p in parts[cc.nsetup():] if p)[-160:]
    setup = parts[:cc.nsetup()]
    if any(p != "ok" and p != "ok-" for p in setup):
        return "setup-failed " + "|".join(setup)[:200]
    res = parts[cc.nsetup():]
    if not res:
        return "?missing"
    if res[0].startswith("rerr"):
        return "E"
    if res[0] != "ok B:1":
        return "?ctor " + res[0][:80]
    toks = ["ok"]
    for k in range(len(cc.toks)):
        r = res[1 + 2 * k:3 + 2 * k]
        if len(r) < 2:
            toks.append("?missing")
            continue
        a = val_of(r[0])
        if a == "S:":
            a = "S:."
        elif a.startswith("N:"):
            a = "N"
        toks.append("%s|%s" % (a, csvp_table(val_of(r[1]))))
    return ";".join(toks)


# ------------------------------------------------------------------------------------------------ sqlite cases
SQL_CREATE = 'D.exec("CREATE TABLE t(a)")'
SQL_CREATE_NN = 'D.exec("CREATE TABLE t(a NOT NULL)")'
SQL_INSERT = '"INSERT INTO t VALUES(?)"'
SQL_SELECT = '"SELECT a, typeof(a) FROM t"'
SQL_PARAM = '"SELECT ?1, typeof(?1)"'


class SqlCase:
    def __init__(self, path):
        self.path = path
        self.toks = []
        self.progs = []
        self.sets = [("Z", "Uu0{i0}(I:1)"), ("NS", "N:s0"), ("NT", "N:u0{i0}"), ("P", "S:" + hx(path.encode()))]
        self.nvar = 0
        self.empty_buf = 0

    def add(self, tok, stmt):
        self.toks.append(tok)
        self.progs.append(stmt)

    def tuple_src(self, args, pre=""):
        """args: None (null tuple) or list of canonical values ('O' = the object itself)"""
        if args is None:
            return "NT", "null"
        names = []
        for v in args:
            if v == "O":
                names.append("D")
            else:
                self.nvar += 1
                n = "V%d" % self.nvar
                self.sets.append((n, v))
                names.append(n)
        return "tup(%s)" % ", ".join(names), ",".join(args)

    def op(self, tok, args="-"):
        simple = {"n0": "D = sqlite3(); return true;", "op": "return D.open(P);", "cl": "return D.close();", "io": "return D.isopen();",
                  "em": "return D.errmsg();", "cr": "return %s;" % SQL_CREATE, "cn": "return %s;" % SQL_CREATE_NN, "xn": "return D.exec(NS);",
                  "qa": "return D.query(%s);" % SQL_SELECT, "pi": "return D.prepare(%s);" % SQL_INSERT,
                  "ps": "return D.prepare(%s);" % SQL_SELECT, "pn": "return D.prepare(NS);", "pb": 'return D.prepare("SELEC");',
                  "ex": "return D.execute();", "hd": "return D.header();", "fe": "if D.fetch(Z) then return Z; end if; return false;",
                  "fi": "return D.finalize();", "de": "D = sqlite3(); return true;"}
        if tok in simple:
            self.add(tok, simple[tok])
            return
        src, word = self.tuple_src(args)
        if tok == "bi" and args is not None:
            # the tuple is held by a variable of its own (never reassigned): the memory `bind` points into stays alive
            self.nvar += 1
            tv = "T%d" % self.nvar
            stmt = "%s = %s; return D.bind(%s);" % (tv, src, tv)
        else:
            stmt = {"in": "return D.exec(%s, %s);" % (SQL_INSERT, src), "qp": "return D.query(%s, %s);" % (SQL_PARAM, src),
                    "bi": "return D.bind(%s);" % src, "bt": "return D.bind(%s);" % src}[tok]
        self.add("%s=%s" % (tok, word), stmt)

    def ops(self, text):
        for t in text.split():
            self.op(t)

    def model_line(self):
        return "sql %d %s" % (self.empty_buf, " ".join(self.toks))

    def impl_line(self):
        ops = ["new 0 t"] + ["set 0 %s %s" % (hx(n.encode()), v) for n, v in self.sets]
        ops.append("prog 0 " + hx(b"import sqlite3; D = sqlite3();"))
        for s in self.progs:
            ops.append("prog 0 " + hx(s.encode()))
        return "|".join(ops)

    def nsetup(self):
        return 1 + len(self.sets) + 1


_ROW = re.compile(r"U[^()]*\(([^,()]*),([^,()]*)\)")


def sql_tok(tok, res):
    v = val_of(res)
    if v.startswith("T"):
        m = re.match(r"Tu1\{(.)", v)
        rows = _ROW.findall(v)
        if tok == "hd":
            return "HD:" + "/".join(r[1][2:] for r in rows)
        return "T:%s:%s" % (m.group(1) if m else "!", "+".join("%s/%s" % r for r in rows))
    if v.startswith("N:?1") or v.startswith("N:u1"):
        return "N"
    if v.startswith("U"):
        rows = _ROW.findall(v)
        return "W:" + "+".join("%s/%s" % r for r in rows)
    return v


def sql_impl_answer(sc, iraw, db):
    if iraw.startswith("crash ") or iraw.endswith("diverges"):
        return iraw
    parts = iraw.split("|")
    if any(p.startswith("foreign-exception") or p.startswith("uncaught-") for p in parts):
        return "foreign-exception " + "|".join(p for p in parts[sc.nsetup():] if p)[-160:]
    setup = parts[:sc.nsetup()]
    if any(p != "ok" and p != "ok-" for p in setup):
        return "setup-failed " + "|".join(setup)[:200]
    res = parts[sc.nsetup():]
    toks = [sql_tok(t.split("=")[0], r) for t, r in zip(sc.toks, res)]
    toks += ["?missing"] * (len(sc.toks) - len(res))
    return ";".join(toks) + " db=" + db


def py_read_db(path):
    """the independent reader: Python's sqlite3 on the same database file"""
    if not os.path.exists(path):
        return "-"
    try:
        c = pysqlite.connect(path)
        c.text_factory = bytes
        try:
            rows = c.execute("SELECT a, typeof(a) FROM t ORDER BY rowid").fetchall()
        except pysqlite.OperationalError as e:
            return "-" if "no such table" in str(e) else "!" + str(e)[:60]
        finally:
            c.close()
    except Exception as e:          # noqa
        return "!" + str(e)[:60]
    out = []
    for a, ty in rows:
        ty = ty.decode()
        if ty == "null":
            out.append("n")
        elif ty == "integer":
            out.append("i%d" % a)
        elif ty == "real":
            out.append("r%016x" % struct.unpack(">Q", struct.pack(">d", a))[0])
        elif ty == "text":
            out.append("t" + bytes(a).hex())
        else:
            out.append("b" + bytes(a).hex())
    return "+".join(out) if out else "."


def cut_at_unmodelled(impl, model):
    """sql: nothing after the first `U` of the model is compared (the real state is unknown from there on)"""
    if " db=" not in impl or " db=" not in model:
        return impl, model
    mt = model.split(" db=", 1)[0].split(";")
    if "U" not in mt:
        return impl, model
    k = mt.index("U")
    it = impl.split(" db=", 1)[0].split(";")
    return ";".join(it[:k]), ";".join(mt[:k])


def run_driver_bigstack(lines, workers=8, timeout_s=600):
    """run.run_driver with a 1 GiB stack for blocv: the model's list functions recurse once per byte of a file"""
    import resource
    import subprocess
    exe = build.blocv_path()

    def limits():
        try:
            resource.setrlimit(resource.RLIMIT_STACK, (1 << 30, resource.getrlimit(resource.RLIMIT_STACK)[1]))
        except (ValueError, OSError):
            pass

    chunks = [lines[i::workers] for i in range(workers)]
    results = {}

    def work(chunk):
        if not chunk:
            return {}
        try:
            p = subprocess.run([exe], input=("\n".join(chunk) + "\n").encode(), stdout=subprocess.PIPE, stderr=subprocess.PIPE,
                               timeout=timeout_s, preexec_fn=limits)
        except subprocess.TimeoutExpired:
            return {"#driver-error": "driver timed out after %ds" % timeout_s}
        res = {}
        for ln in p.stdout.decode("latin-1").split("\n"):
            if ln:
                cid, _, r = ln.partition(" ")
                res[cid] = r
        if p.returncode != 0:
            res["#driver-error"] = p.stderr.decode("latin-1")[-2000:]
        return res

    with ThreadPoolExecutor(max_workers=workers) as ex:
        for r in ex.map(work, chunks):
            results.update(r)
    return results


# ------------------------------------------------------------------------------------------------ generation
class Half:
    """the file + sqlite3 correspondence, reporting into a Check instance"""

    def __init__(self, check):
        self.chk = check
        self.rng = check.rng
        self.sz = SIZES[check.tier]
        self.dir = None
        self.n = 0
        self.objs = {}
        self.kinds = {}

    def newpath(self, ext):
        self.n += 1
        return os.path.join(self.dir, "c%d.%s" % (self.n, ext))

    def rbytes(self, n, pool=None):
        r = self.rng
        if pool is None:
            pool = [0, 0x0a, 0x0d, 0x20, 0x41, 0x61, 0x7f, 0x80, 0xff]
        return bytes(r.choice(pool) if r.random() < 0.5 else r.randrange(256) for _ in range(n))

    def fcase(self, kind, init):
        fc = FileCase(self.newpath("bin"), init)
        fc.kind = kind
        return fc

    def chunks(self, data):
        """a random chunking of data"""
        r = self.rng
        out, i = [], 0
        while i < len(data):
            k = r.choice([1, 2, 7, 100, 4095, 4096, 4097, 5000, len(data)])
            out.append(data[i:i + k])
            i += k
        return out

    def gen_file(self):
        r = self.rng
        out = []
        # F1: write then read back, all boundary sizes x read counts x both variants
        for size in FILE_SIZES:
            data = self.rbytes(size)
            for kind in ("S", "B"):
                counts = READ_COUNTS + [size, size + 1, -1, None]
                for cnt in counts:
                    fc = self.fcase("file.roundtrip", None)
                    fc.ctor("@", b"w")
                    for ch in (self.chunks(data) if size else [b""]):
                        fc.write(ch, r.choice("SB"))
                    fc.close()
                    fc.open("@", b"r")
                    fc.read(cnt, kind)
                    fc.simple("p")
                    fc.read(r.choice(READ_COUNTS), kind)
                    fc.simple("p")
                    fc.read(20000, kind)
                    fc.read(5, kind)
                    fc.close()
                    out.append(fc)
        # F1b: reads at every offset class of a 10000 byte file through seeks
        data = self.rbytes(10000)
        for off in (0, 1, 4095, 4096, 4097, 5904, 5905, 9999, 10000, 10001, 20000):
            for cnt in (1, 4095, 4096, 4097, 5000, 8192, 9000, 12000):
                fc = self.fcase("file.seekread", data)
                fc.open("@", b"r")
                fc.seek("set", off)
                fc.read(cnt, r.choice("SB"))
                fc.simple("p")
                fc.close()
                out.append(fc)
        # F1c: read sizes around the 4096-byte internal buffer, at offsets where MORE data follows the request (a loop that
        # over-reads, or mis-sizes its last chunk, moves the position too far and shifts every later transfer)
        data = self.rbytes(30000)
        for off in (0, 1, 100, 4095, 4096, 4097):
            for cnt in (4095, 4096, 4097, 5000, 8191, 8192, 8193, 12288, 12289):
                for kind in "SB":
                    fc = self.fcase("file.bufedge", data)
                    fc.open("@", r.choice([b"r", b"r+", b"a+"]))
                    fc.seek("set", off)
                    fc.read(cnt, kind)
                    fc.simple("p")
                    fc.read(r.choice([1, 4097, 8193]), r.choice("SB"))
                    fc.simple("p")
                    fc.readln()
                    fc.simple("p")
                    fc.seek("cur", -3)
                    fc.read(5, kind)
                    fc.close()
                    out.append(fc)
        # F1d: every mode x every ORDERED PAIR of stream calls, on a 10-byte file: `open; seekset(2); op1; op2; position; readln |
        # read; position; close` (variant "raw": a pair that switches the direction of an update stream is the recorded finding's
        # region, the model answers U! there) and the same with `seekset(4)` between the two (variant "seek": every switch of
        # direction goes through a seek — theorem file_refines_spec_repositioned — and the history is ALSO run by Python through the
        # operating system's own calls on a file of its own: py_posix_history)
        for m in PAIR_MODES:
            for a in PAIR_OPS:
                for b in PAIR_OPS:
                    for variant in ("raw", "seek"):
                        fc = self.fcase("file.modepairs", PAIR_INIT)
                        fc.open("@", m.encode())
                        fc.seek("set", 2)
                        for k, t in enumerate((a, b)):
                            if k == 1 and variant == "seek":
                                fc.seek("set", 4)
                            w = t.split(":")
                            if w[0] in ("rs", "rb"):
                                fc.read(int(w[1]), "S" if w[0] == "rs" else "B")
                            elif w[0] == "ws":
                                fc.write(bytes.fromhex(w[1]), "S")
                            elif w[0] == "l":
                                fc.readln()
                            elif w[0] in ("ss", "se"):
                                fc.seek({"ss": "set", "se": "end"}[w[0]], int(w[1]))
                            else:
                                fc.simple(w[0])
                        fc.simple("p")
                        if variant == "seek":
                            fc.seek("set", 0)
                            fc.read(20, "B")
                            fc.simple("p")
                            fc.pymode = m
                        fc.close()
                        out.append(fc)
        # F2: every mode x {no file, small file, file > one buffer}
        for m in MODES:
            for init in (None, b"abc", self.rbytes(5000)):
                fc = self.fcase("file.modes", init)
                fc.open("@", m.encode("latin-1"))
                for t in ("io", "m", "p"):
                    fc.simple(t)
                fc.write(b"XY", "S")
                fc.simple("p")
                fc.read(2, "S")
                fc.seek("set", 0)
                fc.read(10, "B")
                fc.simple("p")
                fc.write(b"Z", "B")
                fc.simple("p")
                fc.close()
                fc.simple("io")
                out.append(fc)
                fc = self.fcase("file.modes", init)
                fc.ctor("@", m.encode("latin-1"))
                fc.simple("io")
                fc.simple("m")
                fc.simple("fn")
                fc.simple("p")
                out.append(fc)
        # F3: sparse extension, append, overwrite
        for m in ("w", "w+", "r+", "a", "a+"):
            for off in (0, 2, 3, 5, 4096, 10000):
                fc = self.fcase("file.seekwrite", b"abc")
                fc.open("@", m.encode())
                fc.seek("set", off)
                fc.write(self.rbytes(r.choice([1, 3, 4097])), "B")
                fc.simple("p")
                fc.seek("end", -2)
                fc.write(b"Q", "S")
                fc.seek("cur", -1)
                fc.read(5, "S")
                fc.simple("p")
                fc.close()
                out.append(fc)
        # F4: arguments: null / negative / extreme, closed handle
        big = [I64MAX, I64MIN, -1, 0, 1, 2 ** 31, 2 ** 32, 2 ** 40]
        for how in ("set", "cur", "end"):
            fc = self.fcase("file.args", b"abcdef")
            fc.open("@", b"r+")
            fc.read(2, "S")
            for n in big + [None]:
                fc.seek(how, n)
                fc.simple("p")
            fc.read(3, "S")
            fc.close()
            out.append(fc)
        for first in ("n0", "closed"):
            fc = self.fcase("file.args", b"abc")
            if first == "closed":
                fc.open("@", b"r+")
                fc.close()
            else:
                fc.ctor0()
            fc.read(1, "S"); fc.read(1, "B"); fc.readln(); fc.write(b"a", "S"); fc.write(b"a", "B"); fc.seek("set", 0)
            fc.seek("cur", 0); fc.seek("end", 0)
            for t in ("p", "f", "io", "m", "fn", "fd", "fb", "fs", "sep", "c", "c"):
                fc.simple(t)
            out.append(fc)
        fc = self.fcase("file.args", b"abc")
        fc.open(None, b"r"); fc.open("@", None); fc.open(None, None); fc.ctor(None, b"r"); fc.ctor("@", None)
        fc.open(b"/nonexistent-c18f/x", b"r")          # a missing file (its directory is missing too: ENOENT either way)
        fc.ctor(b"/nonexistent-c18f/x", b"r")
        fc.open("@", b"r+")
        fc.write(None, "S"); fc.write(None, "B"); fc.read(None, "S"); fc.read(None, "B")
        fc.read(-5, "S"); fc.read(I64MIN, "B"); fc.read(0, "S")
        for t in ("st", "di", "dn", "bn"):
            fc.pathfn(t, None)
        fc.pathfn("st", "@"); fc.pathfn("st", b"/nonexistent-c18f"); fc.pathfn("di", b"/nonexistent-c18f"); fc.pathfn("di", self.dir.encode())
        fc.simple("fs"); fc.simple("fn"); fc.simple("fd"); fc.simple("fb")
        fc.close()
        out.append(fc)
        for n in [2 ** 31 + 7][:self.sz["big_reads"]] + ([2 ** 32 + 5, 2 ** 33][:self.sz["big_reads"] - 1]):
            for kind in "SB":
                fc = self.fcase("file.bigcount", b"abcdef")
                fc.open("@", b"r")
                fc.read(n, kind)
                fc.simple("p")
                out.append(fc)
        # counts no allocator can serve (the request is not preallocated any more): the data that is there comes back
        for init in (b"abc", b"", self.rbytes(4096), self.rbytes(10000)):
            for n, kind in ((2 ** 62, "S"), (2 ** 62 - 1, "S"), (I64MAX, "S"), (I64MAX, "B"), (2 ** 40, "B"), (2 ** 47, "S")):
                fc = self.fcase("file.hugecount", init)
                fc.open("@", b"r")
                fc.read(n, kind)
                fc.simple("p")
                fc.read(n, kind)
                out.append(fc)
        # an empty value (bytes without buffer, empty string) written: 0, nothing happens
        for m in (b"w", b"r+", b"a", b"a+"):
            fc = self.fcase("file.emptywrite", b"abc")
            fc.open("@", m)
            fc.write(b"", "S")
            fc.simple("p")
            fc.write(b"", "B")
            fc.simple("p")
            fc.write(b"xy", "B")
            fc.write(b"", "B")
            fc.simple("p")
            fc.close()
            out.append(fc)
        # F5: readln
        lines = [b"ab\ncd\n", b"ab\r\n\ncd", b"ab\0cd\n\0\nxy", b"\0", b"\0\0a", b"\n", b"", b"\xff\xfe\n\xff", b"x" * 4095 + b"\n", b"x" * 4096 + b"\n",
                 b"x" * 4097 + b"\nyz", b"x" * 4095, b"x" * 4096, b"x" * 8192 + b"\0" + b"y" * 3, b"x" * 4095 + b"\0z"]
        for _ in range(self.sz["ln_rand"]):
            lines.append(self.rbytes(r.choice([3, 10, 40]), [0, 0x0a, 0x0a, 0x0d, 0x61, 0x62]))
        for data in lines:
            fc = self.fcase("file.readln", data)
            fc.open("@", r.choice([b"r", b"r+", b"a+"]))
            for _ in range(min(12, data.count(b"\n") + data.count(b"\0") + len(data) // 4096 + 2)):
                fc.readln()
                if r.random() < 0.3:
                    fc.simple("p")
            fc.simple("p")
            if r.random() < 0.5:
                fc.read(3, "S")
                fc.readln()
            fc.close()
            out.append(fc)
        # F6: dirname / basename on every string of length <= 4 over { / a . } and a few long ones
        import itertools
        names = [bytes(t) for k in range(5) for t in itertools.product(b"/a.", repeat=k)]
        names += [b"/usr/lib/", b"usr", b"/usr/", b"a//b//", b"//a", b"a/b/c.d", b"\0/a", b"a/\0", b"ab/cd/", b"/a/b/"]
        for i in range(0, len(names), 12):
            fc = self.fcase("file.pathfn", None)
            for nm in names[i:i + 12]:
                fc.pathfn("dn", nm)
                fc.pathfn("bn", nm)
            fc.simple("sep")
            out.append(fc)
        fc = self.fcase("file.pathfn", None)
        fc.open("@", b"w")
        for t in ("fn", "fd", "fb", "m", "io"):
            fc.simple(t)
        fc.close()
        out.append(fc)
        # F7: random histories
        for _ in range(self.sz["rand_file"]):
            out.append(self.rand_file())
        return out

    def rand_file(self):
        r = self.rng
        init = r.choice([None, b"", b"abc", self.rbytes(r.choice([10, 4095, 4096, 4097, 9000]))])
        fc = self.fcase("file.random", init)
        isopen = False
        wrote = 0
        far = False          # the position may be far beyond the end: no write there (it would create a huge sparse file)
        last = None          # direction of the last transfer: mostly a seek is put between a read and a write (C11 7.21.5.3 p7)
        for _ in range(r.randint(4, 14)):
            k = r.random()
            if not isopen and k < 0.7:
                m = r.choice(GOOD_MODES) if r.random() < 0.8 else r.choice(MODES)
                if r.random() < 0.15 and not fc.toks:
                    fc.ctor("@", m.encode("latin-1"))
                else:
                    fc.open("@", m.encode("latin-1"))
                isopen = True; far = False
            elif k < 0.25:
                d = self.rbytes(r.choice([0, 1, 2, 5, 100, 4095, 4096, 4097, 6000]))
                wrote += len(d)
                if far:
                    fc.seek("set", r.choice([0, 3, 5000]))
                    far = False
                elif last == "r" and r.random() < 0.85:
                    fc.seek(r.choice(["cur", "cur", "end"]), 0)
                last = "w"
                fc.write(d if r.random() < 0.97 else None, r.choice("SB"))
            elif k < 0.58:
                if last == "w" and r.random() < 0.85:
                    if r.random() < 0.5:
                        fc.simple("f")
                    else:
                        fc.seek(r.choice(["cur", "set", "set"]), 0)
                last = "r"
                if k < 0.50:
                    fc.read(r.choice([0, 1, 2, 3, 10, 100, 4095, 4096, 4097, 5000, 8192, 9000, 20000, -1, None]), r.choice("SB"))
                else:
                    fc.readln()
            elif k < 0.78:
                how = r.choice(["set", "cur", "end"])
                n = r.choice([0, 1, 2, 3, 5, 100, 4095, 4096, 4097, 8192, 9000, 12000, -1, -2, -3, -100, -4096, -5000]) if r.random() < 0.93 \
                    else r.choice([I64MAX, I64MIN, 2 ** 40, -2 ** 40, None])
                if wrote > 40000:
                    n = 0
                # is the position possibly far beyond the end afterwards? A seek that can FAIL (negative seekset, negative seekend on a
                # short file, a null offset) leaves the position where it was: `far` is then kept (a write there would create a
                # sparse file of 2^40 bytes, which neither the model nor the independent reader can hold)
                if n is not None:
                    if how == "set":
                        far = far if n < 0 else n > 20000
                    elif how == "end":
                        far = far if n < 0 else n > 20000
                    else:
                        far = far or abs(n) > 20000
                fc.seek(how, n)
                last = None
            elif k < 0.86:
                fc.simple("p")
            elif k < 0.90:
                fc.simple(r.choice(["f", "io", "m", "fn", "fb", "fs"]))
            elif k < 0.95:
                fc.close()
                isopen = False
            else:
                m = r.choice(GOOD_MODES)
                fc.open("@", m.encode())
                isopen = True
                far = False
        fc.simple("p")
        return fc

    # ---------------------------------------------------------------- sqlite
    def sql_values(self):
        r = self.rng
        vals = ["I:%d" % n for n in (0, 1, -1, 5, 255, 256, 2 ** 31 - 1, 2 ** 31, -2 ** 31, -2 ** 31 - 1, 2 ** 32 - 1, 2 ** 32, 2 ** 32 + 2,
                                       -2 ** 32, 2 ** 53 - 1, 2 ** 53, 2 ** 53 + 1, -2 ** 53 - 1, I64MAX, I64MAX - 1, I64MIN, I64MIN + 1)]
        dbits = [0, 0x8000000000000000, 0x3ff0000000000000, 0x3ff8000000000000, 0xbff8000000000000, 0x4000000000000000, 0x43e0000000000000,
                 0x0000000000000001, 0x000fffffffffffff, 0x0010000000000000, 0x7fefffffffffffff, 0x7ff0000000000000, 0xfff0000000000000,
                 0x7ff8000000000000, 0x7ff0000000000001, 0xfff8000000000000, 0xffffffffffffffff, 0x3fb999999999999a, 0x400921fb54442d18, 0x4340000000000001]
        vals += ["D:%016x" % b for b in dbits]
        strs = [b"", b"a", b"hello world", "é€😀".encode(), b"\xc3\xa9\xff", b"\xff\xfe", b"a\0b", b"\0", b"\0abc", b"abc\0", b"'\";--", b"x" * 5000,
                bytes(range(1, 256)), b"line\r\nline\n"]
        vals += ["S:" + hx(s) for s in strs]
        blobs = [b"", b"a", b"\0", b"a\0b", bytes(range(256)), b"\xff" * 3, self.rbytes(10000)]
        vals += ["R:" + hx(b) for b in blobs]
        vals += ["B:0", "B:1", "N:i0", "N:s0", "N:d0", "N:b0", "N:r0", "O"]
        for _ in range(self.sz["vals_rand"]):
            k = r.randrange(4)
            if k == 0:
                vals.append("I:%d" % r.randint(I64MIN, I64MAX))
            elif k == 1:
                vals.append("D:%016x" % r.getrandbits(64))
            elif k == 2:
                vals.append("S:" + hx(self.rbytes(r.randint(1, 30))))
            else:
                vals.append("R:" + hx(self.rbytes(r.randint(1, 30))))
        return vals

    def scase(self, kind):
        sc = SqlCase(self.newpath("db"))
        sc.kind = kind
        return sc

    def gen_sql(self):
        r = self.rng
        out = []
        vals = self.sql_values()
        for v in vals:
            # one-step insert, then both ways of reading
            sc = self.scase("sql.value")
            sc.ops("op cr")
            sc.op("in", [v])
            sc.ops("qa ps ex hd fe hd fe fi cl de")
            out.append(sc)
            # prepare / bind / execute, then read
            sc = self.scase("sql.value")
            sc.ops("op cr pi")
            sc.op("bi", [v])
            sc.ops("ex fi qa cl de")
            out.append(sc)
            # straight through a parameter
            sc = self.scase("sql.value")
            sc.ops("op")
            sc.op("qp", [v])
            sc.ops("cl de")
            out.append(sc)
        # several rows: declared type of the result table, prepared statement reused, stale bindings
        for _ in range(max(20, self.sz["vals_rand"])):
            sc = self.scase("sql.rows")
            sc.ops("op cr pi")
            for _ in range(r.randint(2, 6)):
                k = r.random()
                if k < 0.6:
                    sc.op("bi", [r.choice(vals)] + ([r.choice(vals)] if r.random() < 0.2 else []))
                    sc.ops("ex")
                elif k < 0.8:
                    sc.ops("ex")
                else:
                    sc.op("in", [r.choice(vals)])
            sc.ops("fi qa ps ex")
            for _ in range(r.randint(0, 7)):
                sc.ops(r.choice(["fe", "fe", "hd"]))
            sc.ops("fi cl de")
            out.append(sc)
        # arguments: null everywhere, calls on a closed connection, calls without a statement
        sc = self.scase("sql.args")
        sc.ops("io cl cr qa pi ex fe fi hd em xn pn")
        sc.op("in", None); sc.op("qp", None); sc.op("bi", None); sc.op("in", ["I:1"])
        sc.ops("op io xn pn")
        sc.op("in", None); sc.op("qp", None); sc.op("bi", None)
        sc.op("bi", ["I:1"])
        sc.ops("ex hd fe fi qa pi ps pb cr cr qa pb")
        sc.op("bi", ["I:1"])
        sc.ops("ex fe hd fi op io cl cl io de")
        out.append(sc)
        # close() with a live statement (the former dangling-statement witnesses): the statement is forgotten
        for tail in ("de", "op fi", "op pi", "op ps", "op pb", "op cl", "op ex", "op hd", "op fe", "op op"):
            for pre in ("ps ex", "pi", "ps"):
                sc = self.scase("sql.closestmt")
                sc.ops("op cr")
                sc.op("in", ["I:1"])
                sc.ops(pre + " cl " + tail)
                sc.ops("cl de")
                out.append(sc)
        sc = self.scase("sql.closestmt")
        sc.ops("op cr pi cl op")
        sc.op("bi", ["I:1"])
        sc.ops("de")
        out.append(sc)
        # bind() of a TEMPORARY tuple, other statements with temporaries, then execute (the former SQLITE_STATIC witnesses)
        for v in ("S:616263", "R:00ff", "S:" + "78" * 5000, "S:610062", "I:5", "D:3ff8000000000000", "S:", "N:s0"):
            for mid in ("", "in=I:1", "qp=I:1", "bt2", "fe", "in=S:7a7a7a7a7a7a7a7a7a7a7a7a7a7a7a7a7a7a7a7a7a7a"):
                sc = self.scase("sql.bindtemp")
                sc.ops("op cr pi")
                sc.op("bt", [v])
                if mid == "bt2":
                    sc.op("bt", ["O"])
                elif mid == "fe":
                    sc.ops("fe hd")
                elif mid:
                    sc.op(mid.split("=")[0], [mid.split("=")[1]])
                sc.ops("ex")
                sc.op("in", ["S:71717171717171717171717171717171717171717171"])
                sc.ops("ex fi qa cl de")
                out.append(sc)
        # a step-time failure (NOT NULL constraint) of exec() / execute(), then MORE bind / execute calls on the same prepared statement:
        # the values bound afterwards are the ones that must reach the database
        nulls = ["N:i0", "N:s0", "D:7ff8000000000000", "R:", "N:r0"]
        goods = ["I:7", "S:74776f", "R:0303", "D:3ff8000000000000", "S:", "I:0", "B:1"]
        tails = ["bi=G ex", "ex bi=G ex", "bt=G ex ex", "hd fe bi=G ex", "bi=O ex", "bi=G bi=N ex bi=G2 ex", "in=G", "in=N in=G ex",
                 "fi pi bi=G ex", "bi=G,G2 ex bi=N ex ex bt=G2 ex", "ex ex bi=G ex bi=N ex bi=G2 ex ex"]
        k = 0
        for nv in nulls:
            for pre in ("", "bi=G0 ex", "ex"):
                for tail in tails:
                    k += 1
                    sc = self.scase("sql.stepfail")
                    sc.ops("op cn pi")
                    g0, g, g2 = goods[k % len(goods)], goods[(k + 2) % len(goods)], goods[(k + 3) % len(goods)]
                    seq = (pre + " bi=N ex " + tail).split()
                    for t in seq:
                        if "=" in t:
                            name, a = t.split("=")
                            sc.op(name, [{"N": nv, "G": g, "G0": g0, "G2": g2, "O": "O"}[x] for x in a.split(",")])
                        else:
                            sc.ops(t)
                    sc.ops("fi qa ps ex fe fe fe fi cl de")
                    out.append(sc)
        for nv in nulls:
            sc = self.scase("sql.stepfail")
            sc.ops("op cn cr cn")
            sc.op("in", [nv])
            sc.op("in", ["I:1"])
            sc.op("in", [nv, "I:2"])
            sc.op("in", ["I:2", nv])
            sc.ops("qa cl de")
            out.append(sc)
        # histories on a prepared INSERT over the whole alphabet of its client (bind / bind(null) / execute / one-step exec / fetch /
        # header / isopen / queries), values stored as NULL anywhere, on t(a NOT NULL) and on t(a): step-time failures anywhere in
        # the history. The driver ALSO runs the specification on them (`spec=`: Spec.Sqlite.run, "execute stores the current content
        # of the one parameter slot"; theorem sqlite_history_refines_spec) and the check compares it with the REAL module's answers
        # and with what Python's sqlite3 reads from the database file.
        hvals = nulls + goods + ["O", "S:c3a9", "I:-9223372036854775808", "I:7", "S:74776f"]
        for i in range(self.sz.get("hist_sql", 120)):
            sc = self.scase("sql.history")
            sc.ops("op")
            sc.ops("cn" if i % 3 != 2 else "cr")
            sc.ops("pi")
            for _ in range(r.randint(4, 16)):
                k = r.random()
                if k < 0.30:
                    sc.op(r.choice(["bi", "bt"]), [r.choice(hvals)] + ([r.choice(hvals)] if r.random() < 0.1 else []))
                elif k < 0.33:
                    sc.op(r.choice(["bi", "bt"]), None)
                elif k < 0.66:
                    sc.ops("ex")
                elif k < 0.76:
                    sc.op("in", [r.choice(hvals)])
                elif k < 0.82:
                    sc.ops("fe")
                elif k < 0.86:
                    sc.ops("hd")
                elif k < 0.89:
                    sc.ops("io")
                elif k < 0.95:
                    sc.ops("qa")
                else:
                    sc.op("qp", [r.choice(hvals)])
            sc.ops("fi qa cl de")
            out.append(sc)
        for _ in range(self.sz["rand_sql"]):
            out.append(self.rand_sql(vals))
        return out

    def rand_sql(self, vals):
        r = self.rng
        sc = self.scase("sql.random")
        sc.ops("op")
        if r.random() < 0.9:
            sc.ops("cn" if r.random() < 0.35 else "cr")
        small = [v for v in vals if len(v) < 40]
        active = False
        for _ in range(r.randint(3, 14)):
            k = r.random()
            if k < 0.14:
                if not active:
                    sc.op("in", [r.choice(small)])
            elif k < 0.24:
                sc.ops("pi"); active = False
            elif k < 0.36:
                sc.ops("ps"); active = False
            elif k < 0.50:
                sc.op(r.choice(["bi", "bt"]), [r.choice(small)] + ([r.choice(small)] if r.random() < 0.1 else [])); active = False
            elif k < 0.64:
                sc.ops("ex"); active = "ps" in sc.toks      # conservative: a select may now be on a row
            elif k < 0.80:
                sc.ops("fe")
            elif k < 0.86:
                sc.ops("hd")
            elif k < 0.91:
                sc.ops("fi"); active = False
            elif k < 0.94:
                sc.ops("qa")
            elif k < 0.96:
                sc.ops(r.choice(["io", "pb", "cr", "op"])); active = False
            elif k < 0.98:
                sc.ops("fi cl op"); active = False
            else:
                sc.ops("cl op"); active = False
        sc.ops("qa")
        sc.ops(r.choice(["fi cl de", "fi de", "cl de", "de"]))
        return sc

    def gen_u8at(self):
        texts = [b"", b"a", b"abc", "Aé€\U0001f600".encode(), b"a\0b", b"\xff\xfe", b"x" * 300, "é".encode() * 50]
        out = []
        for t in texts:
            n = len(t.decode("utf-8", "ignore").replace("\0", ""))
            pos = []
            for v in (-1, 0, 1, 2, 3, 4, n - 1, n, n + 1, 255, 256, 10000000, 2 ** 31, 2 ** 32, 2 ** 32 + 1, 2 ** 63 - 1, -(2 ** 63), -(2 ** 32), -2, None):
                if v not in pos:
                    pos.append(v)
            out.append(U8AtCase(t, pos))
        return out

    def gen_u8ops(self):
        """every method of the utf8 plugin's table (except the five table-driven transformations) on the real object"""
        r = self.rng
        texts = [None, b"", b"a", b"abc", "A\u00e9\u20ac\U0001f600".encode(), b"a\0b", b"\xff\xfe", b"ab\xe2\x82", "\u00e9".encode() * 50,
                 b"x" * 300, b"\xc3", b"\xf0\x9f\x98"]
        others = [b"", b"z", "\u00df\u20ac".encode(), b"\xf0\x9f\x98\x80yy", b"q\xe2"]
        cps = [65, 0, 233, 50089, 0xE282AC, 0xF09F9880, 0x4142, 0x4100, 0x80, 0xC080, 0xEDA080, 0xF4908080, 2 ** 32 + 65, -1, I64MAX, I64MIN, None]
        strs = [b"", b"x", "\u00e9".encode(), b"\xa9", b"\x82\xac", b"\x98\x80", b"\0", b"a\xffb", b"\xe2\x82", None, b"\x80", b"\xf0\x9f"]
        out = []

        def count_of(t):
            return len((t or b"").decode("utf-8", "ignore").replace("\0", ""))

        def positions(n):
            return [-1, 0, 1, 2, 3, n - 1, n, n + 1, 2 * n, 2 * n + 1, 1000, I64MAX, I64MIN, 2 ** 32, 2 ** 32 + 1, None]

        # fixed histories: each method once, self / other / null object arguments
        for t in texts:
            for o in others[:3]:
                n = count_of(t)
                pc = U8OpsCase(t, o)
                pc.op("em"); pc.op("ct"); pc.op("rw"); pc.op("st")
                pc.op("rv", 10); pc.op("rv", 0); pc.op("rv", None); pc.op("rv", 1000000); pc.op("rv", -1); pc.op("rv", 2 ** 61)
                pc.op("al", b"\x82\xac"); pc.op("al", None); pc.op("ap", 65); pc.op("ap", None); pc.op("ap", 50089); pc.op("ap", 0)
                pc.op("ic", 0, "s"); pc.op("ic", 1, "s"); pc.op("ic", n, "o"); pc.op("ic", 0, None); pc.op("ic", None, "s"); pc.op("ic", 10 ** 6, "s")
                pc.op("cc", "s"); pc.op("cc", "o"); pc.op("cc", None)
                pc.op("at", 0); pc.op("at", -1); pc.op("at", None); pc.op("s1", 1); pc.op("s2", 1, 2); pc.op("s2", None, 1)
                pc.op("rm", 1, 1); pc.op("rm", 0, -1); pc.op("rm", None, 1); pc.op("in", 0, 233); pc.op("in", 0, 50089); pc.op("in", None, 65)
                pc.op("em"); pc.op("cl"); pc.op("em"); pc.op("rw"); pc.op("ic", 0, "s"); pc.op("cc", "s"); pc.op("ic", 0, "o"); pc.op("st")
                out.append(pc)
        # insert of the object into ITSELF at every position (the receiver's own vector is the argument)
        for t in texts[2:10]:
            n = count_of(t)
            for pos in sorted(set([0, 1, 2, n // 2, n - 1, n, n + 1])):
                if pos < 0:
                    continue
                pc = U8OpsCase(t, b"z")
                pc.kind = "u8.plugin_self"
                pc.op("ic", pos, "s"); pc.op("st"); pc.op("cc", "s"); pc.op("ic", pos, "s"); pc.op("rw")
                out.append(pc)
        # random histories
        for _ in range(self.sz.get("rand_u8ops", 150)):
            t, o = r.choice(texts), r.choice(others)
            pc = U8OpsCase(t, o)
            n = count_of(t) + 3
            grow = 0
            for _ in range(r.randint(3, 12)):
                k = r.random()
                P = positions(n)
                if k < 0.10:
                    pc.op(r.choice(["em", "ct", "rw", "st"]))
                elif k < 0.14:
                    pc.op("rv", r.choice([0, 1, 7, 4096, 1000000, None, -1, -7, I64MIN, 2 ** 61, 2 ** 63 - 1]))
                elif k < 0.17:
                    pc.op("cl"); grow = 0
                elif k < 0.27:
                    pc.op("ap", r.choice(cps))
                elif k < 0.37:
                    pc.op("al", r.choice(strs))
                elif k < 0.45:
                    if grow < 4:
                        pc.op("cc", r.choice(["s", "s", "o", None])); grow += 1
                elif k < 0.53:
                    pc.op("at", r.choice(P))
                elif k < 0.63:
                    pc.op("rm", r.choice(P), r.choice(P))
                elif k < 0.73:
                    pc.op("in", r.choice(P), r.choice(cps))
                elif k < 0.85:
                    if grow < 4:
                        pc.op("ic", r.choice(P), r.choice(["s", "s", "o", None])); grow += 1
                elif k < 0.92:
                    pc.op("s1", r.choice(P))
                else:
                    pc.op("s2", r.choice(P), r.choice(P))
            pc.op("st")
            out.append(pc)
        # reserve() with a request no vector can hold / no allocator can serve (the region of the repaired finding
        # C18.utf8_reserve_unchecked, /repo 2b1dab4): negative -> OUT_OF_RANGE; above vector::max_size() = 2^61-1 (std::length_error
        # caught) -> OUT_OF_RANGE; above what the allocator serves (std::bad_alloc caught) -> OUT_OF_RANGE; the object is left alone
        # and stays usable. These histories run with harness/newlimit.cpp preloaded (see there): the sanitizer's operator new aborts
        # where a plain one throws std::bad_alloc, so the allocator's refusal above NEW_LIMIT bytes is supplied by that file.
        for t in (b"ab", b"", "\u00e9".encode() * 50):
            for n in (-1, -2, I64MIN, 2 ** 61 - 1, 2 ** 61, 2 ** 61 + 1, 2 ** 62, I64MAX, 2 ** 40, 2 ** 50, 2 ** 61 - 2, 0, 1000000):
                pc = U8OpsCase(t, b"z")
                pc.kind = "u8.plugin_reserve"
                pc.op("ct"); pc.op("rv", n); pc.op("ct"); pc.op("st"); pc.op("rv", 10); pc.op("al", b"q\xc3\xa9"); pc.op("rv", n); pc.op("ic", 0, "s")
                out.append(pc)
        return out

    def gen_u8case(self):
        """the case transformations through the generated... no: through the REAL character table (read from the source tree)"""
        r = self.rng
        cm = read_charmap()
        self.chk.stats["c18f_charmap_entries"] = len(cm)
        self.chk.stats["c18f_charmap_zero_images"] = sum(1 for c, e in cm.items() if c != 0 and (e[0] == 0 or e[1] == 0))
        self.chk.stats["c18f_charmap_translit"] = {"empty": sum(1 for e in cm.values() if e[3] == 0), "several_bytes": sum(1 for e in cm.values() if e[3] > 0xff)}
        self.chk.stats["c18f_charmap_categories"] = {str(k): sum(1 for e in cm.values() if e[2] == k) for k in sorted({e[2] for e in cm.values()})}
        texts = ["Hello, World 123 ~", "\u00e0\u00e9\u00ee\u00f5\u00fc\u00ff \u00c0\u00c9\u00ce\u00d5\u00dc \u00df\u00b5", "\u03b1\u03b2\u03b3 \u0391\u0392\u0393 \u03c2\u03c3",
                 "\u043f\u0440\u0438\u0432\u0435\u0442 \u041f\u0420\u0418\u0412\u0415\u0422 \u0451\u0401", "\u0140\u0142\u0144\u0148 \u0141\u0143 \u0131\u0130 \u017f", "\u1e01\u1e02 \u1e9e \u1f00\u1f08 \u10d0\u10a0",
                 "\u24d0\u24b6 \u2170\u2160 \u2c30\u2c00 \u2d00", "\U000104d8\U000104b0 \U00010428\U00010400 \U0001e922\U0001e900", "\u20ac \u6f22\u5b57 \U0001f600 \u0250\u0561\u0531", ""]
        texts = [t.encode() for t in texts] + [b"a\xffB\xc3", b"a\0B", b"\xc3", b"x" * 300 + "\u00e9".encode() * 40]
        out = []
        for i, t in enumerate(texts):
            t2 = texts[(i + 1) % len(texts)][:40]
            t3 = texts[(i + 5) % len(texts)][:24]
            for h in range(3):
                pc = U8CaseCase(t, cm)
                if h == 0:
                    pc.op("tu"); pc.op("tl"); pc.op("tu"); pc.op("tu"); pc.op("cl"); pc.op("tl")
                elif h == 1:
                    pc.op("tu"); pc.op("al", t2); pc.op("cl"); pc.op("al", t2); pc.op("tl"); pc.op("al", t3); pc.op("ap", 97); pc.op("ap", 0xC389)
                    pc.op("al", None); pc.op("ap", None); pc.op("al", b"")
                else:
                    pc.op("al", t2); pc.op("tl"); pc.op("al", t3); pc.op("al", b"\xc3"); pc.op("al", b"\x89Q"); pc.op("tu"); pc.op("ap", 0x51); pc.op("tl")
                out.append(pc)
            # capitalize / normalize: the transformations that read the category of the previous character
            sp = "  hello   wORLD\t\tfoo\nbar \u00e9t\u00c9 \u00a0\u2003x\u20acy \u0431\u0411 ".encode()
            for h in range(2):
                pc = U8CaseCase(t + b" " + sp[:30] if h == 0 else sp + t[:60], cm)
                if h == 0:
                    pc.op("tc"); pc.op("tn"); pc.op("tc"); pc.op("al", sp); pc.op("tn"); pc.op("cl"); pc.op("tc")
                else:
                    pc.op("tn"); pc.op("al", b"  A  b "); pc.op("tc"); pc.op("tu"); pc.op("tc"); pc.op("al", t2); pc.op("tn"); pc.op("tn")
                out.append(pc)
            # translit: a replacement of several letters is ONE stored element; later transformations re-read its bytes
            pc = U8CaseCase(t, cm)
            pc.op("tt"); pc.op("tu"); pc.op("tt"); pc.op("al", t2); pc.op("tt"); pc.op("tc"); pc.op("cl"); pc.op("al", t3); pc.op("tt"); pc.op("tl")
            out.append(pc)
        pool = [x for x in texts if len(x) < 80]
        for _ in range(self.sz.get("rand_u8case", 60)):
            pc = U8CaseCase(r.choice(pool), cm)
            for _ in range(r.randint(3, 9)):
                k = r.random()
                if k < 0.15:
                    pc.op("tu")
                elif k < 0.3:
                    pc.op("tl")
                elif k < 0.38:
                    pc.op("tc")
                elif k < 0.45:
                    pc.op("tn")
                elif k < 0.5:
                    pc.op("tt")
                elif k < 0.8:
                    pc.op("al", r.choice(pool)[:r.choice([1, 2, 3, 7, 20])])
                elif k < 0.9:
                    pc.op("ap", r.choice([65, 97, 0xC3A9, 0xC389, 0xCEB1, 0, 0x4142, None]))
                else:
                    pc.op("cl")
            out.append(pc)
        return out

    def gen_csvp(self):
        """the csv plugin glue: constructors (null / empty / 1, 2, 3 bytes / multi-byte / integer codes out of char range),
        tables with null elements, null lines, null table, parse errors in continued records"""
        r = self.rng
        out = []
        ctors = [("d",), ("f", None), ("f", b""), ("f", b","), ("f", b";'"), ("f", b",\"x"), ("f", "\u00e9;".encode()), ("f", b"\0\""), ("f", b",,"),
                 ("f", b"\n\""), ("f", b", "), ("c", 44, 34), ("c", None, 34), ("c", 44, None), ("c", None, None), ("c", 300, -1), ("c", 0, 0),
                 ("c", I64MAX, I64MIN), ("c", 59, 39), ("c", 10, 34), ("c", 2 ** 32 + 44, 256 + 34)]
        tables = [[], None, [b"a"], [b"a", b"b,c"], [b"", b""], [None], [b"a", None], [None, b"q"], [b"x\"y", b"\r\n", b" z "], [b"\0", b"\xff\xfe"],
                  [b"'" + b"a" * 300]]

        def sep_enc(c):
            if c[0] == "d":
                return 44, 34
            if c[0] == "f":
                if not c[1]:
                    return None
                return c[1][0], (c[1][1] if len(c[1]) > 1 else 34)
            if c[1] is None or c[2] is None:
                return None
            return c[1] % 256, c[2] % 256

        def rline(se):
            sep, enc = se if se else (44, 34)
            pool = [sep, enc, 0x20, 0x0a, 0x0d, 0x61, 0x62, 0x00]
            return bytes(r.choice(pool) for _ in range(r.choice([0, 1, 2, 3, 5, 8])))

        for c in ctors:
            se = sep_enc(c)
            for t in tables:
                cc = CsvPCase(c, t)
                cc.op("se"); cc.op("ie"); cc.op("ep")
                cc.op("dn", None); cc.op("de", None)
                cc.op("dn", rline(se)); cc.op("ie")
                cc.op("de", rline(se)); cc.op("se")
                for _ in range(3):
                    cc.op(r.choice(["dn", "dn", "de"]), rline(se) if r.random() < 0.92 else None)
                    if r.random() < 0.4:
                        cc.op(r.choice(["ie", "ep", "se"]))
                cc.op("ie"); cc.op("ep"); cc.op("se")
                out.append(cc)
        # deserialize_next on a table whose LAST element is null (the region of the repaired finding C18.csv_next_null_last_element,
        # /repo ad063b9: it was a null dereference): the element is continued as an empty ENCAPSULATED field
        nl_tables = [[None], [b"a", None], [None, None], [b'x"y', b"", None], [None, b"q", None]]
        nl_lines = [b"", b"x", b"x,y", b'x",y', b'""', b'"', b'"",', b",", b'",', b'x"y', b" ", b"\n", b"a\n", b'"\n', b'x" ,y', b'"x', b'x""y",z',
                    b"\r\n", b"\0", b'"  "', b"a,b,c"]
        for k, t in enumerate(nl_tables):
            c = [("d",), ("f", b";'")][k % 2]
            sep, enc = sep_enc(c)
            for ln in nl_lines:
                ln2 = bytes(sep if x == 44 else enc if x == 34 else x for x in ln)
                cc = CsvPCase(c, t)
                cc.kind = "csv.plugin_nulllast"
                cc.op("dn", ln2); cc.op("ie"); cc.op("ep"); cc.op("se"); cc.op("dn", bytes([0x7a, enc, sep, 0x77])); cc.op("se")
                out.append(cc)
        # round trip through the plugin for every constructor that yields sep != enc: serialize(T), split after LF, feed back
        for c in ctors:
            se = sep_enc(c)
            if se is None or se[0] == se[1] or 10 in se:
                continue
            for _ in range(4):
                row = [bytes(r.choice([se[0], se[1], 0x20, 0x0d, 0x0a, 0x61, 0x00, 0xff]) for _ in range(r.choice([0, 1, 2, 4]))) for _ in range(r.randint(1, 4))]
                if row == [b""]:
                    continue
                cc = CsvPCase(c, row)
                cc.kind = "csv.plugin_rt"
                cc.op("se")
                # an independent writer (RFC 4180 quoting with this separator / quote) gives the text; it is split after
                # every LF and fed back line by line as a client would: deserialize, then deserialize_next
                text = py_csv_write(row, se[0], se[1])
                lines = text.split(b"\n")
                lines = [x + b"\n" for x in lines[:-1]] + ([lines[-1]] if lines[-1] else [])
                for k, ln in enumerate(lines):
                    cc.op("de" if k == 0 else "dn", ln)
                cc.op("ie")
                cc.row, cc.text = row, text
                out.append(cc)
        return out

    # ---------------------------------------------------------------- running
    def find_maxoff(self):
        p = os.path.join(self.dir, "maxoff.probe")
        fd = os.open(p, os.O_CREAT | os.O_RDWR)
        try:
            def ok(n):
                try:
                    os.lseek(fd, n, os.SEEK_SET)
                    return True
                except OSError:
                    return False
            if ok(I64MAX):
                return I64MAX
            lo, hi = 0, I64MAX          # ok(lo), not ok(hi)
            while hi - lo > 1:
                mid = (lo + hi) // 2
                if ok(mid):
                    lo = mid
                else:
                    hi = mid
            return lo
        finally:
            os.close(fd)
            os.unlink(p)

    def run(self):
        chk = self.chk
        t0 = time.time()
        try:
            d = build.impl_build()
            hbin = build.harness_build("blocprobe")
        except build.BuildError as e:
            chk.broken_ties.append("build: %s: %s" % (e.what, e.output[-800:]))
            return
        mods = [p for p in build_vmod.module_dirs(d) if os.path.basename(p) in ("file", "sqlite3", "utf8", "csv")]
        if len(mods) != 4:
            chk.broken_ties.append("build: the file / sqlite3 / utf8 / csv modules were not built in %s" % d)
            return
        env = {"LD_LIBRARY_PATH": ":".join(mods + [os.environ.get("LD_LIBRARY_PATH", "")]).rstrip(":")}
        self.dir = tempfile.mkdtemp(prefix="blocv-c18f-", dir="/var/tmp")
        try:
            maxoff = self.find_maxoff()
            chk.stats["c18f_maxoff"] = maxoff
            fcs = self.gen_file()
            scs = self.gen_sql()
            for fc in fcs:
                if fc.init is not None:
                    with open(fc.path, "wb") as f:
                        f.write(fc.init)
            cases = []
            for i, fc in enumerate(fcs):
                c = Case("f%d" % i, fc.model_line(maxoff), fc.impl_line(), {"kind": fc.kind})
                self.objs[c.cid] = fc
                cases.append(c)
            for i, sc in enumerate(scs):
                c = Case("q%d" % i, sc.model_line(), sc.impl_line(), {"kind": sc.kind})
                self.objs[c.cid] = sc
                cases.append(c)
            ucs = self.gen_u8at()
            umodel = []           # extra driver lines: one per position
            for i, uc in enumerate(ucs):
                c = Case("u%d" % i, "", uc.impl_line(), {"kind": uc.kind})
                self.objs[c.cid] = uc
                cases.append(c)
                umodel += ["u%d.%d %s" % (i, j, ln) for j, ln in enumerate(uc.model_lines())]
            for i, cc in enumerate(self.gen_csvp()):
                c = Case("v%d" % i, cc.model_line(), cc.impl_line(), {"kind": cc.kind})
                self.objs[c.cid] = cc
                cases.append(c)
            for i, pc in enumerate(self.gen_u8case()):
                c = Case("t%d" % i, pc.model_line(), pc.impl_line(), {"kind": pc.kind})
                self.objs[c.cid] = pc
                cases.append(c)
            for i, pc in enumerate(self.gen_u8ops()):
                c = Case("p%d" % i, pc.model_line(), pc.impl_line(), {"kind": pc.kind})
                self.objs[c.cid] = pc
                cases.append(c)
            for c in cases:
                self.kinds[c.meta["kind"]] = self.kinds.get(c.meta["kind"], 0) + 1
            log("C18F %s: %d cases: %s" % (chk.tier, len(cases), " ".join("%s=%d" % kv for kv in sorted(self.kinds.items()))))
            t = time.time()
            def timed(f, *a, **kw):
                t1 = time.time()
                res = f(*a, **kw)
                return res, round(time.time() - t1, 1)
            # the utf8 method histories run in probe processes of their own: they pass a typed null object (`N:o0:1`), and the
            # type number of a plugin is its import rank within the PROCESS (utf8 must be the first module imported there)
            lim = [c for c in cases if c.meta["kind"] == "u8.plugin_reserve"]
            own = [c for c in cases if isinstance(self.objs[c.cid], U8OpsCase) and c.meta["kind"] != "u8.plugin_reserve"]
            rest = [c for c in cases if not isinstance(self.objs[c.cid], U8OpsCase)]
            # ... and the reserve() boundary histories with an operator new that throws std::bad_alloc above NEW_LIMIT bytes
            # (harness/newlimit.cpp: the sanitizer's own operator new aborts the process instead of throwing)
            env_lim = dict(env)
            try:
                env_lim["LD_PRELOAD"] = build_newlimit()
            except build.BuildError as e:
                chk.broken_ties.append("build: %s: %s" % (e.what, e.output[-400:]))
                return
            env_lim["BLOCV_NEW_LIMIT"] = str(U8OpsCase.NEW_LIMIT)
            env_lim["ASAN_OPTIONS"] = build.sanitizer_env()["ASAN_OPTIONS"] + ":verify_asan_link_order=0"
            with ThreadPoolExecutor(max_workers=4) as ex:
                fi = ex.submit(timed, run.run_harness, hbin, ["%s %s" % (c.cid, c.impl_line) for c in rest], timeout_s=60, workers=12,
                               env_extra=env)
                fu = ex.submit(timed, run.run_harness, hbin, ["%s %s" % (c.cid, c.impl_line) for c in own], timeout_s=60, workers=4,
                               env_extra=env)
                fl = ex.submit(timed, run.run_harness, hbin, ["%s %s" % (c.cid, c.impl_line) for c in lim], timeout_s=60, workers=3,
                               env_extra=env_lim)
                fm = ex.submit(timed, run_driver_bigstack, ["%s %s" % (c.cid, c.model_line) for c in cases if c.model_line] + umodel, workers=8)
                impl, chk.stats["c18f_impl_s"] = fi.result()
                impl_u, chk.stats["c18f_impl_u8_s"] = fu.result()
                impl.update(impl_u)
                impl_l, chk.stats["c18f_impl_u8lim_s"] = fl.result()
                impl.update(impl_l)
                model, chk.stats["c18f_model_s"] = fm.result()
            chk.stats["c18f_run_s"] = round(time.time() - t, 1)
            if "#driver-error" in model:
                chk.broken_ties.append("driver: " + model["#driver-error"][-400:])
            self.judge_all(cases, impl, model)
            chk.stats["c18f_kinds"] = dict(sorted(self.kinds.items()))
            chk.stats["c18f_s"] = round(time.time() - t0, 1)
        finally:
            shutil.rmtree(self.dir, ignore_errors=True)

    # ---------------------------------------------------------------- judging
    def canon_impl(self, c, iraw):
        o = self.objs[c.cid]
        if isinstance(o, FileCase):
            try:
                if os.path.getsize(o.path) > (1 << 24):
                    final = "!huge(%d)" % os.path.getsize(o.path)
                else:
                    with open(o.path, "rb") as f:
                        final = dot(f.read())
            except FileNotFoundError:
                final = "-"
            return file_impl_answer(o, iraw, final)
        if isinstance(o, U8CaseCase):
            a = u8ops_impl_answer(o, iraw)
            if a.startswith(("crash", "foreign", "setup")) or a.endswith("diverges"):
                return a
            return ";".join(t.split(",", 1)[1] if "," in t else t for t in a.split(";"))
        if isinstance(o, U8OpsCase):
            return u8ops_impl_answer(o, iraw)
        if isinstance(o, CsvPCase):
            return csvp_impl_answer(o, iraw)
        return sql_impl_answer(o, iraw, py_read_db(o.path))

    def judge_all(self, cases, impl, model):
        chk = self.chk
        for c in cases:
            chk.evaluations += 1
            iraw = impl.get(c.cid)
            if iraw is None:
                chk.record_violation("harness lost case", c, "?", {})
                continue
            if isinstance(self.objs[c.cid], U8AtCase):
                self.judge_u8(c, iraw, model, impl.get(c.cid + "#stderr", ""))
                continue
            ians = self.canon_impl(c, iraw)
            m = parse_model(model.get(c.cid, ""))
            self.judge(c, ians, m, impl.get(c.cid + "#stderr", ""))

    def judge_u8(self, c, iraw, model, stderr):
        chk = self.chk
        uc = self.objs[c.cid]
        chk.distinct.add((c.cid, ""))
        d = chk.stats.setdefault("impl_outcomes", {})
        ans = u8_impl_answers(uc, iraw)
        cls = uc.kind + (" answered" if ans is not None else " " + iraw[:28])
        d[cls] = d.get(cls, 0) + 1
        meta = {"kind": uc.kind, "ops": "utf8(%s) %s" % (hx(uc.text)[:80], " ".join(uc.toks)), "full_model_line": "|".join(uc.model_lines()),
                "full_impl_line": c.impl_line}
        short = Case(c.cid, "utf8 plugin: " + meta["ops"][:400], "", meta)
        mans = [parse_model(model.get("%s.%d" % (c.cid, j), "")).get("model") for j in range(len(uc.positions))]
        if ans is None:
            chk.record_violation("utf8 at() through the real plugin crashed or failed (the model has no hazard answer)", short, iraw[:300],
                                 {"model": ";".join(str(x) for x in mans)}, stderr)
            return
        for j, (a, b) in enumerate(zip(ans + ["?missing"] * (len(mans) - len(ans)), mans)):
            if a != b:
                chk.record_violation("utf8 at() of the real plugin differs from the model", short,
                                     "position %s: impl=%s model=%s" % (uc.toks[j], a, b), {"model": ";".join(str(x) for x in mans)}, stderr)
                return

    def judge(self, c, ians, m, stderr):
        chk = self.chk
        kind = c.meta["kind"]
        mraw = m.get("model")
        kf = m.get("kf")
        chk.distinct.add((c.cid, ""))
        d = chk.stats.setdefault("impl_outcomes", {})
        cls = kind + " " + (ians[:28] if ians.startswith(("crash", "foreign", "setup")) or ians.endswith("diverges") else "answered")
        d[cls] = d.get(cls, 0) + 1
        if len(chk.samples) < 24 and self.rng.random() < 0.01:
            chk.samples.append({"case": c.model_line[:300], "impl": ians[:300], "model": (mraw or "")[:300], "spec": None})
        rec = {"model": (mraw or "")[:4000], "kf": kf}
        o = self.objs[c.cid]
        meta = dict(c.meta)
        meta["ops"] = " ".join(t if len(t) < 80 else t[:60] + "…(%d chars)" % len(t) for t in o.toks)
        if len(c.model_line) + len(c.impl_line) < 200000:
            meta["full_model_line"], meta["full_impl_line"] = c.model_line, c.impl_line
        short = Case(c.cid, self.describe(c), "", meta)
        if mraw is None:
            chk.record_violation("model gave no answer", short, ians[:2000], rec, stderr)
            return
        entry = chk.finding(kf) if kf else None
        if kf and entry is None:
            chk.record_violation("hazard/defect region %s is not a listed known finding" % kf, short, ians[:2000], rec, stderr)
            return
        if ";H:" in ";" + mraw.split(" ")[0]:
            if not kf:
                chk.record_violation("model reaches a C-level hazard outside every recorded region", short, ians[:2000], rec, stderr)
                return
            crashed = ians.startswith("crash ") or ians.startswith("foreign-exception")
            if not crashed:
                chk.record_violation("model predicts the hazard %s but the unguarded call survived" % kf, short, ians[:2000], rec, stderr)
                return
            info = ians[:120]
            for ln in stderr.split("\n"):
                if "SUMMARY: AddressSanitizer" in ln:
                    info += " (" + ln.strip()[:160] + ")"
                    break
            chk.known_hits.setdefault(kf, {"what": entry["what"], "example": self.describe(c), "impl": info})
            return
        if isinstance(self.objs[c.cid], FileCase):
            ians2, mans = mask_unmodelled(ians, mraw)
        else:
            mans = mraw
            ians2, mans = cut_at_unmodelled(ians, mans)
        if ians2 != mans:
            chk.record_violation("implementation (real module + independent reader) differs from the model", short,
                                 self.diff(ians2, mans), rec, stderr)
            return
        # csv round trip through the real plugin against the independent writer: serialize(T) is its text, and feeding the
        # text back line by line rebuilds exactly T with "record complete" and no error
        if isinstance(o, CsvPCase) and getattr(o, "row", None) is not None and not ians.startswith(("crash", "foreign", "setup")):
            it = ians.split(";")
            want_se = "S:%s|%s" % (dot(o.text), o.ttok(o.row))
            want_last = "B:0|%s" % o.ttok(o.row)
            chk.stats["c18f_csv_rt"] = chk.stats.get("c18f_csv_rt", 0) + 1
            if len(it) < 4 or it[1] != want_se or it[-1] != want_last or it[-2] != want_last:
                chk.record_violation("csv round trip through the real plugin differs from the independent writer / the original table", short,
                                     "serialize=%s want=%s; last=%s want=%s" % (it[1][:200] if len(it) > 1 else "?", want_se[:200], it[-1][:200], want_last[:200]),
                                     rec, stderr)
                return
        # file.modepairs, variant "seek": the history through the operating system's own calls (Python) against the REAL module
        if isinstance(o, FileCase) and getattr(o, "pymode", None) and " final=" in ians:
            want = py_posix_history(o.path + ".py", o.init, o.pymode, o.toks)
            chk.stats["c18f_posix_histories"] = chk.stats.get("c18f_posix_histories", 0) + 1
            if want != ians:
                rec2 = dict(rec)
                rec2["python"] = want[:2000]
                chk.record_violation("the real file module differs from the same history run through the operating system's calls (Python os.read / os.write / os.lseek)",
                                     short, self.diff(ians, want), rec2, stderr)
                return
        # sqlite3: the statement specification (Spec.Sqlite.run, run by the driver on the calls that follow `op cr|cn pi`) against the
        # REAL module: an executing call answers TRUE exactly when the specification stores a row and SQLite's error exactly when
        # it refuses; and the rows Python's sqlite3 reads from the database file are the specification's rows
        spec = m.get("spec")
        if spec and isinstance(o, SqlCase) and " db=" in ians and "/" in spec:
            sa, sdb = spec.split("/", 1)
            it, idb = ians.split(" db=", 1)
            it = it.split(";")
            sa = sa.split(",") if sa else []
            for i, a in enumerate(sa):
                want = {"T": "B:1", "R": "Q"}.get(a)
                if want is None:
                    continue
                chk.stats["c18f_sqlspec_tokens"] = chk.stats.get("c18f_sqlspec_tokens", 0) + 1
                got = it[3 + i] if 3 + i < len(it) else "?missing"
                if got != want:
                    rec2 = dict(rec)
                    rec2["spec"] = spec[:4000]
                    chk.record_violation("the real sqlite3 module differs from the statement specification (Spec.Sqlite.run) on an executing call", short,
                                         "call %d (%s): impl=%s spec=%s" % (3 + i, o.toks[3 + i][:40], got[:80], want), rec2, stderr)
                    return
            rest = o.toks[3 + len(sa):]
            if not any(t.split("=")[0] in ("pi", "in", "cr", "cn", "n0", "op") for t in rest):
                chk.stats["c18f_sqlspec_dbs"] = chk.stats.get("c18f_sqlspec_dbs", 0) + 1
                if idb != sdb:
                    rec2 = dict(rec)
                    rec2["spec"] = spec[:4000]
                    chk.record_violation("the rows Python's sqlite3 reads from the database differ from the statement specification (Spec.Sqlite.run)", short,
                                         "db=%s spec=%s" % (idb[:300], sdb[:300]), rec2, stderr)
                    return
        # the POSIX-level specification (Spec.File.srun, run by the driver on a stream state of its own) against the REAL module
        if spec and isinstance(o, FileCase) and " final=" in ians:
            it = ians.split(" final=", 1)[0].split(";")
            st = spec.split(";")
            mt = mraw.split(" final=", 1)[0].split(";")
            cut = mt.index("U!") if "U!" in mt else len(st)
            for i, (a, b) in enumerate(zip(it, st)):
                if i >= cut:
                    break
                if b == "*":
                    continue
                chk.stats["c18f_spec_tokens"] = chk.stats.get("c18f_spec_tokens", 0) + 1
                if a != b:
                    rec2 = dict(rec)
                    rec2["spec"] = spec[:4000]
                    chk.record_violation("the real module differs from the POSIX-level specification (Spec.File.srun) on a stream call", short,
                                         "call %d (%s): impl=%s spec=%s" % (i, o.toks[i][:40], a[:80], b[:80]), rec2, stderr)
                    return
        if kf:
            chk.known_hits.setdefault(kf, {"what": entry["what"], "example": self.describe(c), "impl": self.first_diff_free(ians2)})

    def describe(self, c):
        o = self.objs[c.cid]
        if isinstance(o, CsvPCase):
            return "csv plugin: %s T=%s " % (o.ctor_tok(), o.ttok(o.table)[:80]) + " ".join(t[:60] for t in o.toks)[:400]
        if isinstance(o, U8OpsCase):
            return "utf8 plugin: U=utf8(%s) V=utf8(%s) " % ("null" if o.text is None else dot(o.text)[:60], dot(o.other)) + " ".join(o.toks)[:400]
        return ("file: " if isinstance(o, FileCase) else "sqlite3: ") + " ".join(t[:60] for t in o.toks)[:400]

    @staticmethod
    def first_diff_free(s):
        return s if len(s) < 300 else s[:300] + "…"

    @staticmethod
    def diff(a, b):
        """the first differing token (the answers can be tens of kilobytes long)"""
        ta, tb = a.replace(" ", ";").split(";"), b.replace(" ", ";").split(";")
        for i, (x, y) in enumerate(zip(ta, tb)):
            if x != y:
                j = next((k for k in range(min(len(x), len(y))) if x[k] != y[k]), min(len(x), len(y)))
                return "token %d: impl=%s…(len %d) model=%s…(len %d), first difference at char %d: impl ..%s model ..%s" % (
                    i, x[:60], len(x), y[:60], len(y), j, x[max(0, j - 10):j + 30], y[max(0, j - 10):j + 30])
        return "impl has %d tokens, model %d; impl=%s model=%s" % (len(ta), len(tb), a[-200:], b[-200:])


def build_newlimit():
    """harness/newlimit.cpp -> <cache>/newlimit-<hash>.so (not sanitized itself: it only forwards to the sanitizer's operator new)"""
    src = os.path.join(build.VERIF, "harness", "newlimit.cpp")
    out = os.path.join(build.CACHE, "newlimit-%s.so" % build.files_hash([src]))
    with build.Lock("newlimit"):
        if not os.path.exists(out):
            rc, o = build._sh(["g++", "-std=c++11", "-O1", "-shared", "-fPIC", src, "-o", out + ".tmp", "-ldl"])
            if rc != 0:
                raise build.BuildError("harness/newlimit.cpp does not compile", o[-2000:])
            os.rename(out + ".tmp", out)
    return out


def load_findings(check):
    """known_findings.json is authoritative; the side file known_findings_c18f.json holds the findings recorded by this
    half that are NOT YET merged into it (entries whose id is already known are ignored)"""
    p = os.path.join(build.VERIF, "known_findings_c18f.json")
    if not os.path.exists(p):
        return None
    have = {f["id"] for f in check.findings}
    for f in json.load(open(p)).get("findings", []):
        if f.get("property") == check.pid and f["id"] not in have:
            check.findings.append(f)
    return None


def run_half(check):
    """the file + sqlite3 correspondence, reporting into `check` (violations, known hits, stats, evaluations)"""
    Half(check).run()


def replay(check, viols):
    """re-run recorded file / sqlite3 cases (their scratch paths are recreated)"""
    ok, out = build.lean_build(["blocv"])
    if not ok:
        print("replay: lake build blocv failed")
        return 1
    d = build.impl_build()
    hbin = build.harness_build("blocprobe")
    mods = [p for p in build_vmod.module_dirs(d) if os.path.basename(p) in ("file", "sqlite3", "utf8", "csv")]
    env = {"LD_LIBRARY_PATH": ":".join(mods)}
    rc = 0
    for v in viols:
        m = v["meta"]
        ml, il = m["full_model_line"], m["full_impl_line"]
        # the scratch directory of the recorded run
        mm = re.search(r"2f7661722f746d702f626c6f63762d633138662d[0-9a-f]*?2f", il)
        dpath = bytes.fromhex(mm.group(0)).decode()[:-1] if mm else None
        if dpath:
            os.makedirs(dpath, exist_ok=True)
        try:
            if ml.startswith("fil "):
                w = ml.split(" ")
                path, init = bytes.fromhex(w[3]).decode(), w[4]
                if os.path.exists(path):
                    os.unlink(path)
                if init != "-":
                    with open(path, "wb") as f:
                        f.write(b"" if init == "." else bytes.fromhex(init))
            impl = run.run_harness(hbin, ["r " + il], timeout_s=60, env_extra=env)
            model = run_driver_bigstack(["r " + ml], workers=1)
            print("ops=%s\n  impl=%s\n  %s" % (m.get("ops", "")[:400], impl.get("r", "")[:600], model.get("r", "")[:600]))
            if impl.get("r", "").startswith("crash"):
                print(impl.get("r#stderr", "")[-1500:])
            rc = 1
        finally:
            if dpath and dpath.startswith("/var/tmp/blocv-c18f-"):
                shutil.rmtree(dpath, ignore_errors=True)
    print("VIOLATION property=%s (replayed %d recorded case(s); compare impl / model above)" % (check.pid, len(viols)))
    return rc


RULE = ("file: every history below is run on the real module (ASan+UBSan build, in-process through blocprobe, one statement per call) "
        "and on the Lean model, and the file is read back by Python: write-then-read for sizes 0,1,4095,4096,4097,8191,8192,10000 of arbitrary "
        "8-bit data (NUL, CR, LF included) in random chunkings of string/bytes writes x read counts 0,1,100,4095,4096,4097,4106,5000,8192,"
        "9000,size,size+1,-1,null in both variants; reads after seeks to every offset class of a 10000-byte file; 41 mode strings x {no "
        "file, 3 bytes, 5000 bytes} through open() and through the constructor; seek-beyond-end writes (sparse), append modes; null / "
        "negative / INT64 extreme arguments of every method, calls on a closed or default-constructed object; readln on data with NUL, "
        "CR, LF and 4095/4096/4097-character lines; dirname/basename on all strings of length <= 4 over {/ a .}; random histories of 4-14 "
        "calls; read counts no allocator can serve (2^40, 2^47, 2^62-1, 2^62, INT64_MAX: the data that is there comes back) on files of "
        "0 / 3 / 4096 / 10000 bytes; writes of empty strings and of empty bytes values without buffer. sqlite3: every value class (boundary integers: 0, +-1, 255, 256, 2^31-1, +-2^31, -2^31-1, 2^32-1, +-2^32, 2^32+2, 2^53-1, 2^53, +-(2^53+1), INT64 extremes and their neighbours; decimal bit "
        "patterns incl. -0, subnormals, infinities, NaNs; strings empty / UTF-8 / invalid UTF-8 / with NUL / 5000 bytes; bytes empty / "
        "with NUL / all 256 values / 10000 bytes; booleans; typed nulls; an object) through exec(sql, tuple), prepare+bind+execute and "
        "query(sql, tuple), read back through query() and prepare+execute+fetch+header, and by Python's sqlite3 (value and typeof) on the "
        "same database file; multi-row tables of mixed types; null arguments; calls without connection / statement; random histories of "
        "the statement state machine incl. close() with a live statement followed by the destructor / reopen + every statement call "
        "(31 histories), and bind() of a temporary tuple followed by statements that release it and by execute() (48 histories); "
        "utf8: at(pos) through the real plugin on 8 strings x 20 positions {-1,0..4,n-1,n,n+1,255,256,10^7,2^31,2^32,2^32+1,INT64_MAX,"
        "INT64_MIN,-2^32,-2,null}; EVERY method of the utf8 plugin's table except the five table-driven transformations (empty, count, "
        "rawsize, reserve, clear, append(int), append(string), concat(utf8), string, at, remove, insert(pos,int), insert(pos,utf8), "
        "substr 1/2) through the real plugin on 12 strings (null, empty, ASCII, 1-4 byte characters, NUL, ill-formed, truncated "
        "sequences that a later append(string) completes, 300 characters) x 3 second objects: a fixed history of 43 calls with the "
        "receiver itself / another object / a typed null object as utf8 argument, insert of the object into ITSELF at every position "
        "class (39 histories), 150 random histories of 3-12 calls (positions / counts / code points incl. -1, INT64 extremes, 2^32+x, "
        "null), state read back after every call (count, rawsize, string); toupper / tolower / capitalize / normalize / translit (all five table-driven transformations through the REAL character "
        "table: utf8helper_charmap.cpp is read by the check, 2560 entries, and the driver is handed the whole table with every history), "
        "append(string) on an object with a transformation still installed, append(integer), clear: 14 texts (ASCII, Latin-1, Greek, "
        "Cyrillic, Latin Extended, the E1 / E2 pages, the two 4-byte pages, characters without a page, ill-formed bytes, NUL, 340 "
        "characters) x 6 fixed histories (two with capitalize / normalize, one with translit, on texts with runs of blanks, TAB, LF, NBSP, EM SPACE) + 60 random histories, state read back after every call (family u8.plugin_case: the former "
        "region of the repaired finding C18.utf8_transform_sticky: append(string) after a transformation and after clear()); reserve() with -1, -2, INT64_MIN (negative), 2^61, 2^61+1, 2^62, "
        "INT64_MAX (above vector::max_size(): std::length_error caught), 2^40, 2^50, 2^61-2, 2^61-1 (above what the allocator serves: "
        "std::bad_alloc caught; supplied by harness/newlimit.cpp, an operator new that throws above 2^34 bytes, because the sanitizer's "
        "operator new aborts instead of throwing), 0, 10^6 on 3 objects, the exact error class EXC_RT_OUT_OF_RANGE compared and the "
        "object used afterwards (39 histories: the region of the repaired finding C18.utf8_reserve_unchecked). csv plugin glue (plugin_csv.cpp) through the real plugin: 21 "
        "constructor calls (default; string null / empty / 1, 2, 3 bytes / multi-byte / NUL / LF / space / sep = enc; integer codes "
        "incl. null, 300, -1, INT64 extremes, 2^32+44) x 11 states of the table variable (empty, null table, null elements first / "
        "last / only, quotes, CR LF, NUL, 0xff, 300 bytes): serialize(T), in_error, error_pos, deserialize / deserialize_next with "
        "null and random lines over {sep, enc, space, LF, CR, a, b, NUL}, T read back after every call (231 histories), and deserialize_next on tables whose LAST "
        "element is null (the region of the repaired finding C18.csv_next_null_last_element: 5 tables x 21 lines, the element is "
        "continued as an empty encapsulated field); round trip against an INDEPENDENT writer (Python, RFC "
        "4180 quoting with the object's separator / quote bytes): serialize(T) must be its text and feeding the text back line by "
        "line (deserialize, deserialize_next) must rebuild T (46 random tables over every constructor with sep != enc, neither LF). "
        "file: 12 modes (r, w, a, r+, w+, a+ and b variants) x every ORDERED PAIR of 8 stream calls (read string / bytes, write, readln, "
        "seekset, seekend, position, flush) after seekset(2) on a 10-byte file, once as they are (a switch of direction on an update "
        "stream is the recorded finding's region) and once with a seekset between the two (every switch of direction goes through a "
        "seek: theorem file_refines_spec_repositioned), followed by position / seekset(0) / read(20) / position: 1536 histories, the 768 "
        "with the seek ALSO run by Python through the operating system's own calls (os.open / os.read / os.write / os.lseek) on a file "
        "of its own and compared with the real module call by call and in the final content. "
        "file: read sizes 4095, 4096, 4097, 5000, 8191, 8192, 8193, 12288, 12289 at offsets 0, 1, 100, 4095, 4096, 4097 of a 30000-byte "
        "file (more data follows every request), both variants, followed by position / read / readln / seekcur(-3) / read (108 "
        "histories); every stream call of every file history is ALSO answered by the POSIX-level specification (Spec.File.srun on a "
        "stream state of its own, `spec=` of the driver) and compared with the real module. sqlite3: table t(a NOT NULL): a "
        "step-time failure (constraint violation) of exec() / execute() followed by further bind (variable or temporary tuple, "
        "object item) / execute / header / fetch / finalize+prepare calls on the same connection (5 null-stored values x 3 "
        "prefixes x 11 tails + 5 exec histories = 170), 35% of the random histories on the NOT NULL table; 120 random histories of 4-16 "
        "calls on a prepared INSERT over its client's whole alphabet (bind of variable / temporary / null tuples, 1-2 items, values stored "
        "as NULL, object items; execute; one-step exec; fetch; header; isopen; query; query with parameter) on t(a NOT NULL) (2/3) and "
        "t(a): every sqlite3 line that starts `op cr|cn pi` is ALSO answered by the statement specification (Spec.Sqlite.run, `spec=` of "
        "the driver: TRUE / SQLite error of every executing call, and the rows of the table, which are compared with what Python's "
        "sqlite3 reads from the database file).")


class C18F(Check):
    """this half alone: `./check C18F` (the property id stays C18)"""
    pid = "C18"
    proof_modules = ["BlocV.Proofs.C18F"]
    harness = "blocprobe"
    rule = RULE
    trusted_base = [
        "Lean 4.33 kernel + elaborator (theorems audited to depend only on propext, Classical.choice, Quot.sound)",
        "harness/blocprobe.cpp + vlib/props/c18f.py (one BLOC statement per method call; canonical answers; Python as independent reader)",
        "Lean compiler/runtime executing the models in blocv (correspondence only)",
        "glibc stdio and SQLite themselves (their behaviour is what the models' fread/fwrite/fseek and storage classes describe)",
    ]
    assumptions = ["one handle per file at a time (stdio buffering unobservable); regular files in an existing writable directory; "
                   "SQL text fixed to CREATE TABLE t(a) | t(a NOT NULL) / INSERT INTO t VALUES(?) / SELECT a, typeof(a) FROM t / SELECT ?1, typeof(?1); "
                   "fopen modes with the glibc mmap flag `m` or a comma are outside the model (nothing compared after such an open); "
                   "utf8: all five transformations are modelled, with the character table as a parameter of the model "
                   "and the real table handed to the driver by the check; reserve() requests are <= 10^6 or >= 2^40 elements, "
                   "and the allocator's refusal (std::bad_alloc above 2^34 bytes) is supplied by harness/newlimit.cpp in the u8.plugin_reserve family"]

    def __init__(self, tier, seed):
        super().__init__(tier, seed)
        load_findings(self)

    def finding(self, kf):
        return next((f for f in self.findings if f["id"] == kf and f.get("status", "known") == "known"), None)

    def run(self):
        self.step_extract()
        self.step_proofs()
        run_half(self)
        return self.finish()

    def replay(self, rep):
        return replay(self, [v for v in rep.get("violations", []) if (v.get("meta") or {}).get("full_model_line")])
