"""C12 — saving a compiled program as text and loading it back preserves its behaviour.

One case = one source text. Harness op `c12 <hex>` (in-process, sanitizers on):
    parse in context 0 -> Executable::unparse (t1) -> run (r1, output o1, dump d1)
    parse t1 in the twin context 1 -> unparse (t2) -> run (r2, o2, d2)
Lean driver `unp <hex>`: lexer model -> Model/Parse.lean -> Model/Unparse.lean (txt), re-parse of txt, second
unparse (fix / txt2), tree comparison (same / norm / diff), `wf` (the proven image of the parser), `lex` (every
expression's text scans to the token list the theorems speak about), `beh` (both trees run through the
interpreter model), `kf` (regions of the recorded findings).

  impl t1 == model txt        byte for byte on EVERY accepted program                    else VIOLATION (differs from model)
  impl p2/t2 == model re/txt2 on every program (inside `C12.print_items_fuse` an undefined-function error stands
                              for the model's "now a function call": function lookup is outside the parser model)
  property (p2 ok, t2 == t1, r/o/d equal) required on every program outside the recorded regions   else VIOLATION
  property fails inside a recorded region  ->  KNOWN-FINDING of that region (printed once, shortest example)
  model says wf=1 => the model itself must show re=ok, fix=1, tree in {same,norm}, lex=1   (the theorems' domain is
                              evaluated on every case; a counterexample to a proved statement would be a broken tie)
"""
import itertools
import re
import struct

from .. import progen, run
from ..core import Case, Check, log
from ..progen import I, L, S
from ..run import hx

KF_DEC = "C12.decimal_16_digits"
KF_INT = "C12.wrapped_integer_literal"
KF_PRINT = "C12.print_items_fuse"
KF_DO = "C12.do_without_keyword"

DEFAULT_FINDINGS = [
    {"property": "C12", "id": KF_DEC, "status": "known", "region": "BlocV.Roundtrip.hasNum17",
     "site": "blocc/value.cpp:Value::readableNumeric, blocc/expression_numeric.cpp:NumericExpression::unparse",
     "witness": "a = 0.30000000000000004;",
     "what": "a decimal constant is written with 16 significant digits (\"%.16g\"): `a = 0.30000000000000004;` is saved as "
             "`A = 0.3;`, which loads as a different number (17 digits are needed to give every double back)"},
    {"property": "C12", "id": KF_INT, "status": "known", "region": "BlocV.Roundtrip.hasNegInt",
     "site": "blocc/value.cpp:Value::parseInteger (std::stoull), blocc/expression_integer.cpp:IntegerExpression::unparse",
     "witness": "print 1 0xFFFFFFFFFFFFFFFF;  |  a = 18446744073709551615 ** 2;  |  a = 2 ** 18446744073709551615;  |  x = 9223372036854775808;",
     "what": "an integer literal >= 2^63 is read with std::stoull and becomes a NEGATIVE constant node; unparse writes it with a "
             "minus sign, which loads as unary minus applied to a literal: `print 1 0xFFFFFFFFFFFFFFFF;` -> `print 1 -1;` "
             "(prints 0 instead of 1-1), `18446744073709551615 ** 2` -> `-1 power 2` (= -(1**2)), `2 ** 18446744073709551615` "
             "-> `2 power -1` (rejected), `x = 9223372036854775808;` -> `X = -9223372036854775808;` whose second unparse is "
             "`X = --9223372036854775808;` (not a fixpoint; rejected the third time)"},
    {"property": "C12", "id": KF_PRINT, "status": "known", "region": "BlocV.Roundtrip.printAdj",
     "site": "blocc/statement_print.cpp:PRINTStatement::unparse (also PUTStatement), blocc/parse_expression.cpp:element (enclosed() is a no-op on a variable)",
     "witness": "x = 1; print (x) (-1);",
     "what": "print / put items are written separated by a blank, and parentheses around a variable are not kept: "
             "`print (x) (-1);` is saved as `print X (-1);`, which loads as a call of a function X (rejected: undefined, "
             "or silently another program when a function X exists)"},
    # repaired (1a89173): a fixed entry suppresses nothing; the driver no longer reports this region
    {"property": "C12", "id": KF_DO, "status": "fixed", "commit": "1a89173", "region": "BlocV.Roundtrip.doHead",
     "site": "blocc/statement_do.cpp:DOStatement::unparse",
     "witness": "do (1 + 2);",
     "what": "DOStatement::unparse did not write the keyword `do`: `do (1 + 2);` / `do 1;` / `do -x;` / `do \"s\";` were saved as "
             "`(1 + 2);` / `1;` / `-X;` / `\"s\";`, which are not statements (only an expression that starts with a word loaded again); "
             "now every DO statement is saved as `do ` + expression (also `t.concat(5);` written without the keyword: `do T.concat(5);`)"},
]

BIN = [("+", 5), ("-", 5), ("*", 4), ("/", 4), ("%", 4), ("**", 2), ("power", 2), ("&", 7), ("|", 7), ("^", 7), ("<<", 6), (">>", 6),
       ("==", 8), ("!=", 8), ("<>", 8), ("<", 8), ("<=", 8), (">", 8), (">=", 8), ("matches", 8), ("and", 9), ("or", 9), ("xor", 9),
       ("&&", 9), ("||", 9)]
UN = ["-", "+", "~", "!", "not "]
# parse error codes that only a syntactic cause can produce (the parser model has no types / symbols)
SYNTACTIC = {0, 14, 21, 22, 23, 24, 25, 26}
CALLS = ['7, 2, 3, true, false, true, "ab", "a", "b"', '-3, 64, 0, false, false, true, "", "x", "a.*"',
         '5, 0, -1, true, true, false, "a.c", "abc", "a.c"', 'null, 1, 2, null, true, false, null, "s", "t"']
PARAMS = "ia:integer, ib:integer, ic:integer, ba:boolean, bb:boolean, bc:boolean, sa:string, sb:string, sc:string"
OPL = dict(BIN)


def kv(s):
    d = {}
    for w in s.split(" "):
        if "=" in w:
            k, v = w.split("=", 1)
            d[k] = v
    return d


def cls(o):
    if o in ("+", "-", "*", "/", "%", "**", "power"):
        return "arith"
    if o in ("&", "|", "^", "<<", ">>"):
        return "bit"
    if o == "matches":
        return "match"
    if o in ("and", "or", "xor", "&&", "||"):
        return "logic"
    return "rel"


def assign(t, T, env):
    """give every leaf of the tree a type so that the C++ static checks pass; False when the tree cannot have type T"""
    if t[0] == "leaf":
        env[t[1]] = T
        return True
    if t[0] == "un":
        need = "b" if t[1] in ("!", "not ") else "i"
        return T == need and assign(t[2], need, env)
    o, x, y = t[1], t[2], t[3]
    c = cls(o)
    if c == "arith":
        if T == "i" or (T == "s" and o == "+"):
            return assign(x, T, env) and assign(y, T, env)
        return False
    if c == "bit":
        return T == "i" and assign(x, "i", env) and assign(y, "i", env)
    if c == "match":
        return T == "b" and assign(x, "s", env) and assign(y, "s", env)
    if c == "logic":
        return T == "b" and assign(x, "b", env) and assign(y, "b", env)
    if T != "b":
        return False
    for ot in ("i", "s", "b"):
        e2 = dict(env)
        if assign(x, ot, e2) and assign(y, ot, e2):
            env.update(e2)
            return True
    return False


def typed(template, tree):
    """(source, typeable): the expression template over leaves {a} {b} {c}, as a function of typed parameters"""
    env = {}
    ok = False
    for T in ("i", "b", "s"):
        env = {}
        if assign(tree, T, env):
            ok = True
            break
    if not ok:
        env = {"a": "i", "b": "i", "c": "i"}
    names = {k: v + k for k, v in env.items()}
    for k in "abc":
        names.setdefault(k, "i" + k)
    expr = template.format(**names)
    src = "function f(%s) return undefined is\nbegin\n  return %s;\nend;\n" % (PARAMS, expr)
    for i, a in enumerate(CALLS):
        src += ("begin r%d = f(%s); print str(isnull(r%d)) \" \" typeof(r%d); print r%d;\nexception when others then print \"E%d\"; end;\n"
                % (i, a, i, i, i, i))
    return src, ok


def leaf(n):
    return ("leaf", n)


def pair_cases():
    """every ordered pair of binary operator spellings x three parenthesis shapes, with the tree the grammar gives"""
    out = []
    A, B_, C = leaf("a"), leaf("b"), leaf("c")
    for (o1, l1), (o2, l2) in itertools.product(BIN, BIN):
        left = ("bin", o2, ("bin", o1, A, B_), C)
        right = ("bin", o1, A, ("bin", o2, B_, C))
        if l1 == 8 and l2 == 8:
            flat = None                      # relations are not associative: rejected
        elif (l1 == 2 and l2 == 2) or l2 < l1:
            flat = right
        else:
            flat = left
        out.append(("{a} %s {b} %s {c}" % (o1, o2), flat))
        # parenthesised shapes: an operand of ** must be an element, which a parenthesised expression is
        out.append(("({a} %s {b}) %s {c}" % (o1, o2), left))
        out.append(("{a} %s ({b} %s {c})" % (o1, o2), right))
    return out


def unary_cases():
    out = []
    A, B_ = leaf("a"), leaf("b")
    for u in UN:
        for (o, l) in BIN:
            ua = ("un", u, A)
            out.append(("%s{a} %s {b}" % (u, o), ("un", u, ("bin", o, A, B_)) if l == 2 else ("bin", o, ua, B_)))
            out.append(("%s({a} %s {b})" % (u, o), ("un", u, ("bin", o, A, B_))))
            out.append(("(%s{a}) %s {b}" % (u, o), ("bin", o, ua, B_)))
            out.append(("{a} %s %s{b}" % (o, u), None if l == 2 else ("bin", o, A, ("un", u, B_))))
            out.append(("{a} %s (%s{b})" % (o, u), ("bin", o, A, ("un", u, B_))))
        for u2 in UN:
            out.append(("%s(%s{a})" % (u, u2), ("un", u, ("un", u2, A))))
            out.append(("%s((%s{a}))" % (u, u2), ("un", u, ("un", u2, A))))
            out.append(("%s%s{a}" % (u, u2), None))
    return out


# ------------------------------------------------------------------ minimal-parenthesis rendering of progen trees
LVL = {"BAND": 9, "BIOR": 9, "BXOR": 9, "EQ": 8, "NE": 8, "LT": 8, "LE": 8, "GT": 8, "GE": 8, "AND": 7, "IOR": 7, "XOR": 7,
       "POP": 6, "PUS": 6, "ADD": 5, "SUB": 5, "MUL": 4, "DIV": 4, "MOD": 4, "EXP": 2}


def elvl(e):
    if e[0] == "bin":
        return LVL[e[1]]
    if e[0] == "un":
        return 3
    if e[0] == "lit" and (e[1].startswith("I:-") or (e[1].startswith("D:") and int(e[1][2:], 16) >> 63)):
        return 3          # rendered with a minus sign
    return 1


def render(e, rng, extra=0.0):
    """source text with parentheses only where the grammar needs them (+ random redundant ones with probability `extra`)"""
    def sub(x, maxl):
        s = render(x, rng, extra)
        if elvl(x) > maxl or rng.random() < extra:
            return "(" + s + ")"
        return s
    k = e[0]
    if k == "lit":
        s = progen.lit_src(e[1])
        return s[1:-1] if s.startswith("(-") else s
    if k == "var":
        return e[1].lower()
    if k == "un":
        return progen.UNSRC[e[1]] + sub(e[2], 2 if elvl(e[2]) != 3 else 0)
    if k == "bin":
        L_ = LVL[e[1]]
        if L_ == 2:
            la, lb = 1, 2
        elif L_ == 8:
            la, lb = 7, 7
        else:
            la, lb = L_, L_ - 1
        return "%s %s %s" % (sub(e[2], la), progen.BINSRC[e[1]], sub(e[3], lb))
    if k in ("call", "fcall"):
        return "%s(%s)" % (e[1].lower(), ", ".join(render(a, rng, extra) for a in e[2]))
    raise ValueError(e)


def render_stmts(ss, rng, extra, ind=0):
    out = ""
    for s in ss:
        out += render_stmt(s, rng, extra, ind)
    return out


def render_stmt(s, rng, extra, ind):
    pad = "  " * ind
    k = s[0]
    R = lambda e: render(e, rng, extra)
    if k == "let":
        return pad + "%s = %s;\n" % (s[1].lower(), R(s[2]))
    if k == "do":
        return pad + "do %s;\n" % R(s[1])
    if k == "print":
        # items are separated by a blank: keep them apart with a string item, parenthesise an item starting with a sign
        items = []
        for e in s[1]:
            t = R(e)
            items.append("(" + t + ")" if t[0] in "+-" else t)
        return pad + "print %s;\n" % ' "," '.join(items)
    if k == "if":
        out = ""
        for n, (c, body) in enumerate(s[1]):
            out += pad + ("if %s then\n" % R(c) if n == 0 else ("else\n" if c is None else "elsif %s then\n" % R(c)))
            out += render_stmts(body, rng, extra, ind + 1)
        return out + pad + "end if;\n"
    if k == "while":
        return pad + "while %s loop\n" % R(s[1]) + render_stmts(s[2], rng, extra, ind + 1) + pad + "end loop;\n"
    if k == "for":
        _, v, b, e, st, d, body = s
        hdr = "for %s in %s to %s" % (v.lower(), R(b), R(e))
        if st is not None:
            hdr += " step %s" % R(st)
        if d != "auto":
            hdr += " " + d
        return pad + hdr + " loop\n" + render_stmts(body, rng, extra, ind + 1) + pad + "end loop;\n"
    if k == "begin":
        out = pad + "begin\n" + render_stmts(s[1], rng, extra, ind + 1)
        if s[2]:
            out += pad + "exception\n"
            for name, body in s[2]:
                out += pad + "when %s then\n" % name.lower() + render_stmts(body, rng, extra, ind + 1)
        return out + pad + "end;\n"
    if k == "return":
        return pad + ("return;\n" if s[1] is None else "return %s;\n" % R(s[1]))
    if k == "func":
        _, n, ps, rt, body, whens = s
        out = pad + "function %s(%s) return %s is\nbegin\n" % (
            n.lower(), ", ".join(("%s:%s" % (p.lower(), progen.TYPENAME[p[0].lower()])) if p[0].lower() in "idbs" else p.lower() for p in ps),
            progen.TYPENAME[rt]) + render_stmts(body, rng, extra, ind + 1)
        if whens:
            out += "exception\n"
            for name, b in whens:
                out += "when %s then\n" % name.lower() + render_stmts(b, rng, extra, ind + 1)
        return out + "end;\n"
    return progen.stmt_src(s, ind)


STATEMENT_TEXTS = [
    # chained statements, declarations
    "a = 1, b = 2, c = a + b;\nprint a b c;\n",
    "a = 1 , b : integer , c:string, d:table, e:decimal, f:boolean, g:bytes, h:tuple, i:complex, j:undefined;\nprint a;\nprint isnull(b) isnull(c);\n",
    "a := 1, b := a * 2, print a b;\n",
    "let a = 1; let b = a, let c = b + 1; print c;\n",
    "a = 1, if a == 1 then print \"one\"; end if;\na = 2, while a < 4 loop a = a + 1; end loop;\nprint a;\n",
    "a = 1, ;\nprint a;;;\n;print a;\n",
    ";;;\n",
    # if / elsif / else, nesting, indentation
    "x = 3;\nif x < 1 then print 1; elsif x < 2 then print 2; elsif x < 5 then\n if x == 3 then print \"three\"; else print \"other\"; end if;\nelse print 9; end if;\n",
    "x = 0;\nwhile x < 3 loop x = x + 1; if x == 2 then continue; end if; print x; end loop;\n",
    "for i in 1 to 3 loop for j in i to 3 step 2 loop print i j; end loop; end loop;\n",
    "for i in 3 to 1 desc loop print i; end loop;\nfor i in 1 to 3 asc loop print i; end loop;\nfor i in 3 to 1 step 1 asc loop print i; end loop;\n",
    "for i in (1+0) to (2*2) step (1) loop print i; if i > 2 then break; end if; end loop;\n",
    "t = tab(3, 5);\nforall e in t loop print e; end loop;\nforall e in t desc loop e = e + 1; end loop;\nforall e in t asc loop print e; end loop;\n",
    # begin / exception
    "begin\n raise foo;\nexception\n when bar then print \"bar\";\n when foo then print \"foo\";\n when others then print \"others\";\nend;\n",
    "begin begin x = 1 / 0; exception when out_of_range then print 1; end; exception when divide_by_zero then print 2; end;\n",
    "begin end;\nbegin nop; end;\nbegin ; ; nop; ; end;\n",
    "begin\n x = 1;\n begin\n  y = x + 1;\n  begin\n   print y;\n  exception when others then\n   print 0;\n   print 1;\n  end;\n end;\nend;\n",
    # functions
    "function f return integer is begin return 1; end;\nprint f();\n",
    "function f() return integer is begin return 1; end;\nprint f();\n",
    "function g(a:integer, b:decimal, c:string, d:boolean, e:bytes, f:table, g:tuple, h, i:undefined, j:complex, k:object) return string is\nbegin\n return c + str(a);\nend;\nprint g(1, 2.5, \"s\", true, raw(), tab(), tup(1), null, null, ii, null);\n",
    "function fact(n:integer) return integer is begin if n < 2 then return 1; end if; return n * fact(n - 1); end;\nprint fact(10);\n",
    "function t() return table is begin return tab(2, \"x\"); end;\nfunction u() return undefined is begin return; end;\nfunction b() return boolean is begin raise oops; exception when oops then return false; when others then return true; end;\nprint t().count() isnull(u()) b();\n",
    "a = 1, function h(x) return integer is begin return x + 1; end;\nprint h(a);\n",
    # print / put / do / return / raise / trace / nop
    "print;\nprint \"a\";\nprint \"a\" 1 2.5 true null;\nput \"a\" 1;\nput;\nprint \"\";\n",
    "s = \"abc\";\ndo s.concat(\"d\");\ns.concat(\"e\");\nprint s;\ndo strlen(s);\ndo true;\ndo not true;\n",
    "trace false;\nnop;\nx = 1;\nreturn x + 1;\n",
    "return;\n",
    "return (1);\n",
    "return -1;\n",
    "raise my_error;\n",
    "begin raise divide_by_zero; exception when others then print error; end;\n",
    # members, tuples, items
    "t = tab(2, 1);\nt.put(0, 5);\nt.insert(1, 7);\nt.concat(9);\nt.delete(0);\nprint t.count() t.at(0) t.at(1);\nprint (t).at(0) tab(1, 2).at(0) \"abc\".at(1) (\"ab\" + \"cd\").at(2);\n",
    "u = tup(1, \"a\", 2.5);\nprint u@1 u@2 u@3;\nu.set@2(\"b\");\nprint u@2;\nprint tup(1, 2)@2 (u)@1;\nw = tab(2, u);\nprint w.at(0)@2 w.at(1).set@1(7)@1;\n",
    "r = raw(3, 65);\nr.put(1, 66);\nprint r.at(1) r.count() str(r) subraw(r, 1).count() r.concat(raw(\"z\")).count();\n",
    "s = \"hello\";\nprint s.at(0) s.count() s.concat(\" w\").concat(\"orld\") upper(s).at(1);\ns.put(0, 72);\ns.insert(5, \"!\");\ns.delete(1);\nprint s;\n",
    # built-ins with every arity form
    "print str() str(1) num() num(\"1.5\") int() int(2.9) bool() bool(1) raw() raw(2) raw(2, 65).count() raw(\"ab\").count();\n",
    "print round(2.567) round(2.567, 2) hex(255) hex(255, 8) substr(\"abcdef\", 2) substr(\"abcdef\", 2, 3) strpos(\"abcabc\", \"c\") strpos(\"abcabc\", \"c\", 3);\n",
    "print max(1, 2) min(1, 2) pow(2, 10) mod(7, 3) clamp(5, 1, 3) atan2(1, 1) hash(\"a\") hash(\"a\", 16) tokenize(\"a,b\", \",\").count() tokenize(\"a,,b\", \",\", true).count();\n",
    "print floor(1.5) ceil(1.5) abs(-1) sign(-2) sqrt(4) log(1) exp(0) log10(100) sin(0) cos(0) tan(0) asin(0) acos(1) atan(0) sinh(0) cosh(0) tanh(0);\n",
    "print isnull(null) isnum(\"1\") chr(65) strlen(\"abc\") ltrim(\" a \") + \"|\" rtrim(\" a \") + \"|\" trim(\" a \") + \"|\" upper(\"a\") lower(\"A\") replace(\"aXa\", \"X\", \"b\") lsubstr(\"abc\", 2) rsubstr(\"abc\", 2);\n",
    "print b64enc(raw(\"abc\")) str(b64dec(\"YWJj\")) typeof(1) typeof(\"s\") typeof(tab()) typeof(tup(1, true)) subraw(raw(\"abcd\"), 1, 2).count();\n",
    "print null true false on off pi ee phi;\nprint ii imag(ii) iphase(ii) iconj(ii) tab().count() tup(1)@1 tab(0, 1).count();\n",
    # comments, layout, keyword spellings of operators
    "a = 1; /* block\n comment */ b = 2; // line comment\n# directive line\nprint a b; // end\n",
    "a=1;b=a+1;print a b;if a==1 then print\"x\";end if;\n",
    "a = 2 power 3 power 2;\nb = 2 ** 3 ** 2;\nc = true and false or true xor false;\nd = true && false || true;\ne = \"abc\" matches \"a.c\";\nf = 1 <> 2;\nprint a b c d e f;\n",
    "x = 1;\nprint (x);\nprint ((x));\nprint (x) \",\" (x + 1) \",\" ((x + 1));\nprint (1) (2) (\"s\") (true) (null) (2.5);\n",
    "x = 5;\ny = -x ** 2;\nz = (-x) ** 2;\nw = -(x ** 2);\nv = - (x);\nt = not (x == 5);\ns = ~x + 1;\nr = ~(x + 1);\nq = -x * -x - -x;\nprint y z w v t s r q;\n",
    "x = 2;\na = x - -1;\nb = x + +1;\nc = x * -1;\nd = x - (-1);\ne = x - (- (1));\nf = -(-(x));\ng = +(+(x));\nh = ~(~(x));\ni = not (not (x == 2));\nprint a b c d e f g h i;\n",
]

LITERAL_TEXTS = [
    'a = "";\nb = "a";\nc = "a""b";\nd = "a\\"b";\ne = "\\\\";\nf = "\\a\\b\\f\\n\\r\\t\\\\\\"";\ng = "\\q\\x41\\0\\1";\nprint a b c d e f g;\nprint strlen(c) strlen(d) strlen(e) strlen(f) strlen(g);\n',
    'a = """";\nb = """a""";\nc = "\\"\\"";\nd = "a\\\\";\ne = "a\\\\\\"";\nf = "''";\nprint a b c d e f;\n',
    'a = u8"x";\nb = u"y";\nc = U"z";\nd = L"w";\nprint a b c d;\n',
    'a = "line1\nline2\n#not a directive\n// not a comment\n/* nor this */";\nprint a;\n',
    'a = "\t tab and \x01\x02\x7f\x80\xff\xe9 high bytes";\nprint strlen(a);\n',
    "a = 0;\nb = 1;\nc = 007;\nd = 9223372036854775807;\ne = 0x0;\nf = 0xff;\ng = 0XFF;\nh = 0x7FFFFFFFFFFFFFFF;\ni = 0x00000000000000001;\nprint a b c d e f g h i;\n",
    "a = 1.5;\nb = .5;\nc = 0.5;\nd = 1.0;\ne = 10.0;\nf = 1e3;\ng = 1E3;\nh = 1e+3;\ni = 1e-3;\nj = 1.5e10;\nk = .5e1;\nl = 1.5E+300;\nm = 1e-300;\nn = 123456789.125;\nprint a b c d e f g h i j k l m n;\n",
    "a = 1e15;\nb = 1e16;\nc = 1e17;\nd = 123456789012345.0;\ne = 1234567890123456.0;\nf = 0.0001;\ng = 0.00001;\nh = 1e22;\ni = 1e23;\nj = 100000000000000000000.0;\nk = 0.1;\nl = 0.2;\nm = 0.5e-5;\nprint a b c d e f g h i j k l m;\n",
    "a = 0.0;\nb = 0e0;\nc = 0.0e5;\nd = 00.5;\ne = 1.50;\nf = 2.2250738585072014e-308;\ng = 1.7976931348623157e308;\nprint a b c d e f g;\n",
]

FINDING_TEXTS = [
    ("a = 0.30000000000000004;\nprint a == 0.3;\n", KF_DEC),
    ("a = 0.1 + 0.2;\nb = 0.30000000000000004;\nprint a == b;\n", KF_DEC),
    ("a = 1.2345678901234567;\nb = 12345678901234567.0;\nc = 9007199254740993.0;\nd = 3.141592653589793238;\nprint a b c d;\n", KF_DEC),
    ("print 1 0xFFFFFFFFFFFFFFFF;\n", KF_INT),
    ("a = 18446744073709551615 ** 2;\nprint a;\n", KF_INT),
    ("a = 2 ** 18446744073709551615;\nprint a;\n", KF_INT),
    ("x = 9223372036854775808;\nprint x;\n", KF_INT),
    ("x = 18446744073709551615;\ny = 0x8000000000000000;\nz = 1 - 18446744073709551615;\nprint x y z;\n", KF_INT),
    ("x = -9223372036854775808;\nprint x;\n", KF_INT),
    ("x = 1;\nprint (x) (-1);\n", KF_PRINT),
    ("x = 1;\nput (x) (x + 1);\nprint 2 * (x) (1 + 2) * 3;\n", KF_PRINT),
    ("function x(a) return integer is begin return a * 100; end;\nx = 1;\nprint (x) (-1);\n", KF_PRINT),
]

# DO statements: the witnesses of the repaired finding C12.do_without_keyword (1a89173) and the other shapes of a saved DO
# statement. Ordinary cases now (the property is REQUIRED on them); `do`-less expression statements are saved with the keyword.
DO_TEXTS = [
    "do (1 + 2);\n",
    "do 1;\n",
    "x = 1;\ndo -x;\ndo \"s\";\ndo 2.5;\n",
    "x = 1;\ndo (x);\ndo ((x + 1));\ndo -(x);\ndo +x;\ndo ~x;\ndo !true;\ndo not true;\ndo (not true);\ndo - x ** 2;\n",
    "do null;\ndo true;\ndo pi;\ndo 0x10;\ndo 1e3;\ndo \"\";\ndo (\"a\" + \"b\");\ndo 1 + 2 * 3;\ndo (1) + 2;\ndo 1 == 1 and 2 < 3;\n",
    "t = tab(1, 0);\nt.concat(5);\ndo t.concat(6);\ndo (t).concat(8);\nprint t.count();\n",
    "x = 1;\nx + 1;\nx;\nstrlen(\"abc\");\nnot true;\npi;\ntab(1, 2).count();\nu = tup(1, 2);\nu@1;\nu.set@1(5);\nprint u@1;\n",
    "function f(a) return integer is begin return a + 1; end;\nf(1);\ndo f(2);\ndo (f(3) + 1);\ndo -f(4);\n",
    "x = 0, do (x + 1);\na = 1, b = 2, do (a + b);\nc = 3, do 4;\n",
    "x = 2;\nif x == 2 then do (x); else do -x; end if;\nwhile x < 4 loop x = x + 1; do (x * 2); end loop;\n"
    "for i in 1 to 2 loop do (i); begin do \"s\"; do 1; exception when others then do (2); end; end loop;\n",
    "function g() return integer is begin do (1 + 2); do 3; return 1; exception when others then do -1; return 0; end;\ndo g();\ndo (g());\n",
    "do(1 + 2);\ndo(1);\ndo\n(2);\ndo /* c */ 3;\n",
]

REJECTED = [
    "a = 1 < 2 < 3;\n", "a = 1 == 2 == true;\n", "a = 2 ** -1;\n", "a = - -1;\n", "a = not not true;\n", "a = -+1;\n", "a = ~-1;\n",
    "PRINT 1;\n", "Print 1;\n", "a = 1 AND 2;\n", "IF true THEN nop; END IF;\n", "a = (1;\n", "a = 1);\n", "a = ;\n", "a = 1\n", "a = 1 +;\n",
    "if true then end if;\n", "if true then nop; end;\n", "if true then nop; end loop;\n", "while true loop end loop;\n",
    "while true loop nop; end if;\n", "for i in 1 to 2 loop nop; end;\n", "if true then nop; else nop; elsif true then nop; end if;\n",
    "begin nop; end\n", "begin nop; end x;\n", "begin nop; exception end;\n", "begin nop; exception when x then end;\n",
    "begin function f return integer is begin return 1; end; end;\n", "if true then function f return integer is begin return 1; end; end if;\n",
    "function f return integer is begin function g return integer is begin return 1; end; return 1; end;\n",
    "function f( return integer is begin return 1; end;\n", "function f(a b) return integer is begin return 1; end;\n",
    "function f(a:foo) return integer is begin return 1; end;\n", "function f return foo is begin return 1; end;\n",
    "function print return integer is begin return 1; end;\n", "print = 1;\n", "str = 1;\n", "x:foo;\n", "raise print;\n",
    "then;\n", "end;\n", "loop;\n", "1;\n", "(1);\n", "\"s\";\n", "-1;\n", "t = tab(); (t).concat(7);\n", "(1 + 2);\n", "a = 4.9e-324;\n", "a = 18446744073709551616;\n", "a = 0x10000000000000000;\n",
    "a = 1e999;\n", "a = 1e-999;\n", "a = max(1);\n", "a = max(1, 2, 3);\n", "a = pi();\n", "a = str(1, 2);\n", "a = tab(1);\n", "a = floor();\n",
    "t = tab(); a = t.count(1);\n", "t = tab(); a = t.at();\n", "t = tab(); a = t.foo();\n", "t = tup(1); a = t@x;\n", "t = tup(1); a = t.set(1);\n",
    "a = 1 2;\n", "a = 1,, b = 2;\n", "x = 1; y = x(;\n", "a = 1 power;\n", "a = matches 1;\n", "a = 1.2.3;\n", "a = 1..2;\n",
]


class C12(Check):
    pid = "C12"
    proof_modules = ["BlocV.Proofs.C12"]
    rule = ("source texts: (1) every ordered pair of the 25 binary operator spellings in the three shapes a o1 b o2 c / (a o1 b) o2 c / "
            "a o1 (b o2 c), every unary x binary combination in five shapes, unary x unary, each as a function over three OPAQUE "
            "parameters called with six value tuples; (2) hand-written statement forms (chained statements, declarations with every type "
            "keyword, if/elsif/else, while, for with step/asc/desc, forall, begin/exception, functions with typed parameters and "
            "exception clauses, print/put/do/return/raise/trace/nop, members, tuples, items, every built-in arity form, comments); "
            "(3) literal forms (all escapes, doubled quotes, prefixes, multi-line, every byte 1..255 except CR, hex, exponents, "
            "boundaries); (4) seeded random typed programs (vlib/progen.py) rendered with minimal, full and random parentheses; "
            "(5) random strings / decimals / integers; (6) the witnesses of the recorded findings; (7) malformed texts that must be rejected; "
            "(8) DO statements over every head (parenthesis, literal, sign, word), with and without the keyword in the source, nested and "
            "chained (the property is required on all of them: DOStatement::unparse writes its keyword since 1a89173). "
            "Per text: harness op `c12` (parse, unparse, run; re-parse the text in a twin context, unparse, run) against driver "
            "command `unp` (model text, re-parse, second text, regions). distinct = source text.")
    assumptions = [
        "the parser model has no type / symbol checks: a program the C++ rejects for such a reason is outside the domain (counted in stats.outside_domain)",
        "texts reach the scanner through StringReader in lines shorter than 1023 bytes (C13 covers the rest)",
        "`import`, `include`, module constructors / methods and the interactive `save` / `load` commands are not exercised (save writes "
        "statement->unparse + \";\\n\" per top-level statement, the same bytes as Executable::unparse at level 0)"]

    def __init__(self, tier, seed):
        super().__init__(tier, seed)
        have = {f["id"] for f in self.findings}
        for d in DEFAULT_FINDINGS:
            if d["id"] not in have:
                self.findings.append(dict(d))
                self.stats.setdefault("findings_not_in_known_findings_json", []).append(d["id"])

    def case_timeout(self):
        return 20

    # ------------------------------------------------------------ cases
    def texts(self):
        quick = self.tier == "quick"
        r = self.rng
        T = []
        # (1) operator matrix: typed so that the C++ static checks pass wherever the pair can be typed at all
        for fam, lst in (("pair", pair_cases()), ("unary", unary_cases())):
            for template, tree in lst:
                if tree is None:
                    src, _ = typed(template, ("leaf", "a"))
                    T.append((fam + "_rejected", src, "rejected"))
                    continue
                src, ok = typed(template, tree)
                if ok:
                    T.append((fam, src, None))
                elif not quick:
                    T.append((fam + "_untypeable", src, "rejected"))
        for (o, l) in BIN:
            if l != 8:
                for template, tree in ((("{a} %s {b} %s {c} %s {a}" % (o, o, o)), None), ("(({a} %s {b})) %s (({c}))" % (o, o), None)):
                    A, B_, C = leaf("a"), leaf("b"), leaf("c")
                    tr = ("bin", o, A, ("bin", o, B_, ("bin", o, C, A))) if l == 2 else ("bin", o, ("bin", o, ("bin", o, A, B_), C), A)
                    if template.startswith("(("):
                        tr = ("bin", o, ("bin", o, A, B_), C)
                    src, ok = typed(template, tr)
                    if ok:
                        T.append(("assoc", src, None))
        # (2) statements, (3) literals, (6) findings, (7) rejected
        for s in STATEMENT_TEXTS:
            T.append(("stmt", s, None))
        for s in LITERAL_TEXTS:
            T.append(("lit", s, None))
        for s, kf in FINDING_TEXTS:
            T.append(("finding", s, kf))
        for s in DO_TEXTS:
            T.append(("do", s, None))
        for s in REJECTED:
            T.append(("rejected", s, "rejected"))
        # every byte value in a string literal (CR is dropped by the reader: C13; NUL ends the chunk: C13)
        for lo in range(1, 256, 16):
            body = "".join(self.lit_char(c) for c in range(lo, min(lo + 16, 256)) if c != 13)
            T.append(("bytes", 'a = "%s";\nprint strlen(a);\nb = a + a;\n' % body, None))
        # (5) random literals
        for i in range(150 if quick else 1500):
            n = r.randint(0, 12)
            body = "".join(self.lit_char(r.choice([r.randint(1, 255), r.choice(b'"\\\n\tabfnrt '), r.randint(32, 126)])) for _ in range(n))
            body = body.replace("\r", "")
            T.append(("rstr", 'a = "%s";\nprint strlen(a);\n' % body, None))
        for i in range(200 if quick else 3000):
            k = r.random()
            if k < 0.3:
                x = r.choice([r.randint(0, 10 ** 6) / 10 ** r.randint(0, 6), r.randint(0, 2 ** 53) * 2.0 ** r.randint(-60, 60), r.random()])
                txt = repr(float(x))
            elif k < 0.6:
                digs = r.randint(1, 16)
                m = r.randint(1, 10 ** digs - 1)
                e = r.randint(-30, 30)
                txt = "%de%d" % (m, e) if r.random() < 0.5 else "%d.%de%d" % (m // 10 ** (digs // 2), m % 10 ** (digs // 2), e)
            elif k < 0.8:
                txt = "%d.%0*d" % (r.randint(0, 10 ** r.randint(0, 9)), r.randint(1, 8), r.randint(0, 10 ** 8 - 1) % 10 ** 8)
                txt = txt[:txt.index(".") + 1 + r.randint(1, 8)]
            else:
                x = struct.unpack("<d", struct.pack("<Q", r.randint(0x0010000000000000, 0x7fefffffffffffff)))[0]
                txt = repr(x)
            if "inf" in txt or "nan" in txt:
                continue
            if "e" not in txt and "." not in txt:
                txt += ".0"
            if txt.startswith("-"):
                continue
            T.append(("rdec", "a = %s;\nprint a;\n" % txt, None))
        # boundary literals of std::stod (glibc ERANGE rule: overflow; tiny AFTER rounding and inexact) -- Model/Strtod.lean
        for txt in ["2.22507385850720119781e-308", "2.2250738585072014e-308", "2.2250738585072013e-308", "2.2250738585072011e-308",
                    "2.225073858507201383e-308", "2.2250738585072012e-308", "4.9406564584124654e-324", "4.9e-324", "5e-324", "2.5e-324",
                    "1.7976931348623157e308", "1.7976931348623158e308", "1.7976931348623159e308", "1.797693134862315807e308",
                    "17976931348623157" + "0" * 292 + ".0", "1e308", "1e309", "1e400", "1e-400", "1e-323", "1e-324", "0.0e-999", "0e999",
                    "0." + "0" * 307 + "22250738585072014", "0." + "0" * 307 + "2225073858507201", "1.1125369292536007e-308",
                    "4.4501477170144023e-308", "8.98846567431158e307", "9007199254740993.0", "9007199254740992.0", "0.1e1", "100e-2"]:
            T.append(("rdecb", "a = %s;\nprint a;\n" % txt, None))
        for i in range(60 if quick else 600):
            v = r.choice([r.randint(0, 2 ** 64 - 1), r.randint(0, 2 ** 63 - 1), 2 ** r.randint(0, 64) - r.randint(0, 1), r.randint(0, 1000)])
            v = min(v, 2 ** 64 - 1)
            txt = str(v) if r.random() < 0.6 else ("0x%x" % v if r.random() < 0.5 else "0X%X" % v)
            T.append(("rint", "a = %s;\nprint a;\nb = a + 1;\n" % txt, None))
        # (4b) thinly covered forms (round C12-deepen 2): members, items, set@, trace, forall, typed declarations, deep parentheses
        def ie(depth=0):
            k = r.random()
            if depth > 2 or k < 0.25:
                return r.choice(["x", str(r.randint(0, 99)), "t.count()", "u@1", "strlen(s)", "s.count()", "r.at(0)", "t.at(0)", "u@3"])
            if k < 0.45:
                return "%s %s %s" % (ie(depth + 1), r.choice(["+", "-", "*"]), ie(depth + 1))
            if k < 0.6:
                return "(%s %s %s)" % (ie(depth + 1), r.choice(["+", "-", "*"]), ie(depth + 1))
            if k < 0.7:
                return "max(%s, %s)" % (ie(depth + 1), ie(depth + 1))
            if k < 0.8:
                return "-%s" % r.choice(["x", "(%s)" % ie(depth + 1), "t.at(1)", "u@1"])
            if k < 0.9:
                return "tup(%s, %s)@%d" % (ie(depth + 1), ie(depth + 1), r.randint(1, 2))
            return "tab(2, %s).at(%d)" % (ie(depth + 1), r.randint(0, 1))

        def be():
            return r.choice(["true", "false", "%s < %s" % (ie(1), ie(1)), "not (%s == %s)" % (ie(1), ie(1)), "isnull(s)", "%s >= %s and true" % (ie(1), ie(1))])

        def fe():   # a boolean that is FALSE when run (trace true would switch on time-stamped tracing)
            return r.choice(["false", "not true", "(1 > 2)", "isnull(s)", "1 == 2 and %s < %s" % (ie(1), ie(1)), "false or (%s < %s and false)" % (ie(1), ie(1))])
        TYPES = ["integer", "decimal", "string", "boolean", "bytes", "table", "tuple", "complex", "undefined"]
        for i in range(420 if quick else 3000):
            L = ['x = %d;' % r.randint(0, 50), 't = tab(3, %d);' % r.randint(0, 9), 'u = tup(%d, "s", %d);' % (r.randint(0, 9), r.randint(0, 9)),
                 's = "abc";', 'r = raw(3, 65);']
            for _ in range(r.randint(2, 5)):
                k = r.randint(0, 11)
                if k == 0:
                    L.append("trace %s;" % fe())
                elif k == 1:
                    L.append("forall e in t%s loop\n x = x + e;\n print e %s;\nend loop;" % (r.choice(["", " asc", " desc"]), ie(1)))
                elif k == 2:
                    L.append("n%d : %s;" % (len(L), r.choice(TYPES)))
                elif k == 3:
                    L.append("x = %s , m%d:%s , y = %s;" % (ie(), len(L), r.choice(TYPES), ie()))
                elif k == 4:
                    L.append("t.%s;" % r.choice(["put(%d, %s)" % (r.randint(0, 2), ie()), "insert(%d, %s)" % (r.randint(0, 2), ie()), "concat(%s)" % ie()]))
                elif k == 5:
                    L.append("u.set@%d(%s);" % (r.choice([1, 3]), ie()))
                elif k == 6:
                    L.append("print u.set@1(%s)@1 t.concat(%s).count() s.concat(\"z\").at(%d);" % (ie(), ie(), r.randint(0, 2)))
                elif k == 7:
                    L.append("put %s \"-\" %s;" % (ie(), ie()))
                elif k == 8:
                    L.append("x = %s%s%s;" % ("(" * r.randint(1, 14), ie(2), ""))
                    d = L[-1].count("(") - L[-1].count(")")
                    L[-1] = L[-1][:-1] + ")" * d + ";"
                elif k == 9:
                    L.append("if %s then\n trace %s;\nelsif %s then\n x = %s;\nelse\n forall e in t loop nop; end loop;\nend if;" % (be(), fe(), be(), ie()))
                elif k == 10:
                    L.append("do %s;" % r.choice(["t.delete(0)", "r.put(%d, 66)" % r.randint(0, 2), "s.insert(%d, \"!\")" % r.randint(0, 2), "u@%d" % r.randint(1, 3)]))
                else:
                    L.append("print %s %s;" % (ie(), r.choice(["t.at(%d)" % r.randint(0, 1), "u@2", "r.count()", "str(%s)" % ie()])))
            T.append(("forms", "\n".join(L) + "\n", None))
        # (4) random typed programs
        nprog = 260 if quick else 3000
        for i in range(nprog):
            g = progen.Gen(r, nvars=2, funcs=True, errors=0.05)
            prog = g.program(nstmts=r.randint(2, 6), depth=r.randint(1, 3))
            mode = i % 4
            try:
                if mode == 0:
                    src = progen.program_src(prog)                 # fully parenthesised (enc everywhere)
                elif mode == 1:
                    src = render_stmts(prog, r, 0.0)               # minimal parentheses (enc nowhere)
                else:
                    src = render_stmts(prog, r, 0.25)              # random redundant parentheses
            except ValueError:
                continue
            T.append(("prog%d" % mode, src, None))
        return T

    @staticmethod
    def lit_char(c):
        ch = chr(c)
        if ch == '"':
            return '\\"'
        if ch == "\\":
            return "\\\\"
        return ch

    def gen_cases(self):
        cases = []
        seen = set()
        n = 0
        for fam, src, tag in self.texts():
            if src in seen:
                continue
            seen.add(src)
            n += 1
            h = hx(src)
            cases.append(Case("c%d" % n, "unp %s" % h, "c12 %s" % h, {"family": fam, "src": src, "tag": tag}))
        self.stats["cases"] = n
        return cases

    # ------------------------------------------------------------ judge
    def judge(self, c, iraw, m_, stderr):
        fam = c.meta["family"]
        tag = c.meta["tag"]
        d = self.stats.setdefault("families", {})
        d[fam] = d.get(fam, 0) + 1
        ans = self._model_raw.get(c.cid, "")
        M = kv(ans)
        if iraw.startswith("crash") or iraw.endswith("diverges") or not iraw.startswith("p1="):
            return self.viol("parser / unparse / run crashed, diverged or harness error", c, iraw[:300], M, stderr)
        # `perr <code> <pos>` contains blanks: normalise before splitting
        iraw = re.sub(r"=perr (\d+)(?: \d+:\d+)?", r"=perr:\1", iraw)
        Iv = kv(iraw)
        model = M.get("model")
        if model is None:
            return self.viol("model gave no answer", c, iraw[:300], M)
        self.distinct.add(c.model_line)
        if len(self.samples) < 12 and self.rng.random() < 0.004:
            self.samples.append({"source": c.meta["src"][:400], "impl_text": bytes.fromhex(Iv.get("t1", "")).decode("latin-1")[:400],
                                 "model": {k: v for k, v in M.items() if k not in ("model", "txt2")}})
        p1 = Iv.get("p1", "")
        # ---- first parse
        if model.startswith("perr:"):
            if p1.startswith("perr:"):
                self.count("rejected_by_both")
                if tag != "rejected" and fam not in ("rint", "rdec", "rdecb", "lit"):
                    self.count("unexpected_rejection_" + fam)
                return
            return self.viol("the parser model rejects (%s) a text the implementation accepts" % model, c, p1, M)
        if p1.startswith("perr:"):
            code = int(p1[5:])
            if code in SYNTACTIC:
                return self.viol("the implementation rejects (%s) a text the parser model accepts" % p1, c, p1, M)
            if tag == "rejected":
                self.count("rejected_for_types_as_intended")
                return
            self.count("outside_domain")
            self.count("outside_domain_" + fam)
            return
        if tag == "rejected":
            self.count("expected_rejection_but_accepted")
        self.count("accepted")
        t1 = Iv.get("t1", "")
        kfs = [k for k in M.get("kf", "-").split(",") if k != "-"]
        p2 = Iv.get("p2", "")
        # ---- the property itself, on the implementation alone
        bad = None
        if p2 != "ok":
            bad = "the saved text is rejected when loaded (%s)" % p2
        elif Iv.get("t2") != t1:
            bad = "saving the loaded program gives another text"
        elif Iv.get("r1") != Iv.get("r2"):
            bad = "result differs after save/load: %s vs %s" % (Iv.get("r1"), Iv.get("r2"))
        elif Iv.get("o1") != Iv.get("o2"):
            bad = "output differs after save/load: %r vs %r" % (bytes.fromhex(Iv.get("o1", "")).decode("latin-1")[:200],
                                                               bytes.fromhex(Iv.get("o2", "")).decode("latin-1")[:200])
        elif Iv.get("d1") != Iv.get("d2"):
            bad = "final variables / context state differ after save/load"
        if bad is not None and not kfs:
            # a failure of the property outside every recorded region: the violation proper
            self.viol(bad, c, "p2=%s t1=%s" % (p2, bytes.fromhex(t1).decode("latin-1")[:200]), M, stderr)
            self.violations[-1]["property_failure"] = True
            return
        # ---- first unparse: byte for byte
        if "txt=" + t1 != model:
            return self.viol("unparse text differs from the model (the property holds on this input): impl %r model %r" % (
                bytes.fromhex(t1).decode("latin-1")[:300], bytes.fromhex(model[4:]).decode("latin-1")[:300]), c, "txt=" + t1, M)
        # ---- consistency of the proven domain with the model's own evaluation
        if M.get("wf") == "1" and not (M.get("re") == "ok" and M.get("fix") == "1" and M.get("tree") in ("same", "norm") and M.get("lex") == "1"):
            return self.viol("model: a program inside the proven domain (wf) does not round-trip in the model itself", c, "-", M)
        if M.get("lex") != "1" and not kfs:
            return self.viol("model: the text of an expression does not scan to the token list of toksExpr", c, "-", M)
        # ---- statement / program level (round C12-deepen): the statements of the new theorems, evaluated per case
        fd = self.stats.setdefault("forms", {})
        for fm in M.get("forms", "-").split(","):
            if fm != "-":
                fd[fm] = fd.get(fm, 0) + 1
        for k in ("ptoks", "prt", "flat", "wfp", "pfuel", "isep", "pfix"):
            if M.get(k) == "1":
                self.count("model_" + k)
        if M.get("pfix") != "1":
            return self.viol("model: unparse (normP p) differs from unparse p (contradicts C12.unparse_fixpoint_program)", c, "-", M)
        if M.get("wf") == "1" and M.get("ptoks") != "1":
            return self.viol("model: the saved bytes of a well-formed program do not scan to toksProgram (byte->token step of the statement theorems)", c, "-", M)
        if M.get("wf") == "1" and M.get("isep") != "1":
            return self.viol("model: a print list outside every finding region violates the explicit side condition itemsSep", c, "-", M)
        if M.get("wfp") == "1" and M.get("prt") != "1":
            return self.viol("model: parse (toksProgram p) is not normP p INSIDE the domain of C12.program_roundtrip (wfP)", c, "-", M)
        if M.get("pfuel") != "1":
            return self.viol("model: parseText's fuel does not cover the bound of C12.program_roundtrip (hypothesis hfuel of program_roundtrip_bytes)", c, "-", M)
        if M.get("wfp") == "1" and M.get("ptoks") == "1" and not (M.get("re") == "ok" and M.get("tree") in ("same", "norm")):
            return self.viol("model: INSIDE the domain of C12.program_roundtrip_bytes (wfP, hscan, hfuel) the byte-level round trip fails", c, "-", M)
        if M.get("wf") == "1" and M.get("wfp") != "1":
            self.count("wf_but_not_wfP")
        if M.get("wf") == "1" and M.get("prt") != "1":
            return self.viol("model: parse (toksProgram p) is not normP p for a well-formed program (statement of C12.program_roundtrip_partial%s)" % (
                ", INSIDE its proved domain" if M.get("flat") == "1" else ""), c, "-", M)
        if M.get("ptoks") == "1" and M.get("prt") == "1" and not (M.get("re") == "ok" and M.get("tree") in ("same", "norm")):
            return self.viol("model: token-level round trip holds but the byte-level one does not", c, "-", M)
        # ---- second parse / second unparse: impl == model
        mre = M.get("re", "")
        fused = KF_PRINT in kfs and p2 in ("perr:2", "perr:16")
        if not fused:
            if mre.startswith("perr:") != p2.startswith("perr:"):
                return self.viol("second parse: implementation %s, model %s" % (p2, mre), c, p2, M)
            if p2 == "ok":
                t2 = Iv.get("t2", "")
                mt2 = t1 if M.get("fix") == "1" else M.get("txt2", "")
                if t2 != mt2:
                    return self.viol("second unparse differs from the model: impl %r model %r" % (
                        bytes.fromhex(t2).decode("latin-1")[:300], bytes.fromhex(mt2).decode("latin-1")[:300] if mt2 != "-" else "-"), c, "txt=" + t2, M)
        if bad is None:
            self.count("property_holds")
            if M.get("beh") == "diff":
                return self.viol("model: the interpreter model gives different behaviours for the two trees but the implementation does not", c, "-", M)
            if M.get("beh") == "same":
                self.count("behaviour_also_compared_in_model")
            return
        entry = None
        for k in kfs:
            entry = next((f for f in self.findings if f["id"] == k and f.get("status", "known") == "known"), None)
            if entry is None:
                return self.viol("defect region %s is not a listed known finding: %s" % (k, bad), c, "p2=%s" % p2, M)
        kf = kfs[0]
        entry = next(f for f in self.findings if f["id"] == kf)
        self.count("finding_" + kf)
        cur = self.known_hits.get(kf)
        ex = c.meta["src"].replace("\n", " ")[:160]
        if cur is None or len(ex) < len(cur["example"]):
            self.known_hits[kf] = {"what": entry["what"], "example": ex, "impl": bad}

    def count(self, k):
        self.stats[k] = self.stats.get(k, 0) + 1

    def viol(self, what, c, iout, M, stderr=""):
        m = {"model": " ".join("%s=%s" % (k, v[:120]) for k, v in M.items()), "spec": None, "kf": M.get("kf")}
        self.record_violation(what, c, iout, m, stderr)
        self.violations[-1]["source"] = c.meta["src"]

    def step_correspondence(self):
        # the base class hands `judge` the parsed model dict; this check needs the raw answer (its own keys)
        orig = run.run_driver

        def wrapped(lines, *a, **k):
            res = orig(lines, *a, **k)
            self._model_raw = res
            return res
        run.run_driver = wrapped
        try:
            super().step_correspondence()
        finally:
            run.run_driver = orig
        acc = self.stats.get("accepted", 0)
        out = self.stats.get("outside_domain", 0)
        if acc + out and out > 0.03 * (acc + out):
            self.broken_ties.append("generator: %d of %d intended-valid texts are rejected by the implementation for type/symbol reasons" % (out, acc + out))
        if self.stats.get("expected_rejection_but_accepted"):
            self.stats["note_rejected"] = "some texts of the malformed list are accepted by both sides (not an error)"

    def finish(self):
        # failures of the property itself first, then disagreements with the model; shortest source first
        class Ordered(list):
            def sort(self, *a, **k):
                pass
        self.violations = Ordered(sorted(self.violations, key=lambda v: (0 if v.get("property_failure") else 1, len(v.get("source") or ""))))
        return super().finish()

    def replay(self, rep):
        """./check C12 --replay file: re-run the sources of a replay file"""
        from .. import build
        hbin = build.harness_build(self.harness)
        rc = 0
        for i, v in enumerate(rep.get("violations", [])):
            src = v.get("source") or ""
            h = hx(src)
            ri = run.run_harness(hbin, ["r%d c12 %s" % (i, h)], timeout_s=20, workers=1)
            rm = run.run_driver(["r%d unp %s" % (i, h)], workers=1)
            print("source: %r\n impl: %s\n model: %s" % (src, ri.get("r%d" % i, "?")[:600], rm.get("r%d" % i, "?")[:600]))
            rc = 1
        return rc
