"""C02 — the type fixed at compile time is the type produced at run time."""
import itertools
import re

from .. import progen
from ..core import Case, Check, outcomes_agree
from ..progen import I, L, S
from ..progcheck import ProgCheck
from ..run import hx
from .. import fe
from .c03 import OPS, CMP
from .c04 import LOGIC
from .c05 import IDF, UNOPS
from .c04 import parse_dump

# operand: (static-type tag, canonical value, how it is written)
VALS = [("i", "I:5"), ("i", "I:0"), ("i", "I:-3"), ("i", "N:i0"), ("d", "D:4004000000000000"), ("d", "N:d0"), ("b", "B:1"), ("b", "N:b0"),
        ("s", "S:6162"), ("s", "N:s0"), ("r", "R:6162"), ("r", "N:r0"), ("n", "N:?0"),
        ("ti", "Ti1[I:1,I:2]"), ("ts", "Ts1[S:61]"), ("tti", "Ti2[Ti1[I:1]]"), ("u", "Uu0{i0,s0}(I:1,S:61)"), ("nt", "N:i1")]
BUILTINS = ["abs", "sign", "floor", "ceil", "round", "sqrt", "int", "num", "str", "bool", "isnull", "isnum", "strlen", "upper", "lower",
            "trim", "ltrim", "rtrim", "hex", "chr", "raw", "hash", "b64enc", "b64dec", "typeof", "max", "min", "pow", "mod", "substr",
            "lsubstr", "rsubstr", "strpos", "replace", "subraw", "tokenize", "clamp", "tup", "tab", "log", "exp", "sin", "atan2"]


def sty(v):
    if v.startswith("N:"):
        return v[2:]
    if v.startswith("T"):
        return v[1:v.index("[")]
    if v.startswith("U"):
        return v[1:v.index("(")]
    return {"B": "b0", "I": "i0", "D": "d0", "S": "s0", "R": "r0", "C": "c0"}[v[0]]


# findings of this property that are not (yet) in known_findings.json — JSON entries in notes/NOTES-C02FE.md
LOCAL_FINDINGS = {
    "C02.stepwise_dead_branch_typed_from_value": "a program that compiles and runs without error as one unit is rejected when fed one statement at a time: "
                                                 "a never-executed statement whose operand is opaque to the parser (result of a function declared `return undefined`) "
                                                 "is accepted as one unit, but statement by statement the symbol carries the type of the value stored meanwhile and "
                                                 "the same statement is a TYPE_MISMATCH",
    "C02.safety_table_major_changes": "a `$`-qualified table variable (and a protected table iterator) can change its major type: "
                                      "Symbol::check_safety accepts any table for a table symbol, so `$t = tab(2, 1); $t = tab(1, \"a\");` "
                                      "turns a table of integers into a table of strings (manual: the type of a $NAME cannot change)",
}


class C02(ProgCheck):
    pid = "C02"
    proof_modules = ["BlocV.Proofs.C02", "BlocV.Proofs.C02G"]
    rule = ("(a) node level: every unary/binary operator and ~45 built-ins x tuples of operand classes (integer, decimal, boolean, "
            "string, bytes, untyped null, typed nulls, tables of 1 and 2 dimensions, tuple) x operand source (variable = static "
            "type known, identity-function result = opaque): Expression::type() taken in parsing mode is compared with the "
            "model's static type, and — the property itself — whenever it is not opaque, with the type of the value the same "
            "node evaluates to; (b) program level: seeded random programs run as one unit (parse + run) and statement by "
            "statement (parseStatement + execute): same outcome, output and variables; (c) `$`-qualified variables and loop "
            "iterators: a type-changing assignment must be rejected while the constraint is active; (d) front end: the SOURCE TEXT "
            "of every generated program (and of token-damaged variants) is run by the model through Lex/Parse/Elab/Safety "
            "(`src`) and must give the answer of the S-expression rendering and of the library (outcome, output, variables, "
            "parse-error code); (e) `$` / for / forall constraint families against Model/Safety.lean (static pass and "
            "storeVariable). distinct = expression + operand classes, resp. program text. (g) translator tie (GENOPS): "
            "extract/optypes.py regenerates lean/BlocV/Gen/OpTypes.lean from every op_*.{h,cpp} type()/value() and the "
            "productions of parse_expression.cpp; BlocV.Proofs.C02G proves the hand model equal to the interpreted tables; "
            "families gen-binop / gen-unop compare the interpreted tables themselves (driver words gop / gun) with the "
            "library on every operator (both spellings) x every pair of operand classes: acceptance, static type, kind of "
            "run-time outcome (value / INV_EXPRESSION / accessor error / boolean null); family gen-member: the receiver labels "
            "extracted from member_*.cpp (driver word gmemb) against EXC_PARSE_MEMB_NOT_IMPL_S of the library for the six "
            "member methods x every operand class. (h) family safety-loops: `$`-qualified and plain variables x {one for loop, "
            "nested loops over the same / another variable, forall iterators} x how each loop is left (normal end, break, return, "
            "runtime error) x where the constraint is probed (inside, after the inner loop, after the loops, in later units; "
            "statically and through a function declared integer that returns a string) through prog, the C API and the "
            "statement-at-a-time path: every unit's outcome and the safety bit of every symbol dumped after every unit against "
            "the flag machine of Model/Safety.lean (driver word sflag).")

    def node_case(self, cid, model, expr_src, setup, meta):
        ops = ["new 0", "prog 0 " + hx(IDF)] + setup + ["expr 0 " + hx(expr_src + ";")]
        meta = dict(meta)
        meta["node"] = True
        meta["expr"] = expr_src
        return Case(cid, model, "|".join(ops), meta)

    # ------------------------------------------------------------------ GENOPS: translator tie for the operators
    def gen_table_cases(self, kinds, n0, prefix="g"):
        """every operator (every spelling) x every pair of operand classes: what the regenerated tables say (driver words
        gop / gun) against Expression::type() / parse acceptance / evaluation in the library"""
        def operand(v, slot, kind):
            setup = ["set 0 %s %s" % (hx(slot.upper()), v)]
            return (slot if kind == "var" else "idf(%s)" % slot), setup, (sty(v) if kind == "var" else "?0")
        out = []
        n = n0
        for (opname, optext) in OPS + CMP + LOGIC:
            for (t1, v1), (t2, v2) in itertools.product(VALS, VALS):
                for k1, k2 in kinds:
                    e1, s1, st1 = operand(v1, "x", k1)
                    e2, s2, st2 = operand(v2, "y", k2)
                    n += 1
                    out.append(self.node_case("%s%d" % (prefix, n), "gop %s %s %s %s %s" % (opname, v1, v2, st1, st2), "%s %s %s" % (e1, optext, e2),
                                              s1 + s2, {"family": "gen-binop", "st": [st1, st2]}))
        for (opname, optext) in UNOPS + [("BNOT", "!")]:
            for (t1, v1) in VALS:
                for k1 in sorted(set(k for k, _ in kinds)):
                    e1, s1, st1 = operand(v1, "x", k1)
                    n += 1
                    out.append(self.node_case("%s%d" % (prefix, n), "gun %s %s %s" % (opname, v1, st1), "%s(%s)" % (optext, e1), s1,
                                              {"family": "gen-unop", "st": [st1]}))
        # member methods, receiver side (Gen/MemberSigs.lean): arguments chosen to pass the argument checks where possible
        for name, call in (("count", "x.count()"), ("at", "x.at(1)"), ("delete", "x.delete(1)"), ("put", "x.put(1, 65)"),
                           ("insert", "x.insert(1, x)"), ("concat", "x.concat(x)")):
            for (t1, v1) in VALS:
                e1, s1, st1 = operand(v1, "x", "var")
                n += 1
                out.append(self.node_case("%s%d" % (prefix, n), "gmemb %s %s" % (name, st1), call, s1,
                                          {"family": "gen-member", "st": [st1], "member": name}))
        # value argument of put / insert / concat on a string / bytes receiver (Gen/MemberSigs.lean `*_arg0`)
        for name, call in (("put", "x.put(1, y)"), ("insert", "x.insert(1, y)"), ("concat", "x.concat(y)")):
            for rv in ("S:6162", "R:6162"):
                for (t2, v2) in VALS:
                    e1, s1, st1 = operand(rv, "x", "var")
                    e2, s2, st2 = operand(v2, "y", "var")
                    n += 1
                    out.append(self.node_case("%s%d" % (prefix, n), "gmarg %s %s %s" % (name, st1, st2), call, s1 + s2,
                                              {"family": "gen-member-arg", "st": [st1, st2], "member": name}))
        return out

    ACC_CODES = ("7", "8", "9", "12", "13")     # EXC_RT_NOT_NUMERIC / INTEGER / BOOLEAN / LITERAL / TABCHAR

    def judge_gen(self, c, iraw, m, stderr):
        """the library against the INTERPRETED GENERATED TABLE (not the hand model): a disagreement means the extractor's
        reading of the source is not what the compiled source does — or, after a source change, names the concrete
        expression on which the library's behaviour moved"""
        st = self.stats.setdefault("gen_tables", {"cases": 0, "perr": 0, "inv": 0, "acc": 0, "null": 0, "val": 0})
        st["cases"] += 1
        if iraw.startswith("crash") or iraw.endswith("diverges"):
            return      # the twin case of the binop / unop family reports it
        ev = iraw.split("|")[-1]
        mout = m.get("model") or ""
        if c.meta.get("family") == "gen-member-arg":
            mg = re.match(r"gen arg=(\S+) harg=(\S+)", mout)
            if not mg:
                return self.record_violation("unparsable answer of the generated-table interpreter", c, ev, m)
            self.distinct.add((c.model_line, c.meta["expr"]))
            st["member_arg"] = st.get("member_arg", 0) + 1
            argtype = ev.startswith("perr 18 ")
            st["member_argtype"] = st.get("member_argtype", 0) + (1 if argtype else 0)
            if (mg.group(1) == "argtype") != (mg.group(2) == "18"):
                return self.record_violation("`%s` (receiver %s, argument %s): member_%s.cpp now says %s, the model the theorems are proved about "
                                             "says %s; the library answers %s" % (c.meta["expr"], c.meta["st"][0], c.meta["st"][1], c.meta["member"],
                                                                                 mg.group(1), mg.group(2), ev), c, ev, m)
            if argtype != (mg.group(1) == "argtype") or (mg.group(1) == "ok" and ev.startswith("perr")):
                return self.record_violation("`%s` (receiver %s, argument %s): the library answers %s; the argument test extracted from member_%s.cpp "
                                             "says %s" % (c.meta["expr"], c.meta["st"][0], c.meta["st"][1], ev, c.meta["member"], mg.group(1)), c, ev, m)
            return
        if c.meta.get("family") == "gen-member":
            mg = re.match(r"gen recv=(\S+) disp=(\S+) hrecv=(\S+)", mout)
            if not mg:
                return self.record_violation("unparsable answer of the generated-table interpreter", c, ev, m)
            self.distinct.add((c.model_line, c.meta["expr"]))
            st["member"] = st.get("member", 0) + 1
            if mg.group(2) != "ok":
                return      # the receiver does not reach the method (MemberExpression::parse refuses it first)
            notimpl = ev.startswith("perr 17 ")
            if mg.group(1) != mg.group(3):
                # only possible while memberReceiver_eq_source does not check: the source moved; name the expression
                return self.record_violation("`%s` with a receiver of static type %s: member_%s.cpp now says receiver %s, the model the theorems are "
                                             "proved about says %s; the library answers %s" % (c.meta["expr"], c.meta["st"][0], c.meta["member"],
                                                                                             mg.group(1), mg.group(3), ev), c, ev, m)
            st["member_notimpl"] = st.get("member_notimpl", 0) + (1 if notimpl else 0)
            if notimpl != (mg.group(1) == "notimpl"):
                return self.record_violation("`%s` with a receiver of static type %s: the library answers %s; the receiver labels extracted from "
                                             "member_%s.cpp say %s" % (c.meta["expr"], c.meta["st"][0], ev, c.meta["member"], mg.group(1)), c, ev, m)
            return
        mm = re.match(r"gen accept=(\S+) ty=(\S+) rt=(\S+) hacc=(\S+) hty=(\S+)", mout)
        if not mm:
            return self.record_violation("unparsable answer of the generated-table interpreter", c, ev, m)
        acc, gty, grt, hacc, hty = mm.groups()
        if (acc, gty) != (hacc, hty):
            # only possible while BlocV.Proofs.C02G does not check (typeBin_eq_source / acceptBin_eq_source): the source moved.
            # The proved model is the reference the C02 theorems are about: name the concrete expression.
            st["hand_vs_source"] = st.get("hand_vs_source", 0) + 1
            if not ev.startswith("perr") or hacc != "perr":
                return self.record_violation("`%s` (static operand types %s): the operator's source now says accept=%s type=%s, the model the C02 "
                                             "theorems are proved about says accept=%s type=%s; the library answers %s" % (
                                                 c.meta["expr"], c.meta["st"], acc, gty, hacc, hty, ev), c, ev, m)
        self.distinct.add((c.model_line, c.meta["expr"]))
        expr = c.meta["expr"]
        if ev.startswith("perr"):
            st["perr"] += 1
            if acc != "perr":
                return self.record_violation("`%s` (static operand types %s) is rejected at compile time (%s); the operand checks extracted from "
                                             "parse_expression.cpp accept it" % (expr, c.meta["st"], ev), c, ev, m)
            return
        if acc != "ok":
            return self.record_violation("`%s` (static operand types %s) compiles; the operand checks extracted from parse_expression.cpp "
                                         "reject it" % (expr, c.meta["st"]), c, ev, m)
        me = re.match(r"ty=(\S+) (.*)$", ev)
        if not me:
            return self.record_violation("unparsable answer", c, ev, m)
        static, rest = me.group(1), me.group(2)
        if static.split("{")[0].split("#")[0] != gty.split("#")[0]:
            return self.record_violation("`%s` (static operand types %s): Expression::type() is %s, the type() chain extracted from the "
                                         "operator's source gives %s" % (expr, c.meta["st"], static, gty), c, ev, m)
        got = rest.split(" rt=")[0]
        kind = ("inv" if got == "rerr 5" else
                "acc" if got.startswith("rerr ") and got.split()[1] in self.ACC_CODES else
                "null" if got == "ok N:b0" else "val")
        st[kind] += 1
        if grt == "val" and kind == "null":
            kind = "val"      # a boolean null computed by a cell (null and true) is a value of that cell
        if grt == "null" and kind != "null" or grt in ("inv", "acc") and kind != grt or grt == "val" and kind in ("inv", "acc"):
            return self.record_violation("`%s` with operands %s evaluates to %s; the case labels extracted from the operator's value() "
                                         "predict %s" % (expr, " ".join(c.model_line.split()[2:4]), got, grt), c, got, m)

    def step_proofs(self):
        """as Check.step_proofs; when BlocV.Proofs.C02G stops checking (a regenerated table moved), name the theorems"""
        from .. import build
        ok = ProgCheck.step_proofs(self)
        if any("C02G" in b for b in self.broken_ties):
            okm, out = build.lean_build(["BlocV.Proofs.C02G"])
            named = []
            for mo in re.finditer(r"error: \S*(Proofs/C02G|Proofs/Lemmas/GenOps)\.lean:(\d+):\d+: ([^\n]*)", out):
                src = open(build.LEAN + "/BlocV/" + mo.group(1) + ".lean").read().split("\n")
                ln = int(mo.group(2))
                th = ("BlocV.C02G." if mo.group(1).endswith("C02G") else "BlocV.GenOps.") + next((re.match(r"\s*theorem\s+(\S+)", src[k]).group(1) for k in range(min(ln, len(src)) - 1, -1, -1)
                           if re.match(r"\s*(theorem|example)\b", src[k]) and re.match(r"\s*theorem\s+(\S+)", src[k])), "?")
                if th not in named:
                    named.append(th)
            for th in named:
                self.broken_ties.insert(0, "theorem %s%s no longer checks against the tables regenerated from the C++ source "
                                           "(generated files that changed: %s)" % (th, "" if th.startswith("BlocV.C02G.") else " (lemma of BlocV.Proofs.C02G)",
                                                                                   self.stats.get("gen_changed")))
        return ok

    def search_failing_input(self):
        """a tie broke and the families of this run found no failing input: compare the regenerated tables AND the hand model
        with the library on the exhaustive matrix — every operator x every pair of operand classes x {typed variable, opaque}"""
        from .. import build, run
        kinds = [("var", "var"), ("tmp", "var"), ("var", "tmp"), ("tmp", "tmp")]
        cases = self.gen_table_cases(kinds, 0, prefix="s")
        try:
            hbin = build.harness_build(self.harness)
        except build.BuildError:
            return None
        impl = run.run_harness(hbin, ["%s %s" % (c.cid, c.impl_line) for c in cases], timeout_s=self.case_timeout())
        model = run.run_driver(["%s %s" % (c.cid, c.model_line) for c in cases])
        from ..core import parse_model
        for c in cases:
            self.evaluations += 1
            iraw = impl.get(c.cid)
            if iraw is None:
                continue
            self.judge_gen(c, iraw, parse_model(model.get(c.cid, "")), "")
        self.stats["search"] = {"matrix_cases": len(cases), "violations": len(self.violations)}
        return None

    # ------------------------------------------------------------------ C02R3: the safety flag around loops, every exit route
    SF_NAMES = ["$K", "I", "J", "E"]
    SF_H = 'function h() return integer is begin return "s"; end;'

    def safety_scenarios(self):
        """-> [(tag, [unit text], 'token trace')]: `$`-variable / plain variable x {single loop, nested loops over the same variable,
        over another variable} x how each loop is left (normal end, break, return, runtime error) x where the constraint is
        probed (inside the inner loop, after it inside the outer body, after the loops, in a later unit), plus forall iterators"""
        txt = {"$K": "$k", "I": "i", "J": "j", "E": "e"}

        def loop(v, route, body_txt, body_tr):
            head = "for %s in 7 to 7 loop" % txt[v] if route == "normal" else "for %s in 1 to 3 loop" % txt[v]
            tail = {"normal": ("", "U"), "break": (" break;", "U"), "return": (" return 0;", "T"), "error": (" x = 1/z;", "X")}[route]
            return "%s %s print 1;%s end loop;" % (head, body_txt, tail[0]), ["F:" + v] + body_tr + [tail[1]]

        def rprobe(v):
            return "%s = h();" % txt[v], ["R:" + v]
        routes = ("normal", "break", "return", "error")
        out = []
        for v in ("$K", "I"):
            pre = ["$k = 0;"] if v == "$K" else []
            pre_tr = [";"] * len(pre)
            shapes = [("single", None, r, None) for r in routes]
            shapes += [("same", v, ro, ri) for ro in routes for ri in routes]
            shapes += [("other", "J", ro, ri) for ro in routes for ri in routes]
            for shape, iv, ro, ri in shapes:
                for probe in ("none", "inner", "after-inner", "after-all"):
                    if shape == "single" and probe == "after-inner":
                        continue
                    bt, btr = "", []
                    if shape != "single":
                        ibt, ibtr = rprobe(v) if probe == "inner" else ("", [])
                        bt, btr = loop(iv, ri, ibt, ibtr)
                        if probe == "after-inner":
                            pt, ptr_ = rprobe(v)
                            bt, btr = bt + " " + pt, btr + ptr_
                    elif probe == "inner":
                        bt, btr = rprobe(v)
                    lt, ltr = loop(v, ro, bt, btr)
                    if probe == "after-all":
                        pt, ptr_ = rprobe(v)
                        lt, ltr = lt + " " + pt, ltr + ptr_
                    units = [self.SF_H] + pre + ["z = 0; " + lt, '%s = "abc";' % txt[v], "%s = h();" % txt[v]]
                    trace = [";"] + pre_tr + ltr + [";", "S:" + v, ";", "R:" + v, ";"]
                    out.append(("%s/%s/%s-%s/%s" % (v, shape, ro, ri, probe), units, " ".join(trace)))
        # forall iterators: a `$` variable (or a running for iterator) is refused as iterator; a plain iterator is free again afterwards
        out.append(("forall/$K", [self.SF_H, "$k = 0;", "forall $k in tab(2, 0) loop print 1; end loop;", '$k = "abc";'],
                    "; ; PERR33 ; S:$K ;"))
        for r, tail, tk in (("normal", "", "U"), ("break", " break;", "U"), ("error", " x = 1/z;", "X"), ("return", " return 0;", "T")):
            out.append(("forall/E/" + r, [self.SF_H, "z = 0; forall e in tab(2, 0) loop print 1;%s end loop;" % tail, 'e = "abc";'],
                        "; A:E %s ; S:E ;" % tk))
            out.append(("forall-in-for/" + r, [self.SF_H, "z = 0; for i in 1 to 3 loop forall e in tab(1, 0) loop print 1;%s end loop; i = h(); end loop;" % tail,
                                               'i = "abc";'], "; F:I A:E %s R:I U ; S:I ;" % tk))
        return out

    def safety_cases(self, n0):
        cases = []
        n = n0
        for tag, units, trace in self.safety_scenarios():
            for mode in ("prog", "capi", "step"):
                ops = ["new 0"]
                for u in units:
                    ops += ["%s 0 %s" % (mode, hx(u + "\n")), "dump 0"]
                n += 1
                cases.append(Case("f%d" % n, "sflag " + trace.replace("PERR33 ", ""), "|".join(ops),
                                  {"family": "safety-loops", "tag": tag, "mode": mode, "units": units, "trace": trace}))
        return cases

    def judge_safety_loops(self, c, iraw, m, stderr):
        st = self.stats.setdefault("safety_loops", {"cases": 0, "units": 0, "probes_set": 0, "probes_unset": 0})
        st["cases"] += 1
        self.distinct.add(("safety-loops", c.meta["tag"], c.meta["mode"]))
        if iraw.startswith("crash") or iraw.endswith("diverges"):
            return self.record_violation("crash in a loop / constraint scenario: %s" % " ".join(c.meta["units"]), c, iraw, m, stderr)
        mm = re.match(r"p=(\S*) u=(\S+)$", m.get("model") or "")
        if not mm:
            return self.record_violation("unparsable answer of the flag machine", c, iraw, m)
        probes, ubits = list(mm.group(1)), mm.group(2).split(",")
        parts = iraw.split("|")[1:]
        units = c.meta["units"]
        toks = c.meta["trace"].split()
        # replay the trace the way the driver does, unit by unit, to know what each unit is expected to answer
        ui, k, pi = 0, 0, 0
        # C API (docs/BLOC-C-API.md, bloc_reset_stop): the stop condition is HELD after a `return`; until the host resets it a later
        # bloc_execute on the context compiles its text but runs nothing. The harness op `capi` does not reset: later units only parse.
        held = False
        while ui < len(units):
            expect, skip = "ok", False
            held_now = held
            while toks[k] != ";":
                t = toks[k]
                k += 1
                if skip:
                    continue
                if t == "PERR33":
                    expect, skip = "perr 33", True
                elif t[0] in "RS" and t[1] == ":":
                    bit = probes[pi]
                    pi += 1
                    if t[0] == "R" and held_now:
                        continue        # not executed
                    st["probes_set" if bit == "1" else "probes_unset"] += 1
                    if bit == "1":
                        expect, skip = ("rerr 25" if t[0] == "R" else "perr 11"), True
                elif t[0] == "A" and pi < len(probes) and probes[pi] == "r":
                    pi += 1
                    expect, skip = "rerr 4", True
                elif t == "X":
                    expect, skip = "rerr 23", True
                elif t == "T":
                    expect, skip = "ok", True
                    held = c.meta["mode"] == "capi"
            k += 1
            got, dump = parts[2 * ui], parse_dump(parts[2 * ui + 1])
            st["units"] += 1
            self.tally(c, got, m)
            where = "unit %d `%s` of [%s] (%s, %s)" % (ui + 1, units[ui], " | ".join(units), c.meta["tag"], c.meta["mode"])
            if not (got.startswith(expect) if expect != "ok" else got.startswith("ok")):
                prop = ""
                if expect in ("rerr 25", "perr 11") and got.startswith("ok"):
                    prop = " — the constrained variable accepted a value of another major type (property C02, third sentence)"
                return self.record_violation("%s answers %s; the flag machine (Model/Safety.lean) predicts %s%s" % (where, got, expect, prop), c, got, m)
            for j, name in enumerate(self.SF_NAMES):
                sym = dump["syms"].get(name)
                if sym is None:
                    continue
                want = "s%sl0" % ubits[ui][j]
                if sym[1] != want:
                    return self.record_violation("after %s the symbol %s carries flags %s; the flag machine (safety_restored_after_loop / "
                                                 "dollar_constraint_survives_loops) says %s" % (where, name, sym[1], want), c, got, m)
            ui += 1

    def gen_cases(self):
        quick = self.tier == "quick"
        cases = []
        n = 0

        def operand(v, slot, kind):
            setup = ["set 0 %s %s" % (hx(slot.upper()), v)]
            return (slot if kind == "var" else "idf(%s)" % slot), setup, (sty(v) if kind == "var" else "?0")

        kinds = [("var", "var"), ("tmp", "var"), ("var", "tmp"), ("tmp", "tmp")]
        for (opname, optext) in OPS + CMP + [(a, b) for a, b in LOGIC if b in ("and", "or", "xor")]:
            for (t1, v1), (t2, v2) in itertools.product(VALS, VALS):
                for k1, k2 in kinds:
                    if quick and (k1, k2) != ("var", "var") and (len(t1) > 1 or len(t2) > 1):
                        continue
                    e1, s1, st1 = operand(v1, "x", k1)
                    e2, s2, st2 = operand(v2, "y", k2)
                    n += 1
                    cases.append(self.node_case("c%d" % n, "opk %s %s %s %s %s" % (opname, v1, v2, st1, st2), "%s %s %s" % (e1, optext, e2),
                                                s1 + s2, {"family": "binop", "st": [st1, st2]}))
        for (opname, optext) in UNOPS:
            for (t1, v1) in VALS:
                for k1 in ("var", "tmp"):
                    e1, s1, st1 = operand(v1, "x", k1)
                    n += 1
                    cases.append(self.node_case("c%d" % n, "un %s %s %s" % (opname, v1, st1), "%s(%s)" % (optext, e1), s1, {"family": "unop", "st": [st1]}))
        # (g) GENOPS: the regenerated tables (Gen/OpTypes.lean, interpreted by Model/GenEval.lean) against the library
        for c in self.gen_table_cases([("var", "var"), ("tmp", "tmp")] if quick else kinds, n):
            cases.append(c)
        n += len([c for c in cases if c.meta.get("family", "").startswith("gen-")])
        for f in BUILTINS:
            for (t1, v1) in VALS:
                for k1 in ("var", "tmp"):
                    e1, s1, st1 = operand(v1, "x", k1)
                    n += 1
                    cases.append(self.node_case("c%d" % n, "bityk %s 1 %s %s" % (f, st1, v1), "%s(%s)" % (f, e1), s1, {"family": "builtin1", "st": [st1], "vt": [sty(v1)], "nomodelval": True}))
                    for (t2, v2) in (VALS if not quick else VALS[:8]):
                        e2, s2, st2 = operand(v2, "y", "var")
                        n += 1
                        cases.append(self.node_case("c%d" % n, "bityk %s 2 %s %s %s %s" % (f, st1, st2, v1, v2), "%s(%s, %s)" % (f, e1, e2), s1 + s2,
                                                    {"family": "builtin2", "st": [st1, st2], "vt": [sty(v1), sty(v2)], "nomodelval": True}))
        # (b) batch vs statement-at-a-time
        for k in range(250 if quick else 4000):
            g = progen.Gen(self.rng, nvars=2, funcs=(k % 2 == 0), errors=0.03)
            prog = g.program(nstmts=self.rng.randint(4, 8), depth=2)
            n += 1
            c = self.prog_case("c%d" % n, prog, {"family": "batch"})
            cases.append(c)
            n += 1
            src = c.meta["src"]
            # the model predicts the statement-at-a-time run itself (`srcstep`: Stepwise.runStepwise on the source text)
            cases.append(Case("c%d" % n, "srcstep %d %s" % (self.fuel, hx(src)), "|".join(["new 0", "step 0 " + hx(src), "out 0", "dump 0"]),
                              {"family": "stepwise", "src": src, "ast": prog}))
            # (d) front end: the SAME text through Lex -> Parse -> Elab -> runProgram (judged after its S-expression twin)
            n += 1
            cases.append(fe.fe_case(self, "c%d" % n, src, {"family": "fe", "twin": True, "ast": prog}))
            # (d') the text with one token damaged: rejected by both sides with the same code, or run identically
            for _ in range(2):
                n += 1
                cases.append(fe.fe_case(self, "c%d" % n, fe.mutate(self.rng, src), {"family": "fe-mut"}, fuel=20000))
        # (d'') programs with tables, members and forall through the front end (no S-expression twin needed: C09 owns that tie)
        for k in range(60 if quick else 1000):
            g = progen.Gen(self.rng, nvars=2, funcs=(k % 3 == 0), errors=0.03, tables=0.35)
            prog = g.program(nstmts=self.rng.randint(4, 8), depth=2)
            n += 1
            c = self.prog_case("c%d" % n, prog, {"family": "batch"})
            cases.append(c)
            n += 1
            cases.append(fe.fe_case(self, "c%d" % n, c.meta["src"], {"family": "fe-tables", "twin": True, "ast": prog}))
        # (b'') the excluded region of stepwise_eq_batch: a dead branch typed opaque as one unit, typed from the VALUE statement by statement
        rets = [("i0", "1"), ("s0", '"s"'), ("b0", "true"), ("d0", "2.5"), ("?0", "null")]
        deads = ['y = x + "a";', "y = x and true;", "y = x & 1;", "y = -x;", "y = x * 2;", "y = not x;", "y = x < 1;", "y = strlen(x);", "y = x;"]
        for (rt, rl), dead in itertools.product(rets, deads):
            for guard, endk in (("if false then", "end if;"), ("while false loop", "end loop;")):
                src = "function f() return undefined is\nbegin\n  return %s;\nend;\nx = f();\n%s\n  %s\n%s\nprint 7;\n" % (rl, guard, dead, endk)
                n += 1
                cases.append(fe.fe_case(self, "c%d" % n, src, {"family": "fe-dead", "dead": (rt, dead)}))
                n += 1
                cases.append(Case("c%d" % n, "srcstep %d %s" % (self.fuel, hx(src)), "|".join(["new 0", "step 0 " + hx(src), "out 0", "dump 0"]),
                                  {"family": "fe-dead-step", "src": src, "dead": (rt, dead)}))
        # (d''') hand-enumerated texts: every PStmt / PExpr constructor and lexical form the generator never writes, as one unit and
        # statement by statement
        for tag, src in fe.HAND_TEXTS:
            n += 1
            cases.append(fe.fe_case(self, "c%d" % n, src, {"family": "fe-hand", "tag": tag}, fuel=20000))
            n += 1
            cases.append(Case("c%d" % n, "srcstep 20000 %s" % hx(src), "|".join(["new 0", "step 0 " + hx(src), "out 0", "dump 0"]),
                              {"family": "fe-hand-step", "src": src, "tag": tag}))
        # (e) constraint flags through the front end + Model/Safety.lean: `$` variables, for / forall iterators
        for (ta, la), (tb, lb) in itertools.product(fe.SAFE_LITS, fe.SAFE_LITS):
            n += 1
            cases.append(fe.fe_case(self, "c%d" % n, "x = %s;\ny = %s;\n$q = x;\n$q = y;\nr = 1;\n" % (la, lb),
                                    {"family": "fe-safety", "safety": (ta, tb)}))
            if ta == "i0":
                n += 1
                cases.append(fe.fe_case(self, "c%d" % n, "y = %s;\nfor k in 1 to 2 loop\n  k = y;\n  break;\nend loop;\n" % lb,
                                        {"family": "fe-iter", "safety": ("i0", tb)}))
                n += 1
                cases.append(fe.fe_case(self, "c%d" % n, "y = %s;\nfor k in 1 to 2 loop\n  if false then k = y; end if;\nend loop;\nk = y;\n" % lb,
                                        {"family": "fe-iter-dead", "safety": ("i0", tb)}))
            if ta[1] == "0" and ta[0] in "idbs":
                n += 1
                cases.append(fe.fe_case(self, "c%d" % n, "t = tab(2, %s);\ny = %s;\nforall e in t loop\n  e = y;\n  break;\nend loop;\n" % (la, lb),
                                        {"family": "fe-forall", "safety": (ta, tb)}))
            # via a function call: the declared return type is the static type, the value decides at run time
            # (Context::storeVariable); model: Safety.storeCheck
            if ta in fe.TYNAME:
                n += 1
                src = "function f(p) return %s is\nbegin\n  return p;\nend;\nx = %s;\ny = %s;\n$q = x;\n$q = f(y);\n" % (fe.TYNAME[ta], la, lb)
                cases.append(Case("c%d" % n, "store %s 1 %s %s" % (ta, ta, tb), "|".join(["new 0", "prog 0 " + hx(src), "out 0", "dump 0"]),
                                  {"family": "fe-store", "safety": (ta, tb), "src": src}))
        # (b') a variable re-typed more than once inside a unit that is compiled but not executed: the symbol must be back to
        # its previous type for the next unit (statement-at-a-time), as it is for the whole program
        lits = {"i": "1", "d": "2.5", "s": '"s"', "b": "true"}
        uses = {"i": "(v & 3)", "d": "(v / 2.0)", "s": "upper(v)", "b": "(v and true)"}
        for t0 in "idsb":
            for t1 in "idsb":
                for t2 in "idsb":
                    for guard in ("if false then", "for k in 2 to 1 asc loop", "while false loop"):
                        endk = {"if false then": "end if;", "for k in 2 to 1 asc loop": "end loop;", "while false loop": "end loop;"}[guard]
                        src = "v = %s;\n%s v = %s; v = %s; v = %s; %s\nr = %s;\n" % (lits[t0], guard, lits[t1], lits[t2], lits[t0], endk, uses[t0])
                        for mode in ("prog", "step"):
                            n += 1
                            cases.append(Case("c%d" % n, "", "|".join(["new 0", "%s 0 %s" % (mode, hx(src)), "dump 0"]),
                                              {"family": "retype", "src": src, "mode": mode}))
        # (c) safety-qualified variables and iterators keep their major type
        for (t1, v1), (t2, v2) in itertools.product(VALS[:12], VALS[:12]):
            n += 1
            src = "$q = x;\n$q = y;\nr = 1;\n"
            cases.append(Case("c%d" % n, "", "|".join(["new 0", "set 0 %s %s" % (hx("X"), v1), "set 0 %s %s" % (hx("Y"), v2), "prog 0 " + hx(src), "dump 0"]),
                              {"family": "safety", "safety": (sty(v1), sty(v2)), "src": src}))
            n += 1
            src = "for k in 1 to 2 loop k = y; break; end loop;\n"
            cases.append(Case("c%d" % n, "", "|".join(["new 0", "set 0 %s %s" % (hx("Y"), v2), "prog 0 " + hx(src), "dump 0"]),
                              {"family": "iterator", "safety": ("i0", sty(v2)), "src": src}))
        # (h) C02R3: the run-time safety flag around loops (Model/Safety.lean flag machine), every exit route, three paths
        sc = self.safety_cases(n)
        cases += sc
        n += len(sc)
        self.stats["cases"] = n
        return cases

    def judge(self, c, iraw, m, stderr):
        fam = c.meta.get("family")
        if fam == "batch":
            fe.note_sexp_answer(self, c.meta["src"], m.get("model"))
        if fam in ("batch", "stepwise"):
            return ProgCheck.judge(self, c, iraw, m, stderr)
        if fam and fam.startswith("fe"):
            return self.judge_fe_family(fam, c, iraw, m, stderr)
        if fam == "safety-loops":
            return self.judge_safety_loops(c, iraw, m, stderr)
        if fam in ("gen-binop", "gen-unop", "gen-member", "gen-member-arg"):
            return self.judge_gen(c, iraw, m, stderr)
        if iraw.startswith("crash") or iraw.endswith("diverges"):
            self.tally(c, iraw, m)
            kf = self.crash_kf(c, iraw, stderr)
            if kf:
                return
            return self.record_violation("crash: %s" % (c.meta.get("expr") or c.meta.get("src")), c, iraw, m, stderr)
        parts = iraw.split("|")
        if fam == "retype":
            self.distinct.add((fam, c.meta["src"], c.meta["mode"]))
            prog = parts[-2]
            self.tally(c, prog, m)
            if prog != "ok-":
                return self.record_violation("a program whose non-executed unit re-types a variable is not accepted/executed %s: %s" % (
                    "as one unit" if c.meta["mode"] == "prog" else "statement by statement", prog), c, prog, m)
            return
        if fam in ("safety", "iterator"):
            self.distinct.add((fam, c.meta["safety"]))
            prog, dump = parts[-2], parts[-1]
            self.tally(c, prog, m)
            a, b = c.meta["safety"]
            # spec: while the constraint is active the major type cannot change: the assignment of another major must be refused
            same_major = a[0] == b[0] and (a[1:] == b[1:] or True)
            ok = prog in ("ok-",)
            if fam == "iterator":
                if b[0] in "i?" and b[1] == "0":
                    return
                if ok:
                    return self.record_violation("a for iterator accepted a value of type %s inside its loop" % b, c, prog, m)
                return
            if a[0] == "?" or b[0] == "?":
                return      # opaque either side: nothing is fixed
            if ok and (a[0] != b[0] or (a[1] == "0") != (b[1] == "0")):
                return self.record_violation("`$q` of type %s accepted a value of type %s" % (a, b), c, prog, m)
            if not ok and a == b:
                return self.record_violation("`$q` of type %s refused a value of the same type (%s)" % (a, prog), c, prog, m)
            return
        ev = parts[-1]
        self.distinct.add((c.model_line, c.meta["expr"]))
        mout = m.get("model")
        self.tally(c, ev.split(" ")[0] if ev.startswith("perr") else "typed", m)
        if len(self.samples) < 10 and self.rng.random() < 0.002:
            self.samples.append({"expr": c.meta["expr"], "static": c.meta["st"], "impl": ev, "model": mout})
        if ev.startswith("perr"):
            # parse-time rejection must be predicted by the model's acceptance rules (when it models them)
            if mout and not mout.startswith(("perr", "unmodelled", "ty=?")) and not c.meta.get("nomodelval"):
                return self.record_violation("`%s` is rejected at compile time (%s), the model accepts it" % (c.meta["expr"], ev), c, ev, m)
            if mout and mout.startswith("accept="):
                if mout.split()[0] != "accept=" + ev.split()[1]:
                    return self.record_violation("`%s`: compile-time verdict %s, model %s" % (c.meta["expr"], ev, mout), c, ev, m)
            return
        mm = re.match(r"ty=(\S+) (.*)$", ev)
        if not mm:
            return self.record_violation("unparsable answer", c, ev, m)
        static, rest = mm.group(1), mm.group(2)
        # the property itself: non-opaque static type ⇒ every evaluation yields exactly that type
        mr = re.search(r" rt=(\S+)$", rest)
        if mr and not static.startswith("?"):
            rt = mr.group(1)
            if rt.split("{")[0].split("#")[0] != static.split("{")[0].split("#")[0]:
                if fam in ("builtin1", "builtin2"):
                    d = self.stats.setdefault("bity_mismatch", {})
                    d[c.model_line.split()[1]] = d.get(c.model_line.split()[1], 0) + 1
                if fam in ("binop", "builtin1", "builtin2"):
                    # C02R3: the region of C02.static_vs_runtime.op.<OP> is exact — the driver names it (KF/C02.lean `c02OpGap`, a function
                    # of operator, static operand types, run-time operand types; Proofs/C02.lean static_eq_runtime_outside_kf_region)
                    kf = m.get("kf")
                else:
                    kf = "C02.static_vs_runtime." + c.model_line.split()[0] + "." + c.model_line.split()[1]
                entry = next((f for f in self.findings if f["id"] == kf and f.get("status", "known") == "known"), None) if kf else None
                if entry:
                    self.known_hits.setdefault(kf, {"what": entry["what"], "example": c.meta["expr"] + " with operands " + " ".join(c.model_line.split()[2:]), "impl": ev})
                else:
                    return self.record_violation("`%s` (static operand types %s): compile-time type %s but the value has type %s%s" % (
                        c.meta["expr"], c.meta["st"], static, rt,
                        " — outside the region of the recorded finding C02.static_vs_runtime.%s.*" % ("op" if fam == "binop" else "bity")
                        if fam in ("binop", "builtin1", "builtin2") else ""), c, ev, m)
        # tie to the model: static type and (for operators) value
        if mout and mout.startswith("accept="):
            # bity: model gives acceptance + static type
            ma = re.match(r"accept=(\S+) ty=(\S+)", mout)
            if ma:
                if ma.group(1) != "ok":
                    return self.record_violation("`%s` compiles, the model predicts %s" % (c.meta["expr"], ma.group(1)), c, ev, m)
                if ma.group(2) != "custom" and ma.group(2).split("#")[0] != static.split("{")[0].split("#")[0]:
                    return self.record_violation("`%s`: compile-time type %s, the model (generated table) says %s" % (c.meta["expr"], static, ma.group(2)), c, ev, m)
            return
        if mout is None or mout == "unmodelled" or c.meta.get("nomodelval"):
            return
        if mout.startswith("perr"):
            return self.record_violation("`%s` compiles, the model rejects it (%s)" % (c.meta["expr"], mout), c, ev, m)
        mty = m.get("note")
        # C02R3: Expression::type() taken in parsing mode against the model's static rule (Typing.typeBin / typeUn; equal to the
        # table regenerated from the operator's source by Proofs/C02G)
        if mty and fam in ("binop", "unop") and mty.split("{")[0].split("#")[0] != static.split("{")[0].split("#")[0]:
            return self.record_violation("`%s` (static operand types %s): Expression::type() is %s, the model's static rule says %s" % (
                c.meta["expr"], c.meta["st"], static, mty), c, ev, m)
        got = rest.split(" rt=")[0]
        if not outcomes_agree(got, mout):
            return self.record_violation("`%s` evaluates to %s, the model gives %s" % (c.meta["expr"], got, mout), c, got, m)

    def judge_fe_family(self, fam, c, iraw, m, stderr):
        if fam == "fe-store":
            # run-time constraint check: library outcome of the second store vs Safety.storeCheck
            fe.fe_init(self)["by_family"][fam] = fe.fe_init(self)["by_family"].get(fam, 0) + 1
            outcome, out, dump = self.split_impl(c, iraw)
            self.tally(c, outcome or iraw[:20], m)
            self.distinct.add((fam, c.meta["safety"]))
            mout = m.get("model") or ""
            a, b = c.meta["safety"]
            if mout.startswith("rerr"):
                if not (outcome or "").startswith(mout.split()[0] + " " + mout.split()[1]):
                    return self.record_violation("`$q` (%s) receives a %s from a function declared %s: the model's storeVariable refuses (%s), "
                                                 "the library answers %s" % (a, b, a, mout, outcome), c, outcome, m)
                if fe.same_kind(a, b):
                    return self.record_violation("a store of the same kind is refused", c, outcome, m)
                return
            if not mout.startswith("ok "):
                return self.record_violation("unparsable model answer", c, outcome, m)
            if outcome != "ok-":
                return self.record_violation("`$q` (%s) receives a %s: the model's storeVariable accepts, the library answers %s" % (a, b, outcome), c, outcome, m)
            got = dump["syms"].get("$Q") if dump else None
            if got is None or got[0].split("{")[0].split("#")[0] != mout.split()[1].split("#")[0]:
                return self.record_violation("after the store `$q` has type %s, the model says %s" % (got and got[0], mout.split()[1]), c, outcome, m)
            if not fe.same_kind(a, b):
                return self.record_violation("`$q` of type %s accepted a value of type %s at run time" % (a, b), c, outcome, m)
            return
        if fam == "fe-dead-step":
            st = fe.fe_init(self)
            st["by_family"][fam] = st["by_family"].get(fam, 0) + 1
            before = len(self.violations)
            ProgCheck.judge(self, c, iraw, m, stderr)
            if len(self.violations) > before:
                return
            outcome, out, dump = self.split_impl(c, iraw)
            batch = getattr(self, "_dead_batch", {}).get(c.meta["src"])
            d = st.setdefault("dead_branch", {"batch_ok_step_ok": 0, "batch_ok_step_rejected": 0, "other": 0})
            if batch == "ok-" and outcome == "ok-":
                d["batch_ok_step_ok"] += 1
            elif batch == "ok-" and (outcome or "").startswith("perr"):
                d["batch_ok_step_rejected"] += 1
                kf = "C02.stepwise_dead_branch_typed_from_value"
                self.known_hits.setdefault(kf, {"what": LOCAL_FINDINGS[kf], "example": c.meta["src"].replace("\n", " "), "impl": "as one unit ok-, statement by statement " + outcome})
            else:
                d["other"] += 1
            return
        if fam == "fe-hand-step":
            # statement-at-a-time: the interactive parser reads and runs statement by statement, so a later syntax error does
            # not prevent the earlier statements from running; the model front end parses the whole text first
            st = fe.fe_init(self)
            st["by_family"][fam] = st["by_family"].get(fam, 0) + 1
            mout = m.get("model") or ""
            head = mout.split(" out=")[0]
            d = st.setdefault("hand_step", {})
            if head == "unsupported" or (fe.perr_code(head) is not None and head.split()[1] not in ("11", "2", "33", "15", "16")):
                d["not-compared (unsupported or whole-text syntax error)"] = d.get("not-compared (unsupported or whole-text syntax error)", 0) + 1
                return
            d["compared"] = d.get("compared", 0) + 1
            return ProgCheck.judge(self, c, iraw, m, stderr)
        before = len(self.violations)
        fe.judge_fe(self, lambda c2, i2, m2, s2: ProgCheck.judge(self, c2, i2, m2, s2), c, iraw, m, stderr)
        if fam == "fe-hand":
            st = fe.fe_init(self)
            mout = m.get("model") or ""
            st.setdefault("hand_outcomes", {})[c.meta["tag"]] = (mout.split(" out=")[0] + (" (" + m.get("note", "") + ")" if mout.startswith("unsupported") else ""))[:60]
            return
        if fam == "fe-dead":
            if not hasattr(self, "_dead_batch"):
                self._dead_batch = {}
            self._dead_batch[c.meta["src"]] = self.split_impl(c, iraw)[0]
            return
        if len(self.violations) > before or fam not in ("fe-safety", "fe-iter", "fe-forall", "fe-iter-dead"):
            return
        # the property, on the library's own answer: while the constraint is active the kind cannot change
        outcome, out, dump = self.split_impl(c, iraw)
        a, b = c.meta["safety"]
        self.distinct.add((fam, a, b))
        accepted = outcome == "ok-"
        if fam == "fe-iter-dead":
            # outside the loop (and in dead code inside it, same kind only) the constraint is off again
            return
        if accepted and fe.same_kind(a, b) and int(a[1:]) > 0 and a[0] != b[0]:
            # recorded finding (notes/NOTES-C02FE.md; to be merged into known_findings.json): check_safety lets a protected
            # table become a table of another major
            kf = "C02.safety_table_major_changes"
            self.known_hits.setdefault(kf, {"what": LOCAL_FINDINGS[kf], "example": c.meta["src"].replace("\n", " "), "impl": outcome})
            return
        if accepted and not fe.same_kind(a, b):
            return self.record_violation("%s: a constrained symbol of type %s accepted a value of type %s" % (fam, a, b), c, outcome, m)
        if not accepted and a == b and not (fam == "fe-forall"):
            return self.record_violation("%s: a constrained symbol of type %s refused a value of the same type (%s)" % (fam, a, outcome), c, outcome, m)

    def extra_dump_checks(self, c, dump, m, outcome):
        """+ C02R3 (Proofs/C02.lean safety_after_unit): once a run has returned to the host no loop is running, so every symbol
        carries exactly the constraint its name gives it — safety bit set iff `$`-qualified, never locked"""
        r = ProgCheck.extra_dump_checks(self, c, dump, m, outcome)
        for name, (ty, flags, val) in dump["syms"].items():
            want = "s%dl0" % (1 if name.startswith("$") else 0)
            if flags != want:
                return self.record_violation("after the run the symbol %s carries flags %s; between units every symbol carries %s "
                                             "(safety_after_unit)" % (name, flags, want), c, outcome, m)
        return r

    def write_evidence(self, extra=None):
        ex = dict(extra or {})
        if hasattr(self, "fe"):
            ex.update(fe.fe_coverage(self))
        return ProgCheck.write_evidence(self, extra=ex)

    def crash_kf(self, c, iraw, stderr):
        """a crash is C01's concern: tolerated here only where C01 lists it as a known finding (same construct, same crash class)"""
        from ..core import load_findings
        from .c01 import crash_class
        ml = (c.model_line or "").split()
        if len(ml) < 2:
            return None
        fam = {"bity": "bi", "bityk": "bi", "op": "op", "opk": "op", "un": "un"}.get(ml[0])
        kf = "C01.%s.%s.%s" % (fam, ml[1], crash_class(iraw))
        return kf if any(f["id"] == kf and f.get("status", "known") == "known" for f in load_findings()) else None
