"""C04 — null obeys three-valued logic regardless of how the null was produced."""
import re

from ..core import Case, Check, outcomes_agree
from ..run import hx

LOGIC = [("BAND", "and"), ("BIOR", "or"), ("BXOR", "xor"), ("BAND", "&&"), ("BIOR", "||")]
REL = [("EQ", "=="), ("NE", "!="), ("LT", "<"), ("LE", "<="), ("GT", ">"), ("GE", ">="), ("NE", "<>")]

# operand classes: name -> canonical value
BOOLS = {"T": "B:1", "F": "B:0", "Nu": "N:?0", "Nb": "N:b0"}
OTHERS = {"I5": "I:5", "I0": "I:0", "D": "D:4004000000000000", "S": "S:6162", "Se": "S:", "R": "R:00ff",
          "Ni": "N:i0", "Nd": "N:d0", "Ns": "N:s0", "Nr": "N:r0", "Tb": "Tb1[B:1]", "Nt": "N:b1"}

PRELUDE = ("function ft() return boolean is begin return true; end;\n"
           "function ff() return boolean is begin return false; end;\n"
           "function fnu() return boolean is begin return null; end;\n"
           "function fnb() return boolean is begin return bool(); end;\n"
           "function fi5() return integer is begin return 5; end;\n"
           "function fni() return integer is begin return int(); end;\n")


def renderings(cls, slot):
    """(provenance, source expression, setup ops, runtime value) for one operand of class `cls`; `slot` = 'x' | 'y'."""
    V = slot.upper()
    val = BOOLS.get(cls) or OTHERS[cls]
    def sty(v):
        # static type text of a canonical value
        if v.startswith("N:"):
            return v[2:]
        if v.startswith("T"):
            return v[1:v.index("[")]
        return {"B": "b0", "I": "i0", "D": "d0", "S": "s0", "R": "r0"}[v[0]]
    st = sty(val)
    out = [("var", slot, ["set 0 %s %s" % (hx(V), val)], val, st)]
    const = {"T": "true", "F": "false", "Nu": "null", "Nb": "bool()", "I5": "5", "I0": "0", "D": "2.5", "S": '"ab"',
             "Se": '""', "Ni": "int()", "Nd": "num()", "Ns": "str()", "Nr": "raw()"}
    if cls in const:
        out.append(("const", const[cls], [], val, st))
    ctor = {"T": "bool(1)", "F": "bool(0)", "I5": "int(5.0)", "S": 'str("ab")'}
    if cls in ctor:
        out.append(("ctor", ctor[cls], [], val, st))
    fn = {"T": "ft()", "F": "ff()", "Nu": "fnu()", "Nb": "fnb()", "I5": "fi5()", "Ni": "fni()"}
    if cls in fn:
        out.append(("func", fn[cls], [], val, "b0" if cls in BOOLS else "i0"))
    if cls in ("T", "F", "Nb", "I5", "Ni", "S", "Ns"):
        letter = {"T": "b", "F": "b", "Nb": "b", "I5": "i", "Ni": "i", "S": "s", "Ns": "s"}[cls]
        out.append(("elem", "t%s.at(0)" % slot, ["set 0 %s T%s1[%s]" % (hx("T" + V), letter, val)], val, letter + "0"))
        out.append(("item", "u%s@1" % slot, ["set 0 %s Uu0{%s0,i0}(%s,I:1)" % (hx("U" + V), letter, val)], val, letter + "0"))
    return out


def parse_dump(d):
    m = re.match(r"dump=(.*?) cd=(\d+) ed=(\d+) tmp=(\d+) bk=(\d+) cond=(\d+) fn=(.*)$", d)
    if not m:
        return None
    syms = {}
    if m.group(1):
        for ent in m.group(1).split(";"):
            name, ty, rest = ent.split(":", 2)
            flags, val = rest.split("=", 1)
            syms[bytes.fromhex(name).decode("latin-1")] = (ty, flags, val)
    return {"syms": syms, "cd": int(m.group(2)), "ed": int(m.group(3)), "tmp": int(m.group(4)), "cond": int(m.group(6))}


class C04(Check):
    pid = "C04"
    proof_modules = ["BlocV.Proofs.C04"]
    rule = ("complete enumeration of {true,false,untyped null,boolean null} x provenance {variable, constant, typed "
            "constructor, function result, table element, tuple item} for both operands x {and,or,xor,&&,||,not,!}; "
            "relational operators over every pair of operand classes in which at least one is null (plus non-null "
            "controls). Each expression E is evaluated five times in one program (r0=E; r1=E; twice in a loop; as an "
            "if and a while condition) and the variables are deep-dumped through the BLOC_VERIF accessors: every "
            "evaluation must yield the Lean model's value, the if/while branch must follow K.cond, the operands and a "
            "later `null`/`true`/`false` literal must be unchanged. Plus (flocal): the null is an unassigned typed local of a function, the expression "
            "evaluated 5x inside the function, the function called three times. Plus (litnull): the constants null, \"\", raw(), str(), bool(), int() as "
            "receiver of every member method / argument of value-returning built-ins (and in-place members applied to those results), the same node "
            "evaluated three times in a loop: equal results, `null` still null. distinct = (operator, operand classes, provenances) | expression.")
    assumptions = ["static (parse-time) acceptance is modelled by Model/Typing.lean; a parse-time rejection must be predicted by it"]

    def gen_cases(self):
        cases = []
        n = 0

        def add(opname, optext, c1, r1, c2, r2, unary=False):
            nonlocal n
            n += 1
            prov1, e1, s1, v1, t1 = r1
            if unary:
                E = "%s %s" % (optext, e1) if optext == "not" else "%s%s" % (optext, e1)
                model = "un %s %s %s" % (opname, v1, t1)
                setup = s1
                meta = {"E": E, "prov": [prov1]}
            else:
                prov2, e2, s2, v2, t2 = r2
                E = "%s %s %s" % (e1, optext, e2)
                model = "op %s %s %s %s %s" % (opname, v1, v2, t1, t2)
                setup = s1 + s2
                meta = {"E": E, "prov": [prov1, prov2]}
            src = (PRELUDE + "r0 = %s;\nr1 = %s;\nfor i in 1 to 2 loop r2 = %s; end loop;\n"
                   "if %s then c = 1; else c = 2; end if;\nw = 2; while %s loop w = 1; break; end loop;\n"
                   "zn = null; zt = true; zf = false;\n" % (E, E, E, E, E))
            impl = "|".join(["new 0"] + setup + ["prog 0 " + hx(src), "dump 0"])
            cases.append(Case("c%d" % n, model, impl, meta))

        for opname, optext in LOGIC:
            for c1 in BOOLS:
                for r1 in renderings(c1, "x"):
                    for c2 in BOOLS:
                        for r2 in renderings(c2, "y"):
                            add(opname, optext, c1, r1, c2, r2)
        for optext in ("not", "!"):
            for c1 in BOOLS:
                for r1 in renderings(c1, "x"):
                    add("BNOT", optext, c1, r1, None, None, unary=True)
        # the same expression node evaluated in a loop while the OTHER operand changes (true, false, null):
        # a literal/typed null, true or false on one side must mean the same in every iteration
        seqvals = ["B:1", "B:0", "N:b0", "B:0", "B:1"]
        for opname, optext in LOGIC:
            for c1 in BOOLS:
                for r1 in renderings(c1, "x"):
                    for side in ("l", "r"):
                        n += 1
                        prov1, e1, s1, v1, t1 = r1
                        E = "%s %s ys.at(i)" % (e1, optext) if side == "l" else "ys.at(i) %s %s" % (optext, e1)
                        # E is used directly as a condition / argument (an assignment `v = E` would swap the old
                        # value of v into the operand cell and mask an overwritten constant)
                        src = (PRELUDE + 's = ""; u = ""; q = "";\n'
                               'for i in 0 to 4 loop if %s then s = s + "T"; else s = s + "-"; end if; end loop;\n'
                               'for i in 0 to 4 loop if isnull(%s) then u = u + "N"; else u = u + "-"; end if; end loop;\n'
                               'for i in 0 to 4 loop v = %s; if isnull(v) then q = q + "N"; elsif v then q = q + "T"; else q = q + "F"; end if; end loop;\n'
                               'zn = null; zt = true; zf = false;\n' % (E, E, E))
                        impl = "|".join(["new 0"] + s1 + ["set 0 %s Tb1[%s]" % (hx("YS"), ",".join(seqvals)), "prog 0 " + hx(src), "dump 0"])
                        cases.append(Case("c%d" % n, "opseq %s %s %s %s" % (side, opname, v1, ",".join(seqvals)), impl,
                                          {"E": E, "prov": [prov1, "loop-" + side], "seq": True}))
        allc = dict(BOOLS)
        allc.update(OTHERS)
        nulls = [k for k, v in allc.items() if v.startswith("N:")]
        for opname, optext in REL:
            for c1 in allc:
                for c2 in allc:
                    if c1 not in nulls and c2 not in nulls and not (c1 in ("T", "I5", "S") and c2 in ("T", "F", "I5", "I0", "S", "D")):
                        continue
                    for r1 in renderings(c1, "x"):
                        for r2 in renderings(c2, "y"):
                            if self.tier == "quick" and r1[0] not in ("var", "const") and r2[0] not in ("var", "const"):
                                continue
                            add(opname, optext, c1, r1, c2, r2)
        # provenance "unassigned local of a function": a typed null that is a local variable of a user function which is only
        # assigned on a path not taken (`if false then lx = true; end if;`), the expression evaluated five times INSIDE the function,
        # and the function called twice (the second call may run in a recycled call context). Each evaluation must give the model's value.
        for opname, optext in LOGIC:
            for c2 in BOOLS:
                for r2 in renderings(c2, "y"):
                    if r2[0] not in ("var", "const"):
                        continue
                    for side in ("l", "r"):
                        n += 1
                        prov2, e2, s2, v2, t2 = r2
                        if prov2 == "var":
                            e2x, pre = "py", "py"      # passed as a parameter (the callee cannot see the caller's variables)
                        else:
                            e2x, pre = e2, None
                        E = "lx %s %s" % (optext, e2x) if side == "l" else "%s %s lx" % (e2x, optext)
                        model = ("op %s N:b0 %s b0 %s" % (opname, v2, t2)) if side == "l" else ("op %s %s N:b0 %s b0" % (opname, v2, t2))
                        enc = lambda ex: 'v = %s; if isnull(v) then q = q + "N"; elsif v then q = q + "T"; else q = q + "F"; end if;' % ex
                        body = ('q = ""; if false then lx = true; end if;\n' + enc(E) + "\n" + enc(E) + "\n"
                                "for i in 1 to 2 loop " + enc(E) + " end loop;\n"
                                'if %s then q = q + "T"; else q = q + "-"; end if;\n' % E +
                                'if isnull(lx) then q = q + "n"; else q = q + "!"; end if;\nreturn q;')
                        src = ("function h(%s) return string is begin\n%s\nend;\n" % ("py" if pre else "", body) +
                               "h1 = h(%s); h2 = h(%s); h3 = h(%s);\nzn = null; zt = true; zf = false;\n" % ((("y",) * 3) if pre else ("", "", "")))
                        impl = "|".join(["new 0"] + s2 + ["prog 0 " + hx(src), "dump 0"])
                        cases.append(Case("c%d" % n, model, impl, {"E": E, "prov": ["flocal-" + side, prov2], "flocal": True}))
        # the literal `null` (and the other constants) as RECEIVER or ARGUMENT of members and value-returning built-ins, the same
        # node evaluated three times in a loop: every evaluation must give the same value and `null` must still be null afterwards
        # (property: "evaluating an expression never changes what the literal null means later"). No model is involved: the three
        # results are compared with each other (witness of the repaired defect a40085e: null.concat("abc") gave abc, abcabc, abcabc).
        args = ['"abc"', "65", "0", "2.5", "true", 'raw("ab")', "tab(1, 7)", 'tab(1, "s")', 'tup(1, "a")', "null", "x", "xs", "xt"]
        lit = []
        for cst in ("null", '""', "raw()", "str()", "bool()", "int()"):
            for a in args:
                lit.append("%s.concat(%s)" % (cst, a))
                lit.append("%s.insert(0, %s)" % (cst, a))
                lit.append("%s.put(0, %s)" % (cst, a))
            lit += ["%s.delete(0)" % cst, "%s.at(0)" % cst, "%s.count()" % cst]
            for f in ("upper", "lower", "trim", "str", "raw", "substr", "abs", "int", "num", "bool", "isnull", "typeof"):
                inner = "%s(%s%s)" % (f, cst, ", 0" if f == "substr" else "")
                lit += [inner, inner + '.concat("x")', inner + ".concat(65)"]
        nlit = 0
        for E in lit:
            for form in ("v = %s;", "v = idf(%s);"):
                n += 1
                nlit += 1
                src = (PRELUDE + "function idf(p) return undefined is begin return p; end;\n"
                       "for i in 1 to 3 loop " + (form % E) + " if i == 1 then a1 = v; elsif i == 2 then a2 = v; else a3 = v; end if; end loop;\n"
                       "zn = null; zt = true; zf = false;\n")
                impl = "|".join(["new 0", "set 0 %s I:5" % hx("X"), "set 0 %s S:7171" % hx("XS"), "set 0 %s Ti1[I:1]" % hx("XT"), "prog 0 " + hx(src), "dump 0"])
                cases.append(Case("c%d" % n, "", impl, {"E": form % E, "prov": ["litnull"], "litnull": True}))
        self.stats["litnull_cases"] = nlit
        self.stats["exhaustive"] = True
        self.stats["cases"] = n
        return cases

    def judge(self, c, iraw, m, stderr):
        self.tally(c, iraw.split("|")[-2] if "|" in iraw else iraw, m)
        mout = m.get("model")
        if mout is None and not c.meta.get("litnull"):
            return self.record_violation("model gave no answer", c, iraw, m)
        if iraw.startswith("crash") or iraw.endswith("diverges"):
            return self.record_violation("crash/divergence evaluating a logical or relational expression", c, iraw, m, stderr)
        if c.meta.get("litnull"):
            parts = iraw.split("|")
            prog, dump = parts[-2], parts[-1]
            self.distinct.add(c.meta["E"])
            d = parse_dump(dump)
            if d is None:
                return self.record_violation("unparsable dump", c, dump, m)
            strip = lambda x: x.replace("/l", "").replace("/t", "")
            if prog == "ok-":
                got = [strip(d["syms"].get(r, ("", "", "?"))[2]) for r in ("A1", "A2", "A3")]
                if not (got[0] == got[1] == got[2]):
                    return self.record_violation("`%s` evaluated three times in a loop gives %s: the same expression in the same state must give "
                                                 "equal results (a constant of the program text was changed)" % (c.meta["E"], " / ".join(got)), c, " / ".join(got), m)
            for r, v in (("ZN", "N:?0"), ("ZT", "B:1"), ("ZF", "B:0")):
                g = strip(d["syms"].get(r, ("", "", v))[2]) if prog == "ok-" else v
                if g != v:
                    return self.record_violation("literal constant changed meaning after `%s`: %s = %s" % (c.meta["E"], r, g), c, g, m)
            return
        parts = iraw.split("|")
        prog, dump = parts[-2], parts[-1]
        self.distinct.add((c.model_line, tuple(c.meta["prov"])))
        if len(self.samples) < 10 and self.rng.random() < 0.005:
            self.samples.append({"E": c.meta["E"], "model": mout, "impl_prog": prog, "dump": dump[:200]})
        if c.meta.get("flocal"):
            if mout.startswith(("perr", "rerr")) or mout == "unmodelled":
                if mout != "unmodelled" and not outcomes_agree(prog, mout):
                    self.record_violation("implementation differs from the model (error outcome, operand = unassigned function local)", c, prog, m)
                return
            if prog != "ok-":
                return self.record_violation("program failed but the model evaluates the expression (operand = unassigned function local)", c, prog, m)
            d = parse_dump(dump)
            ch = {"ok B:1": "T", "ok B:0": "F"}.get(mout, "N" if mout.startswith("ok N:") else "?")
            want = ch * 4 + ("T" if ch == "T" else "-") + "n"
            for var in ("H1", "H2", "H3"):
                got = d["syms"].get(var, ("", "", "?"))[2].replace("/l", "").replace("/t", "")
                if got != "S:" + want.encode().hex():
                    return self.record_violation("`%s` with lx an unassigned (typed null) local, evaluated 4x + as a condition inside a function: call %s gives %s, "
                                                 "the model gives %s (last letter: n = the local is still null)"
                                                 % (c.meta["E"], var, bytes.fromhex(got[2:]).decode() if got.startswith("S:") else got, want), c, got, m)
            return
        if c.meta.get("seq"):
            if prog != "ok-":
                return self.record_violation("loop program failed", c, prog, m)
            d = parse_dump(dump)
            full = "".join({"ok B:1": "T", "ok B:0": "F"}.get(x, "N" if x.startswith("ok N:") else "?") for x in mout.split(";"))
            for var, want in (("S", "".join(ch if ch == "T" else "-" for ch in full)),
                              ("U", "".join(ch if ch == "N" else "-" for ch in full)), ("Q", full)):
                got = d["syms"].get(var, ("", "", "?"))[2].replace("/l", "").replace("/t", "")
                if got != "S:" + want.encode().hex():
                    return self.record_violation("`%s` evaluated in a loop over (true,false,null,false,true) gives %s, the model gives %s"
                                                 % (c.meta["E"], bytes.fromhex(got[2:]).decode() if got.startswith("S:") else got, want), c, got, m)
            for r, v in (("ZN", "N:?0"), ("ZT", "B:1"), ("ZF", "B:0")):
                g = d["syms"].get(r, ("", "", "?"))[2].replace("/l", "").replace("/t", "")
                if g != v:
                    return self.record_violation("literal constant changed meaning after the loop: %s = %s" % (r, g), c, g, m)
            return
        if mout.startswith(("perr", "rerr")):
            if not outcomes_agree(prog, mout):
                self.record_violation("implementation differs from the model (error outcome)", c, prog, m)
            return
        if mout == "unmodelled":
            return
        if prog != "ok-":
            return self.record_violation("program failed but the model evaluates the expression", c, prog, m)
        d = parse_dump(dump)
        if d is None:
            return self.record_violation("unparsable dump", c, dump, m)
        want = mout[3:]
        for r in ("R0", "R1", "R2"):
            got = d["syms"].get(r, ("", "", "?"))[2].replace("/l", "").replace("/t", "")
            if got != want:
                return self.record_violation("evaluation %s of `%s` gives %s, the model (and Kleene's table) give %s" % (r, c.meta["E"], got, want), c, got, m)
        taken = "I:1" if want == "B:1" else "I:2"
        for r in ("C", "W"):
            got = d["syms"].get(r, ("", "", "?"))[2].replace("/l", "").replace("/t", "")
            if got != taken:
                return self.record_violation("condition `%s` (= %s): %s took the wrong branch" % (c.meta["E"], want, "if" if r == "C" else "while"), c, got, m)
        for r, v in (("ZN", "N:?0"), ("ZT", "B:1"), ("ZF", "B:0")):
            got = d["syms"].get(r, ("", "", "?"))[2].replace("/l", "").replace("/t", "")
            if got != v:
                return self.record_violation("literal constant changed meaning after evaluating `%s`: %s = %s" % (c.meta["E"], r, got), c, got, m)
        # operands unchanged
        for slot, pos in (("X", 2), ("Y", 3)):
            vals = c.model_line.split(" ")
            if len(vals) > pos and slot in d["syms"]:
                if d["syms"][slot][2].replace("/l", "").replace("/t", "") != vals[pos]:
                    return self.record_violation("operand variable %s changed by evaluating `%s`" % (slot, c.meta["E"]), c, d["syms"][slot][2], m)
        if d["cd"] != 0 or d["tmp"] != 0:
            return self.record_violation("control depth / temporaries not released", c, dump[-60:], m)
