"""C05 — evaluating an expression changes nothing but its target (value semantics)."""
import itertools
import re

from .. import progen
from ..core import Case, Check, outcomes_agree
from ..progen import I, L, S
from ..progcheck import ProgCheck, strip_flags
from ..run import hx
from .c03 import OPS, CMP
from .c04 import LOGIC, parse_dump

VALS = {"i": ["I:5", "I:0", "I:-3", "N:i0"], "d": ["D:4004000000000000", "D:0000000000000000", "N:d0"], "b": ["B:1", "B:0", "N:b0"],
        "s": ["S:6162", "S:", "N:s0"], "n": ["N:?0"], "c": ["C:3ff0000000000000,4000000000000000"]}
IDF = "function idf(v) return undefined is begin return v; end;\n"
UNOPS = [("NEG", "-"), ("POS", "+"), ("NOT", "~"), ("BNOT", "not ")]
BUILTINS1 = ["strlen", "upper", "lower", "trim", "str", "int", "b64enc", "hash", "hex", "chr", "raw", "isnum"]


# ---------------------------------------------------------------- built-ins of two and more arguments (family builtin_arg_sources)
# name -> signatures (one letter per argument: d decimal, i integer, s string, b boolean, r bytes). Names and arities are checked
# against lean/BlocV/Gen/Sigs.lean (generated from the parse() methods) in `multi_arg_builtins`; max / min / mod / pow have hand-written
# parse() methods and are listed here; `input` / `read` store into their first argument by design (output parameter) and need a
# terminal / a file; `tab` / `tup` are constructors (families construct, arg_forms).
BI_SIGS = {
    "atan2": ["dd"], "max": ["dd", "ii"], "min": ["dd", "ii"], "mod": ["dd", "ii"], "pow": ["dd", "ii"], "clamp": ["ddd", "iii"],
    "round": ["di"], "hex": ["ii"], "hash": ["si"], "raw": ["ii"], "substr": ["si", "sii"], "lsubstr": ["si"], "rsubstr": ["si"],
    "subraw": ["ri", "rii"], "strpos": ["ss", "ssi"], "replace": ["sss"], "tokenize": ["ss", "ssb"],
}
BI_NOT_IN_SIGS = ("max", "min")          # variadic-looking custom parse(): not in the generated table
BI_VALUES = {"d": ["D:4004000000000000", "D:3ff8000000000000", "D:4000000000000000"], "i": ["I:7", "I:2", "I:3"],
             "s": ["S:" + b"hay,stack".hex(), "S:" + b",".hex(), "S:" + b";".hex()], "b": ["B:1", "B:1", "B:1"]}
BI_SOURCES = ("var", "elem", "item", "cst", "op", "idf")
BI_STORED = ("var", "elem", "item", "cst")


def multi_arg_builtins():
    """(name, max arity) of every built-in with two or more argument slots in the generated signature table"""
    import os
    txt = open(os.path.join(os.path.dirname(__file__), "..", "..", "lean", "BlocV", "Gen", "Sigs.lean")).read()
    out = {}
    for m in re.finditer(r'^  \("(\w+)", \[(.*)\]\),?$', txt, re.M):
        k = m.group(2).count("optional :=")
        if k >= 2:
            out[m.group(1)] = k
    return out


# ---------------------------------------------------------------- storage-level family (Model/StoreX.lean via DrvC05.lean)
INPLACE = ("concat", "put", "insert", "delete")
C05_FINDINGS = [
    # found with the storage model, repaired upstream meanwhile (876bec0 / a40085e) and listed as `fixed` in known_findings.json
    # (C05.inplace_member_on_handed_through_operand, C04.null_concat_overwrites_literal): the families below are their regression oracle.
    {"property": "C05", "id": "C05.dangling_element_reference", "status": "known",
     "site": "blocc/member/member_put.cpp:42 (and every member / operator that holds `Value& val` of an element while evaluating a later operand)",
     "witness": "t = tab(2, tab(2, 7)); print t.at(0).put(0, t.concat(t).concat(t).count()).count();  -> AddressSanitizer heap-use-after-free",
     "what": "a reference into a table (t.at(i), u@n) held while a later operand changes the same variable in place dangles: use after free",
     "why_recorded": "memory-unsafe (C01 class); the model reports hazard oob for every held element reference whose root is written in place (checkHeld); theorem C05.dangling_witness"},
]


def xsrc(e):
    k = e[0]
    if k == "item":
        return "%s@%d" % (xsrc(e[1]), e[2])
    if k == "setitem":
        return "%s.set@%d(%s)" % (xsrc(e[1]), e[2], xsrc(e[3]))
    if k == "lit":
        return progen.lit_src(e[1])
    if k == "var":
        return e[1].lower()
    if k == "un":
        return "(%s%s)" % (progen.UNSRC[e[1]], xsrc(e[2]))
    if k == "bin":
        return "(%s %s %s)" % (xsrc(e[2]), progen.BINSRC[e[1]], xsrc(e[3]))
    if k in ("call", "fcall"):
        return "%s(%s)" % (e[1].lower(), ", ".join(xsrc(a) for a in e[2]))
    if k == "member":
        return "%s.%s(%s)" % (xsrc(e[2]), e[1], ", ".join(xsrc(a) for a in e[3]))
    raise ValueError(e)


def xsexp(e):
    k = e[0]
    if k == "item":
        return "(item %s %d)" % (xsexp(e[1]), e[2])
    if k == "setitem":
        return "(setitem %s %d %s)" % (xsexp(e[1]), e[2], xsexp(e[3]))
    if k in ("lit", "var"):
        return "(%s %s)" % (k, e[1])
    if k == "un":
        return "(un %s %s)" % (e[1], xsexp(e[2]))
    if k == "bin":
        return "(bin %s %s %s)" % (e[1], xsexp(e[2]), xsexp(e[3]))
    if k in ("call", "fcall"):
        return "(%s %s %s)" % (k, e[1], " ".join(xsexp(a) for a in e[2]))
    if k == "member":
        return "(member %s %s %s)" % (e[1], xsexp(e[2]), " ".join(xsexp(a) for a in e[3]))
    raise ValueError(e)


def xstmt_src(s):
    return {"let": lambda: "%s = %s;" % (s[1].lower(), xsrc(s[2])), "do": lambda: "do %s;" % xsrc(s[1]),
            "return": lambda: "return %s;" % xsrc(s[1])}[s[0]]()


def xstmt_sexp(s):
    return {"let": lambda: "(let %s %s)" % (s[1], xsexp(s[2])), "do": lambda: "(do %s)" % xsexp(s[1]),
            "return": lambda: "(return %s)" % xsexp(s[1])}[s[0]]()


def chain_root(e):
    """The variable a receiver expression denotes per the manual's reading: the variable itself, an element / item of it,
    or the result of an in-place member on it. None: a temporary or a non-variable expression."""
    k = e[0]
    if k == "var":
        return e[1]
    if k == "item" or k == "setitem":
        return chain_root(e[1])
    if k == "member" and e[1] in INPLACE + ("at",):
        return chain_root(e[2])
    return None


def temp_root(e):
    """receiver forms that denote a temporary (function / constructor result and what is reached from it)"""
    k = e[0]
    if k in ("fcall", "call"):
        return True
    if k in ("item", "setitem"):
        return temp_root(e[1])
    if k == "member" and e[1] in INPLACE + ("at",):
        return temp_root(e[2])
    return False


def spec_effects(e, acc):
    """variables an expression may change per the property text (receivers of in-place members); acc['odd'] is set when an
    in-place member has a receiver that is neither a variable chain nor a temporary chain (pass-through / constant forms)"""
    k = e[0]
    subs = []
    if k == "member":
        if e[1] in INPLACE:
            r = chain_root(e[2])
            if r is not None:
                acc["vars"].add(r)
            elif not temp_root(e[2]):
                acc["odd"] = True
        subs = [e[2]] + list(e[3])
    elif k == "setitem":
        r = chain_root(e[1])
        if r is not None:
            acc["vars"].add(r)
        elif not temp_root(e[1]):
            acc["odd"] = True
        subs = [e[1], e[3]]
    elif k == "item":
        subs = [e[1]]
    elif k == "un":
        subs = [e[2]]
    elif k == "bin":
        subs = [e[2], e[3]]
    elif k in ("call", "fcall"):
        subs = list(e[2])
    for x in subs:
        spec_effects(x, acc)
    return acc


class C05(ProgCheck):
    pid = "C05"
    proof_modules = ["BlocV.Proofs.C05"]
    rule = ("(a) node level: every unary/binary operator and a set of built-ins x operand classes (integer, decimal, boolean, "
            "string, typed and untyped nulls) x operand source (variable / literal constant): the expression node is "
            "evaluated three times through Expression::value with a deep dump of every variable slot (value, type, LVALUE "
            "flag) before and after each evaluation — all dumps must be identical, every result must equal the Lean model's; "
            "(b) program level: seeded random programs with alias candidates (b = a; f(a); s = s + …; re-evaluation across "
            "loop iterations) compared with the value-semantics interpreter (outcome, output, every variable). "
            "distinct = (expression, operand values/sources) resp. program text.")

    def __init__(self, tier, seed):
        super().__init__(tier, seed)
        self.findings = self.findings + [f for f in C05_FINDINGS if not any(g["id"] == f["id"] for g in self.findings)]
        self.xstats = {"families": {}, "steps_compared": 0, "rejected_by_parser": 0, "hazard_not_manifest": 0, "model_unmodelled": 0,
                       "receiver_forms": {}, "members": {}}

    # ------------------------------------------------------------ storage-level cases
    def xcase(self, cid, funcs, defs, runs, meta):
        """funcs: [(NAME, [PARAM], [stmt])]; defs: [(k, [stmt])] parsed once each, in order; runs: [k] executed in order, a deep dump
        after each (and one before the first)."""
        ops = ["new 0"]
        sx = []
        if funcs:
            fsrc = "".join("function %s(%s) return undefined is begin %s end;\n" % (
                n.lower(), ", ".join(q.lower() for q in ps), " ".join(xstmt_src(st) for st in body)) for n, ps, body in funcs)
            ops.append("prog 0 " + hx(fsrc))
            for n, ps, body in funcs:
                sx.append("(func %s (%s) %s)" % (n, " ".join(ps), " ".join(xstmt_sexp(st) for st in body)))
        srcs = {}
        for k, stmts in defs:
            srcs[k] = " ".join(xstmt_src(st) for st in stmts)
            ops.append("parse 0 %d %s" % (k, hx(srcs[k])))
            sx.append("(def %d %s)" % (k, " ".join(xstmt_sexp(st) for st in stmts)))
        ops.append("dump 0")
        for k in runs:
            ops += ["run %d 0" % k, "dump 0"]
            sx.append("(run %d)" % k)
        m = dict(meta)
        m.update({"x": True, "defs": {k: st for k, st in defs}, "runs": list(runs), "src": [srcs[k] for k in runs], "nfun": 1 if funcs else 0})
        fam = self.xstats["families"]
        fam[m["family"]] = fam.get(m["family"], 0) + 1
        return Case(cid, "c05x 200 " + hx(" ".join(sx)), "|".join(ops), m)

    def gen_xcases(self, n0):
        quick = self.tier == "quick"
        cases = []
        n = n0
        V = lambda x: ("var", x)
        NUL = L("N:?0")
        M = lambda name, r, *a: ("member", name, r, list(a))
        IDF = ("IDF", ["V"], [("return", V("V"))])
        MUT = ("MUT", ["P"], [("do", M("put", V("P"), I(0), I(99))), ("return", V("P"))])       # changes its parameter in place
        MUS = ("MUS", ["P"], [("do", M("concat", V("P"), S("!"))), ("return", V("P"))])
        KST = ("KST", [], [("return", M("concat", ("bin", "ADD", S("abc"), NUL), S("x")))])       # a constant node inside a function body
        funcs = [IDF, MUT, MUS, KST]
        setup = [("let", "S", S("ab")), ("let", "T", ("call", "tab", [I(3), I(7)])), ("let", "TT", ("call", "tab", [I(2), ("call", "tab", [I(2), I(7)])])),
                 ("let", "U", ("call", "tup", [I(1), S("a")])), ("let", "TS", ("call", "tab", [I(2), S("q")])), ("let", "I1", I(5)),
                 ("let", "TU", ("call", "tab", [I(2), ("call", "tup", [I(1), S("a")])]))]

        def add(family, stmts, runs=3, extra_defs=(), meta=None):
            nonlocal n
            n += 1
            defs = [(0, setup)] + [(1, stmts)] + list(extra_defs)
            mm = {"family": family}
            mm.update(meta or {})
            cases.append(self.xcase("x%d" % n, funcs, defs, [0] + [1] * runs + [k for k, _ in extra_defs], mm))

        # (1) every in-place member x receiver form x receiver type; the statement is run three times
        recv_forms = {
            "var": lambda x: x, "plus_null": lambda x: ("bin", "ADD", x, NUL), "null_plus": lambda x: ("bin", "ADD", NUL, x),
            "idf": lambda x: ("fcall", "IDF", [x]), "mut": lambda x: ("fcall", "MUT", [x]),
        }
        typed = {
            "S": [("concat", [S("x")]), ("concat", [I(65)]), ("put", [I(0), I(66)]), ("insert", [I(1), S("zz")]), ("insert", [I(0), I(67)]), ("delete", [I(0)])],
            "T": [("concat", [I(1)]), ("concat", [V("T")]), ("put", [I(1), I(8)]), ("put", [I(1), V("I1")]), ("insert", [I(0), I(9)]), ("insert", [I(3), V("T")]), ("delete", [I(2)]), ("delete", [I(5)])],
            "TS": [("concat", [S("w")]), ("concat", [V("S")]), ("put", [I(0), V("S")]), ("put", [I(1), ("fcall", "IDF", [V("S")])]), ("insert", [I(1), V("S")])],
            "TT": [("concat", [V("T")]), ("concat", [("fcall", "IDF", [V("T")])]), ("put", [I(0), V("T")]), ("put", [I(1), ("call", "tab", [I(1), I(3)])]), ("delete", [I(0)]), ("insert", [I(2), V("T")])],
            "TU": [("concat", [V("U")]), ("put", [I(0), ("call", "tup", [I(4), S("b")])]), ("delete", [I(1)])],
        }
        for tv, calls in typed.items():
            for fname, form in recv_forms.items():
                if fname == "mut" and tv in ("S", "TS", "TU"):
                    continue
                for mname, args in calls:
                    for wrap in ("let", "count"):
                        e = M(mname, form(V(tv)), *args)
                        if wrap == "count":
                            e = M("count", e)
                        add("inplace", [("let", "R", e)], meta={"recv": fname, "member": mname})
                        self.xstats["receiver_forms"][fname] = self.xstats["receiver_forms"].get(fname, 0) + 1
                        self.xstats["members"][mname] = self.xstats["members"].get(mname, 0) + 1
        # elements / items as receivers (write-through into the variable), nested
        for e in [M("put", M("at", V("TT"), I(0)), I(1), I(5)), M("concat", M("at", V("TT"), I(1)), I(6)), M("delete", M("at", V("TT"), I(0)), I(0)),
                  M("put", M("at", ("fcall", "IDF", [V("TT")]), I(0)), I(1), I(5)), M("concat", M("at", V("TS"), I(0)), S("+")),
                  M("concat", M("at", ("fcall", "IDF", [V("TS")]), I(0)), S("+")), ("setitem", V("U"), 1, I(4)), ("setitem", V("U"), 2, S("zz")),
                  ("setitem", ("fcall", "IDF", [V("U")]), 1, I(4)), ("setitem", M("at", V("TU"), I(1)), 2, V("S")), ("setitem", V("U"), 1, L("D:4004000000000000")),
                  ("setitem", V("U"), 3, I(1)), M("concat", ("item", V("U"), 2), S("k")), M("concat", ("item", ("fcall", "IDF", [V("U")]), 2), S("k")),
                  M("concat", ("item", M("at", V("TU"), I(0)), 2), V("S"))]:
            add("element_receiver", [("let", "R", e)])
            add("element_receiver", [("do", e)])
        # constants as receivers
        for e in [M("concat", S("abc"), S("x")), M("put", S("abc"), I(0), I(65)), M("insert", S("abc"), I(0), S("x")), M("delete", S("abc"), I(0)),
                  M("concat", ("bin", "ADD", S("abc"), NUL), S("x")), M("concat", ("bin", "ADD", NUL, S("abc")), S("x")),
                  M("put", ("bin", "ADD", NUL, S("abc")), I(0), I(65)), M("insert", ("bin", "ADD", S("abc"), NUL), I(0), S("x")),
                  M("delete", ("bin", "ADD", S("abc"), NUL), I(0)), M("concat", NUL, S("abc")), M("concat", NUL, I(65)), M("concat", NUL, I(0)),
                  M("concat", NUL, V("S")), M("concat", NUL, V("T")), M("concat", NUL, NUL), ("fcall", "KST", [])]:
            add("constant_receiver", [("let", "R", e)])
        # (2) reads through element references: operators writing into operands, count, at on temporaries
        for e in [("bin", "ADD", M("at", V("T"), I(0)), I(1)), ("bin", "ADD", M("at", ("fcall", "IDF", [V("T")]), I(0)), I(1)),
                  ("bin", "ADD", M("at", V("TS"), I(0)), S("z")), ("bin", "ADD", M("at", ("fcall", "IDF", [V("TS")]), I(0)), S("z")),
                  ("bin", "ADD", ("item", V("U"), 2), S("z")), ("bin", "ADD", ("item", ("fcall", "IDF", [V("U")]), 2), S("z")),
                  ("bin", "MUL", ("item", V("U"), 1), M("at", M("at", V("TT"), I(1)), I(0))), M("at", M("at", V("TT"), I(1)), I(1)), M("at", V("TT"), I(1)),
                  M("at", ("fcall", "IDF", [V("TT")]), I(1)), M("count", V("T")), M("count", ("fcall", "IDF", [V("T")])), M("count", M("at", V("TT"), I(0))),
                  M("count", M("at", ("fcall", "IDF", [V("TT")]), I(0))), M("count", V("S")), M("count", V("U")), M("at", V("S"), I(1)), M("at", V("T"), I(3)),
                  ("item", V("U"), 1), ("item", V("U"), 3), ("item", M("at", V("TU"), I(1)), 2), ("un", "NEG", M("at", V("T"), I(0))),
                  ("un", "NEG", M("at", ("fcall", "IDF", [V("T")]), I(0))), ("bin", "EQ", V("T"), V("T")), ("bin", "EQ", M("at", V("TT"), I(0)), M("at", V("TT"), I(0))),
                  ("bin", "ADD", V("S"), V("S")), ("bin", "ADD", ("fcall", "IDF", [V("S")]), V("S")),
                  # constant nodes as operands of nodes that write into a non-flagged operand (the same node is run three times)
                  ("bin", "ADD", NUL, V("I1")), ("bin", "ADD", V("I1"), NUL), ("bin", "EQ", NUL, NUL), ("bin", "ADD", I(2), I(3)), ("un", "NEG", I(4)),
                  ("bin", "ADD", S("p"), S("q")), ("bin", "MUL", I(2), M("count", S("abc"))), ("un", "BNOT", NUL), ("bin", "BAND", NUL, L("B:1"))]:
            add("element_read", [("let", "R", e)])
        # the literal `null` / a literal as operand of the same node evaluated again after the OTHER operand changed
        for e in [("bin", "BIOR", NUL, V("BV")), ("bin", "BAND", NUL, ("un", "BNOT", V("BV"))), ("bin", "BIOR", V("BV"), NUL),
                  ("bin", "ADD", I(1), V("I1")), ("bin", "ADD", S("p"), V("S"))]:
            n += 1
            cases.append(self.xcase("x%d" % n, funcs, [(0, setup + [("let", "BV", L("B:1"))]), (1, [("let", "R", e)]),
                                                     (2, [("let", "BV", L("B:0")), ("let", "I1", I(6)), ("let", "S", S("zz"))])],
                                    [0, 1, 1, 2, 1, 1], {"family": "constant_operand"}))
        # (3) constructors: clone of lvalues, move of temporaries, n evaluations of the element expression
        for e in [("call", "tab", [I(2), V("S")]), ("call", "tab", [I(2), V("T")]), ("call", "tab", [I(2), ("fcall", "IDF", [V("T")])]), ("call", "tab", [I(0), V("T")]),
                  ("call", "tab", [I(2), M("at", V("TT"), I(0))]), ("call", "tab", [I(2), ("fcall", "MUT", [V("T")])]), ("call", "tab", [I(3), M("concat", V("S"), S("."))]),
                  ("call", "tab", []), ("call", "tab", [L("N:i0"), V("S")]), ("call", "tab", [I(-1), V("S")]), ("call", "tab", [I(2), NUL]),
                  ("call", "tup", [V("S"), V("T")]), ("call", "tup", [("fcall", "IDF", [V("S")]), M("at", V("TT"), I(0)), I(3)]), ("call", "tup", []),
                  ("call", "tup", [V("U"), V("I1")]), ("call", "tup", [NUL]), ("call", "tup", [M("concat", V("S"), S(".")), V("S")])]:
            add("construct", [("let", "R", e)], extra_defs=[(2, [("do", M("concat", V("S"), S("#"))), ("do", M("put", V("T"), I(0), I(42)))]), (3, [("let", "R2", V("R"))])])
        # (4) alias sequences: copy, then a random list of in-place operations on either side, dumps after each
        ops_of = {
            "S": lambda v: [M("concat", v, S("x")), M("put", v, I(0), I(66)), M("delete", v, I(0)), M("insert", v, I(0), S("yy"))],
            "T": lambda v: [M("concat", v, I(1)), M("put", v, I(0), I(8)), M("delete", v, I(0)), M("insert", v, I(0), I(9)), M("concat", v, v)],
            "TT": lambda v: [M("put", M("at", v, I(0)), I(0), I(5)), M("concat", M("at", v, I(1)), I(6)), M("delete", v, I(0)), M("concat", v, V("T")), M("put", v, I(0), V("T"))],
            "U": lambda v: [("setitem", v, 1, I(4)), ("setitem", v, 2, S("zz")), M("concat", ("item", v, 2), S("k"))],
            "TU": lambda v: [("setitem", M("at", v, I(0)), 1, I(4)), M("concat", v, V("U")), M("delete", v, I(0))],
        }
        copies = {"assign": lambda a: V(a), "call": lambda a: ("fcall", "IDF", [V(a)]), "tab": lambda a: M("at", ("call", "tab", [I(2), V(a)]), I(1)),
                  "tup": lambda a: ("item", ("call", "tup", [V(a), I(0)]), 1), "put": None, "mutcall": lambda a: ("fcall", "MUT", [V(a)])}
        for k in range(60 if quick else 1500):
            a = self.rng.choice(list(ops_of))
            how = self.rng.choice([h for h in copies if h != "put" and not (h == "mutcall" and a not in ("T",))])
            defs = [(1, [("let", "B", copies[how](a))])]
            runs = [1]
            for j in range(self.rng.randint(2, 6)):
                side = self.rng.choice([a, "B"])
                op = self.rng.choice(ops_of[a](V(side)))
                defs.append((2 + j, [("do", op)]))
                runs.append(2 + j)
                if self.rng.random() < 0.3:
                    runs.append(2 + j)
            n += 1
            cases.append(self.xcase("x%d" % n, funcs, [(0, setup)] + defs, [0] + runs, {"family": "alias_sequence", "copy": how}))
        # (6) argument forms: every member / constructor / call taking a payload argument x payload form (variable, element, item, constant,
        # temporary, whole table spliced) x the form of EVERY OTHER argument (constant / variable / computed temporary position or count).
        # Oracle: model dump (deep, incl. rows) + "an lvalue argument is unchanged afterwards"; each statement is run twice.
        setup2 = setup + [("let", "T2", ("call", "tab", [I(2), I(3)])), ("let", "TT2", ("call", "tab", [I(2), ("call", "tab", [I(2), I(4)])])),
                          ("let", "TS2", ("call", "tab", [I(2), S("r")])), ("let", "TU2", ("call", "tab", [I(2), ("call", "tup", [I(2), S("b")])])),
                          ("let", "U2", ("call", "tup", [I(8), S("h")])), ("let", "P0", I(0)), ("let", "P1", I(1))]
        IDFX = lambda x: ("fcall", "IDF", [x])
        payloads = {
            "T": [V("I1"), M("at", V("T2"), I(0)), ("item", V("U2"), 1), I(9), ("bin", "ADD", V("I1"), I(1)), IDFX(V("I1")),
                  V("T2"), IDFX(V("T2")), M("at", V("TT2"), I(0)), M("at", IDFX(V("TT2")), I(0))],
            "TT": [V("T2"), M("at", V("TT2"), I(1)), IDFX(V("T2")), ("call", "tab", [I(1), I(6)]), M("at", IDFX(V("TT2")), I(1)), V("TT2"), IDFX(V("TT2"))],
            "TS": [V("S"), M("at", V("TS2"), I(0)), ("item", V("U2"), 2), S("c"), IDFX(V("S")), ("bin", "ADD", V("S"), S("+")), V("TS2"), IDFX(V("TS2"))],
            "TU": [V("U2"), M("at", V("TU2"), I(0)), ("call", "tup", [I(5), S("e")]), IDFX(V("U2")), V("TU2"), IDFX(V("TU2"))],
        }
        def positions(rv, ins):
            cnt = M("count", V(rv))
            ps = [("const", I(0)), ("var", V("P1")), ("computed", ("bin", "SUB", V("P1"), I(1))), ("computed", ("bin", "SUB", cnt, I(1))),
                  ("computed", ("bin", "ADD", V("P0"), V("P1"))), ("computed", IDFX(V("P0")))]
            if ins:
                ps.append(("computed", cnt))
            return ps
        af = self.xstats.setdefault("arg_forms", {"payload_kinds": {}, "other_arg_kinds": {}})
        def kind_of(e):
            return {"var": "variable", "lit": "constant", "item": "item", "fcall": "temporary", "call": "temporary", "bin": "temporary"}.get(
                e[0], "element" if e[0] == "member" and chain_root(e) else "temporary")
        def addx(stmts, pk, ok):
            nonlocal n
            n += 1
            af["payload_kinds"][pk] = af["payload_kinds"].get(pk, 0) + 1
            af["other_arg_kinds"][ok] = af["other_arg_kinds"].get(ok, 0) + 1
            cases.append(self.xcase("x%d" % n, funcs, [(0, setup2), (1, stmts)], [0, 1, 1], {"family": "arg_forms"}))
        for rv, pls in payloads.items():
            for pl in pls:
                for ok, pos in positions(rv, True):
                    addx([("do", M("insert", V(rv), pos, pl))], kind_of(pl), ok)
                for ok, pos in positions(rv, False):
                    addx([("do", M("put", V(rv), pos, pl))], kind_of(pl), ok)
                addx([("do", M("concat", V(rv), pl))], kind_of(pl), "none")
                for ok, cnt in [("const", I(2)), ("var", V("P1")), ("computed", ("bin", "ADD", V("P1"), I(1))), ("computed", M("count", V("T2")))]:
                    addx([("let", "R", ("call", "tab", [cnt, pl]))], kind_of(pl), ok)
                for ok, other in [("const", I(1)), ("var", V("P1")), ("computed", ("bin", "ADD", V("P1"), I(1))), ("computed", IDFX(V("S")))]:
                    addx([("let", "R", ("call", "tup", [pl, other]))], kind_of(pl), ok)
                    addx([("let", "R", ("call", "tup", [other, pl]))], kind_of(pl), ok)
                addx([("let", "R", IDFX(pl))], kind_of(pl), "none")
                addx([("let", "R", M("count", IDFX(pl)))], kind_of(pl), "none")
        for idx, pls in ((1, payloads["T"][:6]), (2, payloads["TS"][:6])):
            for pl in pls:
                addx([("do", ("setitem", V("U"), idx, pl))], kind_of(pl), "none")
                addx([("do", ("setitem", M("at", V("TU"), ("bin", "SUB", V("P1"), I(1))), idx, pl))], kind_of(pl), "computed")
        # (7) EVERY built-in of two and more arguments x every pattern of argument sources (variable, table element, tuple item,
        # constant literal, operator temporary, function-result temporary): `r = f(…)` parsed once and run three times, deep dump of
        # every variable after each run compared with the storage model (`XExpr.bi`, placement table `biPlace`), plus the property
        # oracle of judge_x (only the target may change; the same statement from an equal read-state gives equal results: that is how a
        # clobbered CONSTANT node shows). A result written into a stored first / second / third argument is model != library.
        sigs_gen = multi_arg_builtins()
        missing = sorted(set(sigs_gen) - set(BI_SIGS) - {"tab", "tup"})
        assert not missing, "built-ins of arity >= 2 without an entry in BI_SIGS: %s" % missing
        for nm, sg in BI_SIGS.items():
            assert nm in BI_NOT_IN_SIGS or max(len(x) for x in sg) == sigs_gen.get(nm), (nm, sg, sigs_gen.get(nm))
        bs = self.xstats.setdefault("builtin_arg_sources", {"cases": 0, "builtins": {}, "patterns": {}, "stored_temp_pairs": {}})
        NEUTRAL = {"d": ("ADD", L("D:0000000000000000")), "i": ("ADD", I(0)), "s": ("ADD", S("")), "b": ("BAND", L("B:1"))}

        def arg_src(t, k, how):
            """expression for argument k of type t taken from source `how`, or None when that source does not exist for the type"""
            if t == "r":        # bytes: no literal, no operator: variable, element of a table of bytes, function result
                return {"var": V("A%d" % k), "elem": M("at", V("T%d" % k), I(1)), "idf": IDFX(V("A%d" % k))}.get(how)
            v = L(BI_VALUES[t][k])
            return {"var": V("A%d" % k), "elem": M("at", V("T%d" % k), I(1)), "item": ("item", V("U%d" % k), 1), "cst": v,
                    "op": ("bin", NEUTRAL[t][0], V("A%d" % k), NEUTRAL[t][1]), "idf": IDFX(V("A%d" % k))}[how]

        def bi_setup(sig):
            st = []
            for k, t in enumerate(sig):
                init = ("call", "raw", [S("hay,stack")]) if t == "r" else L(BI_VALUES[t][k])
                st.append(("let", "A%d" % k, init))
                st.append(("let", "T%d" % k, ("call", "tab", [I(2), V("A%d" % k) if t == "r" else init])))
                if t != "r":
                    st.append(("let", "U%d" % k, ("call", "tup", [init, I(0)])))
            return st

        for name, sgs in BI_SIGS.items():
            for sig in sgs:
                ar = len(sig)
                if ar == 2 or not quick:
                    pats = list(itertools.product(BI_SOURCES, repeat=ar))
                else:
                    pats = set(itertools.product(("var", "cst", "op"), repeat=3))
                    for i, j in itertools.permutations(range(3), 2):      # every ordered position pair (stored, temporary)
                        for a, b in itertools.product(BI_STORED, ("op", "idf")):
                            q = ["var"] * 3
                            q[i], q[j] = a, b
                            pats.add(tuple(q))
                    pats = sorted(pats)
                for pat in pats:
                    args = [arg_src(t, k, how) for k, (t, how) in enumerate(zip(sig, pat))]
                    if any(a is None for a in args):
                        continue
                    n += 1
                    cases.append(self.xcase("x%d" % n, funcs, [(0, bi_setup(sig)), (1, [("let", "R", ("call", name, args))])], [0, 1, 1, 1],
                                            {"family": "builtin_arg_sources", "builtin": name, "pattern": "/".join(pat)}))
                    bs["cases"] += 1
                    bs["builtins"][name] = bs["builtins"].get(name, 0) + 1
                    cls = "".join("S" if h in BI_STORED else "T" for h in pat)
                    bs["patterns"][cls] = bs["patterns"].get(cls, 0) + 1
                    for i, j in itertools.permutations(range(ar), 2):
                        if pat[i] in BI_STORED and pat[j] not in BI_STORED:
                            key = "%d:stored,%d:temp" % (i, j)
                            bs["stored_temp_pairs"][key] = bs["stored_temp_pairs"].get(key, 0) + 1
        # (8) EVERY operator x operand sources at STORAGE level (C05R4): `r = a <op> b;` parsed ONCE and run three times, so that the constant
        # nodes of the statement are re-read; each of (variable / table element / tuple item / constant, temporary) in both orders, plus
        # (var, var), (cst, cst), (temporary, temporary); model: `binPlace` / `unPlace` + LVAL1 / LVAL2 of Model/Store.lean through `evalX`.
        ARITH = ("ADD", "SUB", "MUL", "DIV", "MOD", "EXP")
        op_pairs = [(o, tp) for o in ARITH for tp in ("ii", "dd", "id", "di")] + [("ADD", "ss"), ("ADD", "sn"), ("ADD", "ns")]
        op_pairs += [(o, "ii") for o in ("AND", "IOR", "XOR", "POP", "PUS")]
        op_pairs += [(o, tp) for o in ("EQ", "NE", "LT", "LE", "GT", "GE") for tp in ("ii", "dd", "ss", "id")] + [("EQ", "bb"), ("NE", "bb")]
        op_pairs += [(o, tp) for o in ("BAND", "BIOR", "BXOR") for tp in ("bb", "fb")]        # f = boolean false (short circuit of `and`)
        OPV = dict(BI_VALUES)
        OPV.update({"f": ["B:0", "B:0"], "n": ["N:?0", "N:?0"]})
        NEUTRAL["f"] = NEUTRAL["b"]

        def op_src(t, k, how):
            if t == "n":        # the untyped null: variable, literal, function result
                return {"var": V("A%d" % k), "cst": NUL, "idf": IDFX(V("A%d" % k))}.get(how)
            v = L(OPV[t][k])
            return {"var": V("A%d" % k), "elem": M("at", V("T%d" % k), I(1)), "item": ("item", V("U%d" % k), 1), "cst": v,
                    "op": ("bin", NEUTRAL[t][0], V("A%d" % k), NEUTRAL[t][1]), "idf": IDFX(V("A%d" % k))}[how]

        def op_setup(sig):
            st = []
            for k, t in enumerate(sig):
                init = L(OPV[t][k])
                st.append(("let", "A%d" % k, init))
                if t != "n":
                    st.append(("let", "T%d" % k, ("call", "tab", [I(2), init])))
                    st.append(("let", "U%d" % k, ("call", "tup", [init, I(0)])))
            return st

        OP_PATS = [(a, b) for a in BI_STORED for b in ("op", "idf")] + [(b, a) for a in BI_STORED for b in ("op", "idf")] + [
            ("var", "var"), ("cst", "cst"), ("op", "idf")]
        osr = self.xstats.setdefault("operator_arg_sources", {"cases": 0, "operators": {}, "patterns": {}})
        for opn, tp in op_pairs:
            for pat in OP_PATS:
                a, b = op_src(tp[0], 0, pat[0]), op_src(tp[1], 1, pat[1])
                if a is None or b is None:
                    continue
                n += 1
                cases.append(self.xcase("x%d" % n, funcs, [(0, op_setup(tp)), (1, [("let", "R", ("bin", opn, a, b))])], [0, 1, 1, 1],
                                        {"family": "operator_arg_sources", "operator": opn, "pattern": "/".join(pat)}))
                osr["cases"] += 1
                osr["operators"][opn] = osr["operators"].get(opn, 0) + 1
                cls = "".join("S" if h in BI_STORED else "T" for h in pat)
                osr["patterns"][cls] = osr["patterns"].get(cls, 0) + 1
        for opn, tps in (("NEG", "idn"), ("POS", "idsn"), ("NOT", "in"), ("BNOT", "bfn")):
            for t in tps:
                for how in BI_SOURCES:
                    a = op_src(t, 0, how)
                    if a is None:
                        continue
                    n += 1
                    cases.append(self.xcase("x%d" % n, funcs, [(0, op_setup(t)), (1, [("let", "R", ("un", opn, a))])], [0, 1, 1, 1],
                                            {"family": "operator_arg_sources", "operator": opn, "pattern": how}))
                    osr["cases"] += 1
                    osr["operators"][opn] = osr["operators"].get(opn, 0) + 1
        # (9) the LVALUE flag of the RESULT cell (probe op `exprf`, driver item `(flag e)`): `thru` (the first argument's cell handed through)
        # and `l1` / `l2` / `fresh` placements differ only there. One case per signature: the setup, then every source pattern as a freshly
        # parsed expression; value and flag of the result compared with the model (`getX` of the location `evalX` returns).
        rfs = self.xstats.setdefault("result_flag", {"cases": 0, "expressions": 0})

        def xfcase(setup_st, exprs, meta):
            nonlocal n
            n += 1
            fsrc = "".join("function %s(%s) return undefined is begin %s end;\n" % (
                nm.lower(), ", ".join(q.lower() for q in ps), " ".join(xstmt_src(st) for st in body)) for nm, ps, body in funcs)
            sx = ["(func %s (%s) %s)" % (nm, " ".join(ps), " ".join(xstmt_sexp(st) for st in body)) for nm, ps, body in funcs]
            sx.append("(def 0 %s)" % " ".join(xstmt_sexp(st) for st in setup_st))
            sx.append("(run 0)")
            ops = ["new 0", "prog 0 " + hx(fsrc), "parse 0 0 " + hx(" ".join(xstmt_src(st) for st in setup_st)), "run 0 0"]
            for e in exprs:
                ops.append("exprf 0 " + hx(xsrc(e) + ";"))
                sx.append("(flag %s)" % xsexp(e))
            m = dict(meta)
            m.update({"xf": True, "exprs": [xsrc(e) for e in exprs]})
            fam = self.xstats["families"]
            fam["result_flag"] = fam.get("result_flag", 0) + 1
            rfs["cases"] += 1
            rfs["expressions"] += len(exprs)
            cases.append(Case("x%d" % n, "c05x 200 " + hx(" ".join(sx)), "|".join(ops), m))

        for name, sgs in BI_SIGS.items():
            for sig in sgs:
                pats = itertools.product(BI_SOURCES, repeat=len(sig)) if len(sig) == 2 else itertools.product(("var", "cst", "op", "elem"), repeat=3)
                exprs = []
                for pat in pats:
                    args = [arg_src(t, k, how) for k, (t, how) in enumerate(zip(sig, pat))]
                    if all(a is not None for a in args):
                        exprs.append(("call", name, args))
                xfcase(bi_setup(sig), exprs, {"family": "result_flag", "what": "%s/%s" % (name, sig)})
        for opn, tp in op_pairs:
            exprs = []
            for pat in itertools.product(BI_SOURCES, repeat=2):
                a, b = op_src(tp[0], 0, pat[0]), op_src(tp[1], 1, pat[1])
                if a is not None and b is not None:
                    exprs.append(("bin", opn, a, b))
            xfcase(op_setup(tp), exprs, {"family": "result_flag", "what": "%s/%s" % (opn, tp)})
        for opn, tps in (("NEG", "idn"), ("POS", "idsn"), ("NOT", "in"), ("BNOT", "bfn")):
            for t in tps:
                xfcase(op_setup(t), [("un", opn, a) for a in (op_src(t, 0, h) for h in BI_SOURCES) if a is not None], {"family": "result_flag", "what": "%s/%s" % (opn, t)})
        # the hand-through (`return val;`) and `fresh` branches, with the first argument stored and temporary
        tsetup = [("let", "S", S("hay,stack")), ("let", "E", S("")), ("let", "NS", L("N:s0")), ("let", "NI", L("N:i0")), ("let", "ND", L("N:d0")),
                  ("let", "B", ("call", "raw", [S("ab")])), ("let", "I1", I(2)), ("let", "D1", L("D:4004000000000000")), ("let", "NN", NUL)]
        C = lambda nm, *a: ("call", nm, list(a))
        thru = []
        for w in (lambda x: x, IDFX):
            s_, e_, ns, ni, nd, b_, d1 = (w(V(q)) for q in ("S", "E", "NS", "NI", "ND", "B", "D1"))
            thru += [C("replace", s_, V("NN"), S("x")), C("replace", s_, V("NS"), S("x")), C("replace", ns, S("a"), S("b")), C("replace", s_, S(""), S("x")),
                     C("replace", s_, S(","), S(";")), C("clamp", nd, L("D:3ff0000000000000"), L("D:4000000000000000")),
                     C("clamp", d1, V("ND"), L("D:4000000000000000")), C("clamp", d1, L("D:3ff0000000000000"), V("ND")),
                     C("clamp", d1, L("D:3ff0000000000000"), L("D:4000000000000000")), C("round", nd, I(1)), C("round", d1, I(1)), C("round", d1, V("NI")),
                     C("raw", b_), C("raw", s_), C("raw", V("I1"), I(65)), C("substr", s_, V("NI")), C("substr", s_, V("NN")), C("substr", e_, I(0)),
                     C("substr", ns, I(0)), C("substr", s_, I(1)), C("substr", s_, I(0), V("NI")), C("substr", s_, I(1), I(3)), C("lsubstr", s_, V("NI")),
                     C("lsubstr", e_, I(1)), C("lsubstr", s_, I(2)), C("rsubstr", s_, V("NI")), C("rsubstr", e_, I(1)), C("rsubstr", s_, I(2)),
                     C("subraw", b_, V("NI")), C("subraw", b_, I(1)), C("subraw", b_, I(0), V("NI")), C("hex", ni, I(2)), C("hex", V("I1"), V("NI")),
                     C("hex", V("I1"), I(4)), C("strpos", s_, S(","), V("NN")), C("strpos", s_, S(","), I(1)), C("strpos", ns, S(",")),
                     C("tokenize", ns, S(",")), C("tokenize", s_, S(",")), C("hash", ns, I(4)), C("hash", s_, I(4)),
                     C("atan2", nd, d1), C("max", nd, d1), C("min", d1, nd), C("mod", nd, d1), C("pow", d1, nd)]
        for k in range(0, len(thru), 12):
            xfcase(tsetup, thru[k:k + 12], {"family": "result_flag", "what": "hand-through"})
        # (5) a held element reference whose variable is changed by a later operand (dangling): model = hazard oob
        for e in [M("put", M("at", V("TT"), I(0)), I(0), M("count", M("concat", M("concat", V("TT"), V("TT")), V("TT")))),
                  ("bin", "ADD", M("at", M("at", V("TT"), I(1)), I(0)), M("count", M("concat", M("concat", M("concat", V("TT"), V("TT")), V("TT")), V("TT")))),
                  M("concat", M("at", V("TT"), I(1)), M("count", M("delete", V("TT"), I(0))))]:
            add("dangling", [("let", "R", e)], runs=1)
        return cases, n

    def judge_x(self, c, iraw, m, stderr):
        mout = m.get("model")
        self.distinct.add(c.model_line)
        if mout is None or mout == "bad-script":
            return self.record_violation("storage model gave no answer", c, iraw[:100], m)
        steps = mout.split("|")
        if iraw.startswith("crash") or iraw.endswith("diverges"):
            self.tally(c, iraw, m)
            hz = [st.split("#")[0].replace("+", " ") for st in steps if st.startswith("hazard")]
            if hz and iraw.startswith("crash"):      # undefined behaviour of a dangling reference shows up as any sanitizer report / abort
                f = C05_FINDINGS[0]
                self.known_hits.setdefault(f["id"], {"what": f["what"], "example": " ".join(c.meta["src"][-1:]), "impl": iraw})
                return
            return self.record_violation("crash while running `%s`" % " ".join(c.meta["src"]), c, iraw, m, stderr)
        parts = iraw.split("|")
        nrun = len(c.meta["runs"])
        pro, body = parts[:len(parts) - 2 * nrun - 1], parts[len(parts) - 2 * nrun - 1:]
        if any(not q.startswith("ok") for q in pro):
            self.xstats["rejected_by_parser"] += 1
            rf = self.xstats.setdefault("rejected_by_family", {})
            rf[c.meta["family"]] = rf.get(c.meta["family"], 0) + 1
            if c.meta["family"] == "builtin_arg_sources":
                rb = self.xstats.setdefault("rejected_builtins", {})
                kk = "%s %s: %s" % (c.meta["builtin"], c.meta["pattern"], next(q for q in pro if not q.startswith("ok")))
                if len(rb) < 12:
                    rb[kk] = 1
            self.tally(c, next(q for q in pro if not q.startswith("ok")), m)
            return
        strip = lambda v: strip_flags(v[:-2]) + v[-2:]
        prev = {k: strip(v[2]) for k, v in parse_dump(body[0])["syms"].items()}
        seen = {}
        assigned = set()
        for k, rk in enumerate(c.meta["runs"]):
            assigned |= {st[1] for st in c.meta["defs"][rk] if st[0] == "let"}
            ires, idump = body[1 + 2 * k], parse_dump(body[2 + 2 * k])
            mo, _, md = steps[k].partition("#") if k < len(steps) else ("stop", "", "")
            if k == len(c.meta["runs"]) - 1 or mo != "ok":
                self.tally(c, ires, m)
            if mo == "stop":
                return
            if mo.startswith("hazard"):
                self.xstats["hazard_not_manifest"] += 1
                return
            if mo in ("unmodelled", "oof"):
                self.xstats["model_unmodelled"] += 1
                return
            io = "ok" if ires.startswith("ok") else "rerr+" + ires.split()[1] if ires.startswith("rerr") else ires
            src = c.meta["src"][k]
            if io != mo:
                return self.record_violation("step %d `%s`: the implementation gives %s, the storage model %s" % (k, src, ires, mo), c, ires, m)
            if mo != "ok":
                return
            cur = {kk: strip(v[2]) for kk, v in idump["syms"].items()}
            mod = dict(ent.split("=", 1) for ent in md.split(";")) if md else {}
            self.xstats["steps_compared"] += 1
            for name in sorted(set(cur) | set(mod)):
                if mod.get(name) == "N:?0/l" and (cur.get(name) or "").startswith("N:") and cur[name].endswith("/l") and name not in assigned:
                    continue        # never assigned so far: the symbol's null carries its compile-time type, which the storage model does not track
                if cur.get(name) != mod.get(name):
                    return self.record_violation("step %d `%s`: variable %s is %s in the implementation, %s in the storage model" % (
                        k, src, name, cur.get(name), mod.get(name)), c, str(cur.get(name)), m)
            for name, v in cur.items():
                if not v.endswith("/l"):
                    return self.record_violation("flag invariant broken: variable %s = %s lacks the LVALUE flag after `%s`" % (name, v, src), c, v, m)
            # the property itself, on the implementation's dumps: only targets and receiver variables may change
            stmts = c.meta["defs"][rk]
            acc = {"vars": set(), "odd": False}
            reads = set()
            for st in stmts:
                ex = st[2] if st[0] == "let" else st[1]
                spec_effects(ex, acc)
                reads |= set(re.findall(r"\(var (\w+)\)", xsexp(ex)))
                if st[0] == "let":
                    acc["vars"].add(st[1])
            changed = {nm for nm in cur if prev.get(nm) != cur[nm]}
            extra = changed - acc["vars"]
            if extra:
                return self.record_violation("`%s` changed %s, which is neither its target nor the variable of a storage receiver (contradicts the property)" % (
                    src, sorted(extra)), c, str(sorted(extra)), m)
            key = (rk, tuple(sorted((nm, prev.get(nm)) for nm in reads)))
            post = tuple(sorted((nm, cur[nm]) for nm in acc["vars"] if nm in cur))
            if key in seen and seen[key] != post:
                return self.record_violation("re-evaluating `%s` in the same state gives %s then %s: a constant node changed (contradicts the property)" % (
                    src, seen[key], post), c, str(post), m)
            seen.setdefault(key, post)
            prev = cur

    def node_case(self, cid, model, expr_src, setup, meta):
        ops = ["new 0", "prog 0 " + hx(IDF)] + setup + ["dump 0"]
        for _ in range(3):
            ops += ["expr 0 " + hx(expr_src + ";"), "dump 0"]
        meta = dict(meta)
        meta["node"] = True
        meta["expr"] = expr_src
        return Case(cid, model, "|".join(ops), meta)

    def gen_cases(self):
        quick = self.tier == "quick"
        cases = []
        n = 0
        allv = [(t, v) for t, vs in VALS.items() for v in vs]

        def src_of(v, slot, kind):
            if kind == "var":
                return slot, ["set 0 %s %s" % (hx(slot.upper()), v)]
            if kind == "tmp":      # a temporary holding the value: the result of an identity function call
                return "idf(%s)" % slot, ["set 0 %s %s" % (hx(slot.upper()), v)]
            if v.startswith(("C:", "N:c")):
                return "(1.0 + 2.0 * ii)", []
            return progen.lit_src(v), []

        for (opname, optext) in OPS + CMP + [(a, b) for a, b in LOGIC if b in ("and", "or", "xor")]:
            for (t1, v1), (t2, v2) in itertools.product(allv, allv):
                for k1, k2 in (("var", "var"), ("var", "cst"), ("cst", "var"), ("cst", "cst"), ("tmp", "var"), ("var", "tmp"), ("tmp", "tmp"), ("tmp", "cst"), ("cst", "tmp")):
                    if quick and (k1, k2) == ("cst", "cst") and (t1 + t2) not in ("ii", "ss", "nn", "bn", "nb"):
                        continue
                    if "c" in (t1, t2) and opname not in ("ADD", "SUB", "MUL", "DIV", "EXP", "EQ", "NE"):
                        continue
                    if quick and "tmp" in (k1, k2) and "c" not in (t1, t2) and (len(v1) + len(v2) + len(opname)) % 3:
                        continue
                    e1, s1 = src_of(v1, "x", k1)
                    e2, s2 = src_of(v2, "y", k2)
                    n += 1
                    # static types: an identity-function result is opaque
                    st = lambda v, k: "?0" if k == "tmp" else (v[2:] if v.startswith("N:") else {"I": "i0", "D": "d0", "B": "b0", "S": "s0", "C": "c0"}[v[0]])
                    cases.append(self.node_case("c%d" % n, "op %s %s %s %s %s" % (opname, v1, v2, st(v1, k1), st(v2, k2)), "%s %s %s" % (e1, optext, e2), s1 + s2,
                                                {"family": "binop"}))
        for (opname, optext) in UNOPS:
            for (t1, v1) in allv:
                for k1 in ("var", "cst"):
                    e1, s1 = src_of(v1, "x", k1)
                    n += 1
                    cases.append(self.node_case("c%d" % n, "un %s %s" % (opname, v1), "%s(%s)" % (optext, e1), s1, {"family": "unop"}))
        for f in BUILTINS1:
            for (t1, v1) in allv + [("r", "R:6162"), ("r", "N:r0")]:
                for k1 in ("var", "cst"):
                    if k1 == "cst" and v1.startswith("R:"):
                        continue
                    e1, s1 = src_of(v1, "x", k1)
                    n += 1
                    cases.append(self.node_case("c%d" % n, "bi %s %s" % (f, v1), "%s(%s)" % (f, e1), s1, {"family": "builtin"}))
        # copies of null / non-null sources, then repeated evaluation on the source (the copy must not strip the source's flag)
        for (t1, v1) in allv + [("r", "R:6162"), ("r", "N:r0"), ("t", "Ti1[I:1,I:2]"), ("t", "N:i1"), ("u", "Uu0{i0,s0}(I:1,S:61)")]:
            for how in ("y = x;", "function g(p) return undefined is begin return p; end; z = g(x);", "y = x; y = x;", "t2 = tab(2, x);", "u2 = tup(x, 1);"):
                if ("tab(" in how and (t1 in "tun" )) or ("tup(" in how and t1 in "tun"):
                    continue
                for ex in ("isnull(x)", "x == x", "typeof(x)"):
                    n += 1
                    ops = ["new 0", "set 0 %s %s" % (hx("X"), v1), "prog 0 " + hx(how), "dump 0"]
                    for _ in range(3):
                        ops += ["expr 0 " + hx(ex + ";"), "dump 0"]
                    cases.append(Case("c%d" % n, "", "|".join(ops), {"node": True, "expr": how + " " + ex, "family": "copy", "nomodel": True}))
        # (b) random programs with alias emphasis
        for k in range(300 if quick else 5000):
            g = progen.Gen(self.rng, nvars=2, funcs=(k % 2 == 0), errors=0.05, tables=(0.3 if k % 3 == 1 else 0.0))
            prog = g.program(nstmts=self.rng.randint(4, 8), depth=2)
            # alias candidates: copy every variable, mutate the original, print both
            tail = []
            for t in "idbs":
                a, b = "%s1" % t.upper(), "%s2" % t.upper()
                tail += [("let", b, ("var", a)),
                         ("let", a, {"i": ("bin", "ADD", ("var", a), I(1)), "d": ("bin", "MUL", ("var", a), L("D:4000000000000000")),
                                     "b": ("un", "BNOT", ("var", a)), "s": ("bin", "ADD", ("var", a), S("!"))}[t]),
                         ("print", [("var", a), S("|"), ("var", b)])]
            if g.ptab > 0:
                # containers: copy the table, change the original in place and through an iterator, print both
                for t in "is":
                    a, b = "T%s1" % t.upper(), "T%s2" % t.upper()
                    x = {"i": I(41), "s": S("zz")}[t]
                    tail += [("let", b, ("var", a)), ("do", ("member", "concat", ("var", a), [x])),
                             ("do", ("member", "put", ("var", a), [I(0), x])),
                             ("forall", "%sQ" % t.upper(), ("var", a), "auto", [("let", "%sQ" % t.upper(), x)]),
                             ("print", [("member", "count", ("var", a), []), S("|"), ("member", "count", ("var", b), [])]),
                             ("forall", "%sR" % t.upper(), ("var", b), "auto", [("print", [("var", "%sR" % t.upper())])]),
                             ("let", a, ("call", "tab", [I(2), ("member", "at", ("var", b), [I(0)])])),
                             ("do", ("member", "put", ("var", a), [I(1), x])),
                             ("forall", "%sR" % t.upper(), ("var", b), "desc", [("print", [("var", "%sR" % t.upper())])])]
            n += 1
            cases.append(self.prog_case("c%d" % n, prog + tail, {"family": "random"}))
        # assignment THROUGH a forall iterator, then reads of the iterator later in the same iteration (operand, assignment source, call /
        # constructor / put argument): the element must still behave as an lvalue (LETStatement::doit, pointer branch). Value-semantics model.
        V_ = lambda x: ("var", x)
        for k, (mk, rd) in enumerate(itertools.product(
                [lambda: ("let", "EQ", V_("KV")), lambda: ("let", "EQ", ("bin", "ADD", V_("EQ"), V_("KV"))), lambda: ("let", "EQ", ("fcall", "FID", [V_("KV")]))],
                [lambda: [("print", [("bin", "ADD", V_("EQ"), V_("KV"))]), ("print", [("bin", "ADD", V_("EQ"), V_("KV"))])],
                 lambda: [("let", "ACC", ("bin", "ADD", V_("ACC"), V_("EQ"))), ("let", "LAST", V_("EQ"))],
                 lambda: [("let", "LAST", ("fcall", "FID", [V_("EQ")])), ("let", "TB", ("call", "tab", [I(2), V_("EQ")]))],
                 lambda: [("do", ("member", "put", V_("OT"), [I(0), V_("EQ")])), ("do", ("member", "concat", V_("OT"), [V_("EQ")]))]])):
            for ty in ("i", "s"):
                kv, el = (I(3), I(5)) if ty == "i" else (S("k"), S("ab"))
                prog = [("func", "FID", ["%s7" % ty.upper()], ty, [("return", V_("%s7" % ty.upper()))], [])]
                prog += [("let", "KV", kv), ("let", "ACC", kv), ("let", "LAST", kv), ("let", "OT", ("call", "tab", [I(1), el])), ("let", "TB", ("call", "tab", [I(1), el])),
                         ("let", "WT", ("call", "tab", [I(3), el])),
                         ("forall", "EQ", V_("WT"), "auto", [mk()] + rd() + [("print", [V_("EQ")])]),
                         ("forall", "ER", V_("WT"), "auto", [("print", [V_("ER")])]),
                         ("forall", "ER", V_("OT"), "auto", [("print", [V_("ER")])]), ("forall", "ER", V_("TB"), "auto", [("print", [V_("ER")])]),
                         ("print", [V_("ACC"), S("|"), V_("LAST"), S("|"), V_("KV")])]
                n += 1
                cases.append(self.prog_case("c%d" % n, prog, {"family": "iterator_assign_then_read"}))
        # built-ins that hand their argument's cell through (degenerate / null cases), followed by an in-place member: implementation only
        # (the storage model has no built-ins); a changed variable other than R is the recorded finding, anything else is compared as usual
        PT = [('substr(e, 0)', 'E'), ('lsubstr(e, 3)', 'E'), ('rsubstr(e, 3)', 'E'), ('substr(s, null)', 'S'), ('substr(s, 0, null)', 'S'), ('substr(s, int())', 'S'),
              ('lsubstr(s, null)', 'S'), ('rsubstr(s, null)', 'S'), ('replace(s, null, "a")', 'S'), ('replace(s, str(), "a")', 'S'), ('raw(b)', 'B'),
              ('subraw(b, null)', 'B'), ('lower(ns)', 'NS'), ('upper(ns)', 'NS'), ('trim(ns)', 'NS'), ('ltrim(ns)', 'NS'), ('rtrim(ns)', 'NS'),
              ('substr(ns, 1)', 'NS'), ('idf(s)', None), ('str(s)', None), ('lower(s)', None), ('substr(s, 0)', None), ('(s + "")', None)]
        for recv, victim in PT:
            for call in ('concat("y")', 'concat(65)', 'put(0, 66)', 'insert(0, "k")', 'delete(0)'):
                if victim in ("E", "NS") and not call.startswith("concat"):
                    continue
                if victim == "B" and call == 'insert(0, "k")':
                    call = 'insert(0, 75)'
                n += 1
                st = "r = %s.%s;" % (recv, call)
                ops = ["new 0", "prog 0 " + hx(IDF + 's = "ab"; e = ""; ns = str(); b = raw("ab"); r = null;'), "dump 0", "prog 0 " + hx(st), "dump 0"]
                cases.append(Case("c%d" % n, "", "|".join(ops), {"pt": True, "expr": st, "family": "builtin_passthrough", "victim": victim}))
        xc, n = self.gen_xcases(n)
        cases += xc
        self.stats["cases"] = n
        self.stats["storage_model"] = self.xstats
        return cases

    def judge_xf(self, c, iraw, m, stderr):
        """result-flag cases: value and LVALUE flag of the cell each expression returns, library (exprf) against storage model (flag)"""
        mout = m.get("model")
        self.distinct.add(c.model_line)
        if mout is None or mout == "bad-script":
            return self.record_violation("storage model gave no answer", c, iraw[:100], m)
        if iraw.startswith("crash") or iraw.endswith("diverges"):
            self.tally(c, iraw, m)
            return self.record_violation("crash while evaluating one of %s" % c.meta["exprs"][:3], c, iraw, m, stderr)
        steps = mout.split("|")
        parts = iraw.split("|")
        ex = c.meta["exprs"]
        res = parts[len(parts) - len(ex):]
        pro = parts[:len(parts) - len(ex)]
        rf = self.xstats["result_flag"]
        if any(not q.startswith("ok") for q in pro) or not steps[0].startswith("ok"):
            rf["setup_failed"] = rf.get("setup_failed", 0) + 1
            if [q.startswith("ok") for q in pro[-1:]] != [steps[0].startswith("ok")]:
                return self.record_violation("setup of a result-flag case: implementation %s, model %s" % (pro[-1:], steps[0][:40]), c, str(pro), m)
            return
        self.tally(c, res[-1] if res else "?", m)
        for k, (src, ir) in enumerate(zip(ex, res)):
            ms = steps[1 + k] if 1 + k < len(steps) else "stop"
            if ms == "stop":
                return
            if ir.startswith("perr"):
                rf["rejected_by_parser"] = rf.get("rejected_by_parser", 0) + 1
                if not ms.startswith("ok"):
                    return        # the model has no parse-time typing: it raised at run time and holds no state any more
                continue
            mo, _, mv = ms.partition("#")
            if mo in ("unmodelled", "oof"):
                self.xstats["model_unmodelled"] += 1
                return
            io = "ok" if ir.startswith("ok") else "rerr+" + ir.split()[1] if ir.startswith("rerr") else ir
            if io != mo:
                return self.record_violation("`%s`: the implementation gives %s, the storage model %s" % (src, ir, ms), c, ir, m)
            if mo != "ok":
                return
            iv = ir[3:]
            rf["compared"] = rf.get("compared", 0) + 1
            key = "lvalue" if iv.endswith("/l") else "temporary"
            rf[key] = rf.get(key, 0) + 1
            if iv != mv:
                what = "flag" if iv[:-2] == mv[:-2] else "value"
                return self.record_violation("`%s`: the result cell is %s in the implementation, %s in the storage model (%s differs)" % (src, iv, mv, what), c, iv, m)

    def judge(self, c, iraw, m, stderr):
        if c.meta.get("xf"):
            return self.judge_xf(c, iraw, m, stderr)
        if c.meta.get("x"):
            return self.judge_x(c, iraw, m, stderr)
        if c.meta.get("pt"):
            self.distinct.add(c.meta["expr"])
            if iraw.startswith("crash") or iraw.endswith("diverges"):
                return self.record_violation("crash while running `%s`" % c.meta["expr"], c, iraw, m, stderr)
            parts = iraw.split("|")
            self.tally(c, parts[3], m)
            if not parts[1].startswith("ok") or not parts[3].startswith("ok"):
                return      # rejected or raised: nothing to compare
            d0, d1 = parse_dump(parts[2])["syms"], parse_dump(parts[4])["syms"]
            changed = sorted(k for k in d1 if k != "R" and d0.get(k) != d1[k])
            pt = self.stats.setdefault("builtin_passthrough", {"cases": 0})
            pt["cases"] += 1
            if changed:
                return self.record_violation("`%s` changed %s: the receiver is not a storage expression (a built-in handed its argument through)" % (
                    c.meta["expr"], changed), c, str(changed), m)
            return
        if not c.meta.get("node"):
            return ProgCheck.judge(self, c, iraw, m, stderr)
        mout = m.get("model") if not c.meta.get("nomodel") else "unmodelled"
        self.distinct.add((c.model_line, c.meta["expr"]))
        if iraw.startswith("crash") or iraw.endswith("diverges"):
            self.tally(c, iraw, m)
            if mout and mout.startswith("hazard"):
                return Check.judge(self, Case(c.cid, c.model_line, c.impl_line, c.meta), iraw, m, stderr)
            return self.record_violation("crash while evaluating `%s`" % c.meta["expr"], c, iraw, m, stderr)
        parts = iraw.split("|")
        dumps = [p.split(" fn=")[0] for p in parts if p.startswith("dump=")]      # the function-context cache size is not script-visible
        evals = [p for p in parts if p.startswith(("ty=", "perr"))]
        self.tally(c, (evals[0].split(" ", 1)[1] if evals and evals[0].startswith("ty=") else (evals[0] if evals else "?")), m)
        if len(self.samples) < 10 and self.rng.random() < 0.003:
            self.samples.append({"expr": c.meta["expr"], "model": mout, "impl": evals[:1], "dump": dumps[0][:120] if dumps else ""})
        if mout is None:
            return self.record_violation("model gave no answer", c, iraw[:100], m)
        for k, d in enumerate(dumps[1:]):
            if d != dumps[0]:
                return self.record_violation("evaluating `%s` (evaluation %d) changed a variable slot: before %s after %s" % (
                    c.meta["expr"], k + 1, dumps[0][:200], d[:200]), c, d[:200], m)
        d0 = parse_dump(dumps[0]) if dumps else None
        if d0:
            for name, (ty, flags, val) in d0["syms"].items():
                if not val.endswith("/l"):
                    return self.record_violation("flag invariant broken: variable %s = %s lacks the LVALUE flag" % (name, val), c, val, m)
        if mout == "unmodelled":
            return
        for k, ev in enumerate(evals):
            if ev.startswith("perr"):
                got = ev
            else:
                got = ev.split(" ", 1)[1]
                got = got.split(" rt=")[0]
            if not outcomes_agree(got, mout):
                return self.record_violation("evaluation %d of `%s` gives %s, the model gives %s" % (k + 1, c.meta["expr"], got, mout), c, got, m)

    def hazard_kf(self, c, hazard):
        ml = c.model_line.split()
        if ml and ml[0] == "bi":
            return "C10.%s.%s" % (ml[1], hazard)
        return None
