"""C05 — evaluating an expression changes nothing but its target (value semantics)."""
import itertools

from .. import progen
from ..core import Case, Check, outcomes_agree
from ..progen import I, L, S
from ..progcheck import ProgCheck, strip_flags
from ..run import hx
from .c03 import OPS, CMP
from .c04 import LOGIC, parse_dump

VALS = {"i": ["I:5", "I:0", "I:-3", "N:i0"], "d": ["D:4004000000000000", "D:0000000000000000", "N:d0"], "b": ["B:1", "B:0", "N:b0"],
        "s": ["S:6162", "S:", "N:s0"], "n": ["N:?0"], "c": ["C:3ff0000000000000,4000000000000000"]}
IDF = "function idf(v) return undefined is begin return v; end;\n"
UNOPS = [("NEG", "-"), ("POS", "+"), ("NOT", "~"), ("BNOT", "not ")]
BUILTINS1 = ["strlen", "upper", "lower", "trim", "str", "int", "b64enc", "hash", "hex", "chr", "raw", "isnum"]


class C05(ProgCheck):
    pid = "C05"
    proof_modules = ["BlocV.Proofs.C05"]
    rule = ("(a) node level: every unary/binary operator and a set of built-ins x operand classes (integer, decimal, boolean, "
            "string, typed and untyped nulls) x operand source (variable / literal constant): the expression node is "
            "evaluated three times through Expression::value with a deep dump of every variable slot (value, type, LVALUE "
            "flag) before and after each evaluation — all dumps must be identical, every result must equal the Lean model's; "
            "(b) program level: seeded random programs with alias candidates (b = a; f(a); s = s + …; re-evaluation across "
            "loop iterations) compared with the value-semantics interpreter (outcome, output, every variable). "
            "distinct = (expression, operand values/sources) resp. program text.")

    def node_case(self, cid, model, expr_src, setup, meta):
        ops = ["new 0", "prog 0 " + hx(IDF)] + setup + ["dump 0"]
        for _ in range(3):
            ops += ["expr 0 " + hx(expr_src + ";"), "dump 0"]
        meta = dict(meta)
        meta["node"] = True
        meta["expr"] = expr_src
        return Case(cid, model, "|".join(ops), meta)

    def gen_cases(self):
        quick = self.tier == "quick"
        cases = []
        n = 0
        allv = [(t, v) for t, vs in VALS.items() for v in vs]

        def src_of(v, slot, kind):
            if kind == "var":
                return slot, ["set 0 %s %s" % (hx(slot.upper()), v)]
            if kind == "tmp":      # a temporary holding the value: the result of an identity function call
                return "idf(%s)" % slot, ["set 0 %s %s" % (hx(slot.upper()), v)]
            if v.startswith(("C:", "N:c")):
                return "(1.0 + 2.0 * ii)", []
            return progen.lit_src(v), []

        for (opname, optext) in OPS + CMP + [(a, b) for a, b in LOGIC if b in ("and", "or", "xor")]:
            for (t1, v1), (t2, v2) in itertools.product(allv, allv):
                for k1, k2 in (("var", "var"), ("var", "cst"), ("cst", "var"), ("cst", "cst"), ("tmp", "var"), ("var", "tmp"), ("tmp", "tmp"), ("tmp", "cst"), ("cst", "tmp")):
                    if quick and (k1, k2) == ("cst", "cst") and (t1 + t2) not in ("ii", "ss", "nn", "bn", "nb"):
                        continue
                    if "c" in (t1, t2) and opname not in ("ADD", "SUB", "MUL", "DIV", "EXP", "EQ", "NE"):
                        continue
                    if quick and "tmp" in (k1, k2) and "c" not in (t1, t2) and (len(v1) + len(v2) + len(opname)) % 3:
                        continue
                    e1, s1 = src_of(v1, "x", k1)
                    e2, s2 = src_of(v2, "y", k2)
                    n += 1
                    # static types: an identity-function result is opaque
                    st = lambda v, k: "?0" if k == "tmp" else (v[2:] if v.startswith("N:") else {"I": "i0", "D": "d0", "B": "b0", "S": "s0", "C": "c0"}[v[0]])
                    cases.append(self.node_case("c%d" % n, "op %s %s %s %s %s" % (opname, v1, v2, st(v1, k1), st(v2, k2)), "%s %s %s" % (e1, optext, e2), s1 + s2,
                                                {"family": "binop"}))
        for (opname, optext) in UNOPS:
            for (t1, v1) in allv:
                for k1 in ("var", "cst"):
                    e1, s1 = src_of(v1, "x", k1)
                    n += 1
                    cases.append(self.node_case("c%d" % n, "un %s %s" % (opname, v1), "%s(%s)" % (optext, e1), s1, {"family": "unop"}))
        for f in BUILTINS1:
            for (t1, v1) in allv + [("r", "R:6162"), ("r", "N:r0")]:
                for k1 in ("var", "cst"):
                    if k1 == "cst" and v1.startswith("R:"):
                        continue
                    e1, s1 = src_of(v1, "x", k1)
                    n += 1
                    cases.append(self.node_case("c%d" % n, "bi %s %s" % (f, v1), "%s(%s)" % (f, e1), s1, {"family": "builtin"}))
        # copies of null / non-null sources, then repeated evaluation on the source (the copy must not strip the source's flag)
        for (t1, v1) in allv + [("r", "R:6162"), ("r", "N:r0"), ("t", "Ti1[I:1,I:2]"), ("t", "N:i1"), ("u", "Uu0{i0,s0}(I:1,S:61)")]:
            for how in ("y = x;", "function g(p) return undefined is begin return p; end; z = g(x);", "y = x; y = x;", "t2 = tab(2, x);", "u2 = tup(x, 1);"):
                if ("tab(" in how and (t1 in "tun" )) or ("tup(" in how and t1 in "tun"):
                    continue
                for ex in ("isnull(x)", "x == x", "typeof(x)"):
                    n += 1
                    ops = ["new 0", "set 0 %s %s" % (hx("X"), v1), "prog 0 " + hx(how), "dump 0"]
                    for _ in range(3):
                        ops += ["expr 0 " + hx(ex + ";"), "dump 0"]
                    cases.append(Case("c%d" % n, "", "|".join(ops), {"node": True, "expr": how + " " + ex, "family": "copy", "nomodel": True}))
        # (b) random programs with alias emphasis
        for k in range(300 if quick else 5000):
            g = progen.Gen(self.rng, nvars=2, funcs=(k % 2 == 0), errors=0.05, tables=(0.3 if k % 3 == 1 else 0.0))
            prog = g.program(nstmts=self.rng.randint(4, 8), depth=2)
            # alias candidates: copy every variable, mutate the original, print both
            tail = []
            for t in "idbs":
                a, b = "%s1" % t.upper(), "%s2" % t.upper()
                tail += [("let", b, ("var", a)),
                         ("let", a, {"i": ("bin", "ADD", ("var", a), I(1)), "d": ("bin", "MUL", ("var", a), L("D:4000000000000000")),
                                     "b": ("un", "BNOT", ("var", a)), "s": ("bin", "ADD", ("var", a), S("!"))}[t]),
                         ("print", [("var", a), S("|"), ("var", b)])]
            if g.ptab > 0:
                # containers: copy the table, change the original in place and through an iterator, print both
                for t in "is":
                    a, b = "T%s1" % t.upper(), "T%s2" % t.upper()
                    x = {"i": I(41), "s": S("zz")}[t]
                    tail += [("let", b, ("var", a)), ("do", ("member", "concat", ("var", a), [x])),
                             ("do", ("member", "put", ("var", a), [I(0), x])),
                             ("forall", "%sQ" % t.upper(), ("var", a), "auto", [("let", "%sQ" % t.upper(), x)]),
                             ("print", [("member", "count", ("var", a), []), S("|"), ("member", "count", ("var", b), [])]),
                             ("forall", "%sR" % t.upper(), ("var", b), "auto", [("print", [("var", "%sR" % t.upper())])]),
                             ("let", a, ("call", "tab", [I(2), ("member", "at", ("var", b), [I(0)])])),
                             ("do", ("member", "put", ("var", a), [I(1), x])),
                             ("forall", "%sR" % t.upper(), ("var", b), "desc", [("print", [("var", "%sR" % t.upper())])])]
            n += 1
            cases.append(self.prog_case("c%d" % n, prog + tail, {"family": "random"}))
        self.stats["cases"] = n
        return cases

    def judge(self, c, iraw, m, stderr):
        if not c.meta.get("node"):
            return ProgCheck.judge(self, c, iraw, m, stderr)
        mout = m.get("model") if not c.meta.get("nomodel") else "unmodelled"
        self.distinct.add((c.model_line, c.meta["expr"]))
        if iraw.startswith("crash") or iraw.endswith("diverges"):
            self.tally(c, iraw, m)
            if mout and mout.startswith("hazard"):
                return Check.judge(self, Case(c.cid, c.model_line, c.impl_line, c.meta), iraw, m, stderr)
            return self.record_violation("crash while evaluating `%s`" % c.meta["expr"], c, iraw, m, stderr)
        parts = iraw.split("|")
        dumps = [p.split(" fn=")[0] for p in parts if p.startswith("dump=")]      # the function-context cache size is not script-visible
        evals = [p for p in parts if p.startswith(("ty=", "perr"))]
        self.tally(c, (evals[0].split(" ", 1)[1] if evals and evals[0].startswith("ty=") else (evals[0] if evals else "?")), m)
        if len(self.samples) < 10 and self.rng.random() < 0.003:
            self.samples.append({"expr": c.meta["expr"], "model": mout, "impl": evals[:1], "dump": dumps[0][:120] if dumps else ""})
        if mout is None:
            return self.record_violation("model gave no answer", c, iraw[:100], m)
        for k, d in enumerate(dumps[1:]):
            if d != dumps[0]:
                return self.record_violation("evaluating `%s` (evaluation %d) changed a variable slot: before %s after %s" % (
                    c.meta["expr"], k + 1, dumps[0][:200], d[:200]), c, d[:200], m)
        d0 = parse_dump(dumps[0]) if dumps else None
        if d0:
            for name, (ty, flags, val) in d0["syms"].items():
                if not val.endswith("/l"):
                    return self.record_violation("flag invariant broken: variable %s = %s lacks the LVALUE flag" % (name, val), c, val, m)
        if mout == "unmodelled":
            return
        for k, ev in enumerate(evals):
            if ev.startswith("perr"):
                got = ev
            else:
                got = ev.split(" ", 1)[1]
                got = got.split(" rt=")[0]
            if not outcomes_agree(got, mout):
                return self.record_violation("evaluation %d of `%s` gives %s, the model gives %s" % (k + 1, c.meta["expr"], got, mout), c, got, m)

    def hazard_kf(self, c, hazard):
        ml = c.model_line.split()
        if ml and ml[0] == "bi":
            return "C10.%s.%s" % (ml[1], hazard)
        return None
