"""Program-level correspondence shared by C02, C05–C09: run a program (AST from vlib/progen.py) through the library
(parse + run, captured output, variable dump) and through the Lean interpreter; compare outcome, output, variables."""
import json
import os
import re

from . import progen
from .core import Case, Check, outcomes_agree, VERIF
from .run import hx
from .props.c04 import parse_dump


def strip_flags(v):
    return v.replace("/l", "").replace("/t", "")


class ProgCheck(Check):
    fuel = 200000
    mode = "prog"       # harness op used to run the source: prog | step | capi

    def __init__(self, tier, seed):
        Check.__init__(self, tier, seed)
        # findings of the interpreter-deepening round live in their own file until merged into known_findings.json
        p = os.path.join(VERIF, "known_findings_int.json")
        if os.path.exists(p):
            have = {f["id"] for f in self.findings}
            self.findings += [f for f in json.load(open(p))["findings"] if f["property"] == self.pid and f["id"] not in have]

    def spec_checks(self, c, out_hex, outcome, m):
        """Property-level expectations a generated program carries in its meta (the model follows the CODE, so a defect of
        the code is an agreement of model and implementation that contradicts the expectation):
        meta["same"] = [(tag1, tag2, finding id)]: the printed lines `tag1:<payload>` and `tag2:<payload>` must carry the same payload."""
        same = c.meta.get("same")
        if not same or out_hex is None:
            return
        lines = bytes.fromhex(out_hex).decode("latin-1").split("\n")
        for t1, t2, fid in same:
            l1 = next((x[len(t1) + 1:] for x in lines if x.startswith(t1 + ":")), None)
            l2 = next((x[len(t2) + 1:] for x in lines if x.startswith(t2 + ":")), None)
            if l1 is None or l2 is None:
                continue
            self.stats["spec_pairs"] = self.stats.get("spec_pairs", 0) + 1
            if l1 == l2:
                continue
            entry = next((f for f in self.findings if f["id"] == fid and f.get("status", "known") == "known"), None)
            if entry is None:
                return self.record_violation("implementation and model agree but contradict the property: line %s:%s vs %s:%s (defect region %s is not a listed known finding)"
                                             % (t1, l1, t2, l2, fid), c, outcome, m)
            self.stats["spec_pairs_differ"] = self.stats.get("spec_pairs_differ", 0) + 1
            self.known_hits.setdefault(fid, {"what": entry["what"], "example": c.meta.get("src", "")[:200].replace("\n", " "),
                                             "impl": "%s:%s / %s:%s" % (t1, l1, t2, l2)})

    def prog_case(self, cid, prog, meta=None, pre_ops=(), post_ops=()):
        src = progen.program_src(prog)
        sx = progen.program_sexp(prog)
        impl = "|".join(["new 0"] + list(pre_ops) + ["%s 0 %s" % (self.mode, hx(src)), "out 0", "dump 0"] + list(post_ops))
        m = dict(meta or {})
        m["src"] = src
        m["ast"] = prog
        return Case(cid, "prog %d %s" % (self.fuel, hx(sx)), impl, m)

    def finish(self):
        # shrink the first program-level violation to a minimal program (the replay)
        if self.violations and not getattr(self, "_no_shrink", False):
            v = min(self.violations, key=lambda x: len((x.get("meta") or {}).get("src", "")) or 10 ** 9)
            ast = (v.get("meta") or {}).get("ast")
            if ast:
                try:
                    self._no_shrink = True
                    small = shrink_program(self, tuplify(ast), budget_s=45 if self.tier == "quick" else 180, what=v["what"],
                                           sig=(str(v.get("impl"))[:8], str(v.get("model"))[:8]))
                    v["meta"]["shrunk_src"] = progen.program_src(small)
                    v["meta"]["shrunk_sexp"] = progen.program_sexp(small)
                except Exception as e:  # shrinking is best effort
                    v["meta"]["shrink_error"] = repr(e)
            for x in self.violations:
                if x.get("meta"):
                    x["meta"].pop("ast", None)
        return Check.finish(self)

    def prog2_case(self, cid, prog1, prog2, meta=None):
        """prog1 then prog2 in the same context (prog2 typically probes that the context is still usable)"""
        src1, src2 = progen.program_src(prog1), progen.program_src(prog2)
        impl = "|".join(["new 0", "%s 0 %s" % (self.mode, hx(src1)), "%s 0 %s" % (self.mode, hx(src2)), "out 0", "dump 0"])
        m = dict(meta or {})
        m["src"] = src1 + "-- second program --\n" + src2
        m["two"] = True
        return Case(cid, "progs %d %s %s" % (self.fuel, hx(progen.program_sexp(prog1)), hx(progen.program_sexp(prog2))), impl, m)

    def split_impl(self, c, iraw):
        """-> (outcome, out_hex, dump dict or None)"""
        if iraw.startswith("crash ") or iraw.endswith("diverges"):
            return iraw, None, None
        parts = iraw.split("|")
        outcome = out = dump = None
        for i, p in enumerate(parts):
            if p.startswith("out="):
                out = p[4:]
                outcome = parts[i - 1] if not c.meta.get("two") else parts[i - 2] + ";" + parts[i - 1]
            elif p.startswith("dump="):
                dump = parse_dump(p)
        return outcome, out, dump

    def judge(self, c, iraw, m, stderr):
        if "raw_model" not in m:
            pass
        outcome, out, dump = self.split_impl(c, iraw)
        ans = c.meta.get("_model_raw", "")
        mout = m.get("model")
        self.tally(c, outcome or "?", m)
        if mout is None:
            return self.record_violation("model gave no answer", c, outcome, m)
        # model answer: "<outcome> out=<hex> vars=<...>"
        mm = re.match(r"^(.*?) out=([0-9a-f]*) vars=(.*)$", mout)
        if not mm:
            if mout in ("bad-prog",):
                return self.record_violation("driver could not read the program", c, outcome, m)
            return self.record_violation("unparsable model answer", c, outcome, m)
        moutc, mo, mvars = mm.group(1), mm.group(2), mm.group(3)
        m2 = dict(m)
        m2["model"] = moutc
        key = (c.model_line,)
        self.distinct.add(key)
        if len(self.samples) < 8 and self.rng.random() < 0.01:
            self.samples.append({"source": c.meta.get("src", "")[:600], "impl": outcome, "model": moutc, "out": bytes.fromhex(mo).decode("latin-1")[:200]})
        if moutc in ("unmodelled", "oof"):
            self.stats[moutc] = self.stats.get(moutc, 0) + 1
            return
        if moutc.startswith("hazard "):
            kf = self.hazard_kf(c, moutc.split()[1])
            m2["kf"] = kf
            return Check.judge(self, Case(c.cid, c.model_line, c.impl_line, c.meta), outcome if outcome else iraw, m2, stderr) if False else self.judge_hazard(c, outcome or iraw, m2, stderr)
        if c.meta.get("two") and outcome and ";" in outcome and ";" in moutc:
            ok2 = all(outcomes_agree(a, b) for a, b in zip(outcome.split(";"), moutc.split(";")))
        else:
            ok2 = outcome is not None and outcomes_agree(outcome, moutc)
        if not ok2:
            return self.record_violation("program outcome differs from the model", c, outcome, m2, stderr)
        if out != mo:
            m2["spec"] = None
            return self.record_violation("printed output differs from the model: impl %r model %r" % (
                bytes.fromhex(out or "").decode("latin-1")[:300], bytes.fromhex(mo).decode("latin-1")[:300]), c, outcome, m2)
        self.spec_checks(c, out, outcome, m2)
        if dump is not None and mvars:
            for ent in mvars.split(";"):
                name, _, val = ent.partition(":")
                got = dump["syms"].get(name)
                if got is None:
                    if c.meta.get("family") == "stepwise":
                        continue        # statement-at-a-time: a statement after the one that ended the run was never compiled
                    return self.record_violation("variable %s missing in the implementation" % name, c, outcome, m2)
                if strip_flags(got[2]) != val:
                    return self.record_violation("variable %s = %s, the model gives %s" % (name, strip_flags(got[2]), val), c, outcome, m2)
            self.extra_dump_checks(c, dump, m2, outcome)

    def judge_hazard(self, c, outcome, m2, stderr):
        kf = m2.get("kf")
        entry = next((f for f in self.findings if f["id"] == kf and f.get("status", "known") == "known"), None) if kf else None
        if entry is not None and outcomes_agree(outcome, m2["model"]):
            self.known_hits.setdefault(kf, {"what": entry["what"], "example": c.meta.get("src", "")[:120].replace("\n", " "), "impl": outcome})
            return
        return self.record_violation("model reaches a C-level hazard (%s) that is not a listed known finding" % m2["model"], c, outcome, m2, stderr)

    def extra_dump_checks(self, c, dump, m, outcome):
        """after a run that returned to the host: no control state may survive (C06/C07)"""
        if dump["cd"] != 0 or dump["ed"] != 0 or dump["tmp"] != 0:
            return self.record_violation("residue after the run: control depth %d, exec depth %d, temporaries %d" % (dump["cd"], dump["ed"], dump["tmp"]), c, outcome, m)
        for name, (ty, flags, val) in dump["syms"].items():
            if not val.endswith("/l"):
                return self.record_violation("flag invariant broken: variable %s = %s does not carry the LVALUE flag after the run" % (name, val), c, outcome, m)
            if flags != "s0l0" and not name.startswith("$"):
                return self.record_violation("symbol %s keeps constraint flags %s after the run" % (name, flags), c, outcome, m)


# ---------------------------------------------------------------------------------------------- shrinking
def _variants(prog):
    for v in _variants0(prog):
        yield v if v else [("nop",)]


def _variants0(prog):
    """programs obtained by deleting one statement or replacing a compound statement by (part of) its body"""
    for i, s in enumerate(prog):
        yield prog[:i] + prog[i + 1:]
        k = s[0]
        if k == "if":
            for c, body in s[1]:
                yield prog[:i] + list(body) + prog[i + 1:]
            for j, (c, body) in enumerate(s[1]):
                for b2 in _variants(list(body)):
                    yield prog[:i] + [("if", s[1][:j] + [(c, b2)] + s[1][j + 1:])] + prog[i + 1:]
                if len(s[1]) > 1:
                    yield prog[:i] + [("if", s[1][:j] + s[1][j + 1:])] + prog[i + 1:] if j > 0 else prog
        elif k == "while":
            for b2 in _variants(list(s[2])):
                yield prog[:i] + [("while", s[1], b2)] + prog[i + 1:]
        elif k == "for":
            yield prog[:i] + list(s[6]) + prog[i + 1:]
            for b2 in _variants(list(s[6])):
                yield prog[:i] + [s[:6] + (b2,)] + prog[i + 1:]
        elif k == "forall":
            for b2 in _variants(list(s[4])):
                yield prog[:i] + [s[:4] + (b2,)] + prog[i + 1:]
        elif k == "begin":
            yield prog[:i] + list(s[1]) + prog[i + 1:]
            for b2 in _variants(list(s[1])):
                yield prog[:i] + [("begin", b2, s[2])] + prog[i + 1:]
            for j, (nme, body) in enumerate(s[2]):
                yield prog[:i] + [("begin", s[1], s[2][:j] + s[2][j + 1:])] + prog[i + 1:]
                for b2 in _variants(list(body)):
                    yield prog[:i] + [("begin", s[1], s[2][:j] + [(nme, b2)] + s[2][j + 1:])] + prog[i + 1:]
        elif k == "func":
            for b2 in _variants(list(s[4])):
                yield prog[:i] + [s[:4] + (b2, s[5])] + prog[i + 1:]
            if s[5]:
                yield prog[:i] + [s[:5] + ([],)] + prog[i + 1:]


def tuplify(x):
    if isinstance(x, list):
        return [tuplify(y) for y in x]
    if isinstance(x, tuple):
        return tuple(tuplify(y) for y in x)
    return x


def shrink_program(check, prog, budget_s=60, what="", sig=None):
    """Greedy delta-debugging: keep deleting while the implementation and the model still disagree."""
    import time
    from . import build, run
    hbin = build.harness_build(check.harness)
    t0 = time.time()

    def fails(p):
        try:
            c = check.prog_case("s0", p)
        except Exception:
            return False
        impl = run.run_harness(hbin, ["s0 " + c.impl_line], timeout_s=5, workers=1)
        model = run.run_driver(["s0 " + c.model_line], workers=1, timeout_s=20)
        if "#driver-error" in model:
            import sys
            print("[shrink] driver timeout on:\n" + progen.program_src(p), file=sys.stderr)
            return False
        probe = type(check)(check.tier, check.seed)
        from .core import parse_model
        probe.judge(c, impl.get("s0", "crash ?"), parse_model(model.get("s0", "")), "")
        if not (bool(probe.violations) and bool(p) and probe.violations[0]["what"][:25] == what[:25]):
            return False
        v0 = probe.violations[0]
        return sig is None or (str(v0.get("impl"))[:8], str(v0.get("model"))[:8]) == sig

    cur = list(prog)
    improved = True
    while improved and time.time() - t0 < budget_s:
        improved = False
        for v in _variants(cur):
            if time.time() - t0 > budget_s:
                break
            if len(progen.program_src(v)) >= len(progen.program_src(cur)):
                continue
            if fails(v):
                cur = v
                improved = True
                break
    return cur
