"""Structured random BLOC programs for the program-level correspondence.

A program is a Python AST (nested tuples) rendered twice from the same tree: as BLOC source for the harness and
as an S-expression for the Lean interpreter (lean/BlocV/SExp.lean). Generation is type-directed: every variable
has one type for its whole life (prefix i/d/b/s), so programs are statically well typed and conditions are not
constant; errors (division by zero, out of range, user exceptions) are injected deliberately and rarely.

Expr:  ("lit", V) ("var", NAME) ("un", OP, e) ("bin", OP, a, b) ("call", name, [e]) ("fcall", NAME, [e])
       ("member", name, recv, [e]) ("error",) ("item", N, e)        -- `error`, `e@N`
Stmt:  ("nop",) ("let", NAME, e) ("do", e) ("print", [e]) ("if", [(cond|None, [stmt])]) ("while", e, [stmt])
       ("for", NAME, b, e, step|None, dir, [stmt]) ("begin", [stmt], [(NAME, [stmt])]) ("raise", NAME)
       ("forall", ITER, src, dir, [stmt])
       ("return", e|None) ("break",) ("continue",) ("func", NAME, [param], rettype, [stmt], [(NAME, [stmt])])
"""
import struct

BINSRC = {"ADD": "+", "SUB": "-", "MUL": "*", "DIV": "/", "MOD": "%", "EXP": "**", "AND": "&", "IOR": "|", "XOR": "^",
          "POP": "<<", "PUS": ">>", "EQ": "==", "NE": "!=", "LT": "<", "LE": "<=", "GT": ">", "GE": ">=", "BAND": "and",
          "BIOR": "or", "BXOR": "xor"}
UNSRC = {"NEG": "-", "POS": "+", "NOT": "~", "BNOT": "not "}
TYPENAME = {"i": "integer", "d": "decimal", "b": "boolean", "s": "string", "?": "undefined"}


def dbits(x):
    return struct.unpack("<Q", struct.pack("<d", x))[0]


def lit_src(v):
    k = v[0]
    if v.startswith("N:"):
        return {"?0": "null", "i0": "int()", "d0": "num()", "b0": "bool()", "s0": "str()", "r0": "raw()"}[v[2:]]
    if k == "I":
        n = int(v[2:])
        return str(n) if n >= 0 else "(%d)" % n
    if k == "D":
        x = struct.unpack("<d", struct.pack("<Q", int(v[2:], 16)))[0]
        r = repr(x)
        if "e" in r or "inf" in r or "nan" in r:
            raise ValueError("decimal literal not renderable: " + r)
        return r if x >= 0 else "(%s)" % r
    if k == "B":
        return "true" if v == "B:1" else "false"
    if k == "S":
        bs = bytes.fromhex(v[2:])
        out = '"'
        for c in bs:
            ch = chr(c)
            if ch == '"':
                out += '\\"'
            elif ch == "\\":
                out += "\\\\"
            elif ch == "\n":
                out += "\\n"
            elif ch == "\t":
                out += "\\t"
            else:
                out += ch
        return out + '"'
    raise ValueError(v)


def expr_src(e):
    k = e[0]
    if k == "lit":
        return lit_src(e[1])
    if k == "var":
        return e[1].lower()
    if k == "un":
        return "(%s%s)" % (UNSRC[e[1]], expr_src(e[2]))
    if k == "bin":
        return "(%s %s %s)" % (expr_src(e[2]), BINSRC[e[1]], expr_src(e[3]))
    if k == "call":
        if e[1] in ("pi", "ee", "phi") and not e[2]:
            return e[1]                      # constants are keywords without an argument list
        return "%s(%s)" % (e[1], ", ".join(expr_src(a) for a in e[2]))
    if k == "fcall":
        return "%s(%s)" % (e[1].lower(), ", ".join(expr_src(a) for a in e[2]))
    if k == "member":
        return "%s.%s(%s)" % (expr_src(e[2]), e[1], ", ".join(expr_src(a) for a in e[3]))
    if k == "error":
        return "error"
    if k == "item":
        return "%s@%d" % (expr_src(e[2]), e[1])
    raise ValueError(e)


def expr_sexp(e):
    k = e[0]
    if k == "lit":
        return "(lit %s)" % e[1]
    if k == "var":
        return "(var %s)" % e[1]
    if k == "un":
        return "(un %s %s)" % (e[1], expr_sexp(e[2]))
    if k == "bin":
        return "(bin %s %s %s)" % (e[1], expr_sexp(e[2]), expr_sexp(e[3]))
    if k == "call":
        return "(call %s %s)" % (e[1], " ".join(expr_sexp(a) for a in e[2]))
    if k == "fcall":
        return "(fcall %s %s)" % (e[1], " ".join(expr_sexp(a) for a in e[2]))
    if k == "member":
        return "(member %s %s %s)" % (e[1], expr_sexp(e[2]), " ".join(expr_sexp(a) for a in e[3]))
    if k == "error":
        return "(error)"
    if k == "item":
        return "(item %d %s)" % (e[1], expr_sexp(e[2]))
    raise ValueError(e)


def stmts_src(ss, ind):
    return "".join(stmt_src(s, ind) for s in ss)


def whens_src(whens, ind):
    if not whens:
        return ""
    pad = "  " * ind
    out = pad + "exception\n"
    for name, body in whens:
        out += pad + "  when %s then\n" % name.lower() + stmts_src(body, ind + 2)
    return out


def stmt_src(s, ind=0):
    pad = "  " * ind
    k = s[0]
    if k == "nop":
        return pad + "nop;\n"
    if k == "let":
        return pad + "%s = %s;\n" % (s[1].lower(), expr_src(s[2]))
    if k == "do":
        return pad + "do %s;\n" % expr_src(s[1])
    if k == "print":
        # a bare name followed by "(" would read as a function call: parenthesise every item
        return pad + "print %s;\n" % " ".join("(%s)" % expr_src(e) if e[0] in ("var", "lit", "item") else expr_src(e) for e in s[1])
    if k == "if":
        out = ""
        for n, (c, body) in enumerate(s[1]):
            if n == 0:
                out += pad + "if %s then\n" % expr_src(c)
            elif c is None:
                out += pad + "else\n"
            else:
                out += pad + "elsif %s then\n" % expr_src(c)
            out += stmts_src(body, ind + 1)
        return out + pad + "end if;\n"
    if k == "while":
        return pad + "while %s loop\n" % expr_src(s[1]) + stmts_src(s[2], ind + 1) + pad + "end loop;\n"
    if k == "for":
        _, v, b, e, st, d, body = s
        hdr = "for %s in %s to %s" % (v.lower(), expr_src(b), expr_src(e))
        if st is not None:
            hdr += " step %s" % expr_src(st)
        if d != "auto":
            hdr += " " + d
        return pad + hdr + " loop\n" + stmts_src(body, ind + 1) + pad + "end loop;\n"
    if k == "forall":
        _, it, src, d, body = s
        return (pad + "forall %s in %s %sloop\n" % (it.lower(), expr_src(src), "" if d == "auto" else d + " ")
                + stmts_src(body, ind + 1) + pad + "end loop;\n")
    if k == "begin":
        return pad + "begin\n" + stmts_src(s[1], ind + 1) + whens_src(s[2], ind) + pad + "end;\n"
    if k == "raise":
        return pad + "raise %s;\n" % s[1].lower()
    if k == "return":
        return pad + ("return;\n" if s[1] is None else "return %s;\n" % expr_src(s[1]))
    if k == "break":
        return pad + "break;\n"
    if k == "continue":
        return pad + "continue;\n"
    if k == "func":
        _, n, ps, rt, body, whens = s
        # parameters are declared with their type (name prefix): an untyped parameter is opaque and makes
        # e.g. `1 - p` statically decimal
        return (pad + "function %s(%s) return %s is\nbegin\n" % (n.lower(), ", ".join(("%s:%s" % (p.lower(), TYPENAME[p[0].lower()])) if p[0].lower() in "idbs" else p.lower() for p in ps), TYPENAME[rt])
                + stmts_src(body, ind + 1) + whens_src(whens, ind) + pad + "end;\n")
    raise ValueError(s)


def stmts_sexp(ss):
    return " ".join(stmt_sexp(s) for s in ss)


def whens_sexp(whens):
    return "".join(" (when %s %s)" % (n, stmts_sexp(b)) for n, b in whens)


def stmt_sexp(s):
    k = s[0]
    if k in ("nop", "break", "continue"):
        return "(%s)" % k
    if k == "let":
        return "(let %s %s)" % (s[1], expr_sexp(s[2]))
    if k == "do":
        return "(do %s)" % expr_sexp(s[1])
    if k == "print":
        return "(print %s)" % " ".join(expr_sexp(e) for e in s[1])
    if k == "if":
        return "(if %s)" % " ".join("(%s %s)" % ("else" if c is None else expr_sexp(c), stmts_sexp(b)) for c, b in s[1])
    if k == "while":
        return "(while %s %s)" % (expr_sexp(s[1]), stmts_sexp(s[2]))
    if k == "for":
        _, v, b, e, st, d, body = s
        return "(for %s %s %s %s %s %s)" % (v, expr_sexp(b), expr_sexp(e), "-" if st is None else expr_sexp(st), d, stmts_sexp(body))
    if k == "forall":
        _, it, src, d, body = s
        return "(forall %s %s %s %s)" % (it, expr_sexp(src), d, stmts_sexp(body))
    if k == "begin":
        return "(begin (body %s)%s)" % (stmts_sexp(s[1]), whens_sexp(s[2]))
    if k == "raise":
        return "(raise %s)" % s[1]
    if k == "return":
        return "(return %s)" % ("-" if s[1] is None else expr_sexp(s[1]))
    if k == "func":
        _, n, ps, rt, body, whens = s
        tyc = {"i": "i0", "d": "d0", "b": "b0", "s": "s0", "?": "?0"}
        return "(func %s (%s) %s (body %s)%s)" % (n, " ".join("(%s %s)" % (p, tyc.get(p[0].lower(), "?0")) for p in ps), tyc[rt],
                                                  stmts_sexp(body), whens_sexp(whens))
    raise ValueError(s)


def program_src(prog):
    return stmts_src(prog, 0)


def program_sexp(prog):
    return stmts_sexp(prog)


# ---------------------------------------------------------------------------------------------- generator
def L(v):
    return ("lit", v)


def I(n):
    return L("I:%d" % n)


def S(text):
    return L("S:" + text.encode().hex())


def ERRITEM(n):
    return ("item", n, ("error",))


def ERRPRINT(tag):
    """print "<tag>" error@1 error@2 error@3;"""
    return ("print", [S(tag + ":"), ERRITEM(1), S("|"), ERRITEM(2), S("|"), ERRITEM(3)])


class Gen:
    """Type-directed random program generator (one PRNG; every choice derives from it)."""

    EXC = ["E1", "E2", "OUT_OF_RANGE", "DIVIDE_BY_ZERO"]

    def __init__(self, rng, nvars=3, funcs=True, errors=0.08, tables=0.0, errrec=0.0, extras=0.0, mathx=0.0):
        self.r = rng
        self.pextras = extras   # share of boolean expressions that are isnull(<expression of any type>); 0: none
        self.pmathx = mathx     # share of expressions built from the built-ins of Builtins.evalBuiltinX (num, isnum, bool, typeof, sign,
                                # floor, ceil, round, max, min, mod, clamp, sqrt, pi/ee/phi); 0: none
        self.perrrec = errrec   # share of string/integer expressions that read the error record (error@1/@2, error@3); 0: none
        self.ptab = tables      # share of statements working on tables (0: none; tables live in the main program only)
        self.tabs_on = False
        self.locked = set()     # tables being traversed by an enclosing forall: no statement may change them
        self.iters = []         # (iterator name, writable) of the enclosing foralls, innermost last
        self.nvars = nvars
        self.use_funcs = funcs
        self.perr = errors
        self.funcs = []     # (NAME, [param types], rettype)
        self.loopvar = 0
        self.stats = {}

    def count(self, k):
        self.stats[k] = self.stats.get(k, 0) + 1

    def var(self, t):
        return "%s%d" % (t.upper(), self.r.randint(1, self.nvars))

    # ---- expressions
    def expr(self, t, depth, scope):
        r = self.r
        if depth <= 0 or r.random() < 0.25:
            if r.random() < 0.55:
                vs = [v for v in scope if v[0].lower() == t]
                if vs:
                    return ("var", r.choice(vs))
            return self.literal(t)
        if self.perrrec and t in "is" and r.random() < self.perrrec:
            self.count("error-item")
            return ERRITEM(r.choice([1, 2])) if t == "s" else ERRITEM(3)
        if self.tabs_on and t in "is" and r.random() < 0.12:
            tv = "T%s%d" % (t.upper(), r.randint(1, 2))
            self.count("table-read")
            if t == "i" and r.random() < 0.4:
                return ("member", "count", ("var", tv), [])
            return ("member", "at", ("var", tv), [I(r.choice([0, 0, 1, 1, 2, 3, -1]) if r.random() > self.perr else 9)])
        if self.pmathx and r.random() < self.pmathx:
            return self.mathx_expr(t, depth - 1, scope)
        return getattr(self, "expr_" + t)(depth - 1, scope)

    def table_stmt(self, depth, scope, inloop, infunc):
        """a statement on the table variables TI1 TI2 TS1 TS2 (element type = second letter)"""
        r = self.r
        t = r.choice("is")
        free = [v for v in ("T%s1" % t.upper(), "T%s2" % t.upper()) if v not in self.locked]
        c = r.random()
        if c < 0.40 and depth > 0:
            # forall over a variable (mostly) or over a temporary table
            self.count("forall")
            self.loopvar += 1
            it = "%sE%d" % (t.upper(), self.loopvar)
            if r.random() < 0.85:
                tv = "T%s%d" % (t.upper(), r.randint(1, 2))
                src = ("var", tv)
                writable = tv not in self.locked
            else:
                tv = None
                src = ("call", "tab", [I(r.choice([0, 1, 2, 3])), self.expr(t, 1, scope)])
                writable = True
            d = r.choice(["auto", "auto", "asc", "desc"])
            was_locked = tv in self.locked
            if tv:
                self.locked.add(tv)
            self.iters.append((it, writable, t))
            sc2 = set(scope) | {it}
            body = [("print", [("var", it)])] if r.random() < 0.6 else []
            body += self.block(3, depth - 1, sc2, True, infunc)
            self.iters.pop()
            if tv and not was_locked:
                self.locked.discard(tv)
            scope.add(it)
            return ("forall", it, src, d, body)
        if c < 0.50 and self.iters:
            ws = [x for x in self.iters if x[1]]
            if ws:
                it, _, et = r.choice(ws)
                self.count("iter-write")
                return ("let", it, self.expr(et, 2, scope))
        if not free:
            return ("print", [("member", "count", ("var", "T%s1" % t.upper()), [])])
        tv = r.choice(free)
        idx = lambda: I(r.choice([0, 0, 1, 1, 2, 3]) if r.random() > self.perr else r.choice([-1, 7]))
        if c < 0.60:
            self.count("tab-new")
            n = I(r.choice([0, 1, 2, 3, 4])) if r.random() > 0.05 else L("N:i0")
            return ("let", tv, ("call", "tab", [n, self.expr(t, 2, scope)]))
        if c < 0.68:
            self.count("tab-copy")
            other = "T%s%d" % (t.upper(), 3 - int(tv[2]))
            return ("let", tv, ("var", other))
        self.count("tab-mutate")
        m = r.choice(["concat", "concat", "put", "insert", "delete"])
        if m == "concat":
            return ("do", ("member", "concat", ("var", tv), [self.expr(t, 2, scope)]))
        if m == "delete":
            return ("do", ("member", "delete", ("var", tv), [idx()]))
        return ("do", ("member", m, ("var", tv), [idx(), self.expr(t, 2, scope)]))

    def literal(self, t):
        r = self.r
        if r.random() < 0.04:
            # typed nulls only: an untyped `null` makes the static type of the expression (and of the
            # assigned variable) opaque, which the type-directed generation does not track
            return L({"i": "N:i0", "d": "N:d0", "b": "N:b0", "s": "N:s0"}[t])
        if t == "i":
            return I(r.choice([0, 1, 2, 3, 5, 7, 10, -1, -2, -7, 100, 255, 2 ** 31, 2 ** 62 + 3, -(2 ** 40)]))
        if t == "d":
            return L("D:%016x" % dbits(r.choice([0.0, 0.5, 1.0, 1.25, 2.0, -0.75, 3.5, 10.0, -2.5, 1024.0, 0.125])))
        if t == "b":
            return L(r.choice(["B:1", "B:0"]))
        return S(r.choice(["", "a", "ab", "Hello", " x ", "a,b,c", "ABC", "0x1F", "42", "  7", "é"]))

    def mathx_expr(self, t, d, sc):
        """an expression of type t whose top is a built-in of evalBuiltinX (type-directed: the static result type is t)"""
        r = self.r
        E = lambda ty: self.expr(ty, d, sc)
        if t == "i":
            f = r.choice(["sign", "max", "min", "mod", "clamp"])
            self.count("mathx-" + f)
            if f == "sign":
                return ("call", "sign", [E("i")])
            if f in ("max", "min"):
                return ("call", f, [E("i"), E("i")])
            if f == "mod":
                return ("call", "mod", [E("i"), E("i") if r.random() < self.perr * 3 else I(r.choice([1, 2, 3, 7, -2, -5]))])
            return ("call", "clamp", [E("i"), I(r.choice([-3, 0, 1])), I(r.choice([1, 5, 100]))])
        if t == "d":
            f = r.choice(["num", "floor", "ceil", "round", "sign", "max", "min", "mod", "clamp", "sqrt", "const"])
            self.count("mathx-" + f)
            if f == "num":
                return ("call", "num", [E(r.choice(["i", "d", "b"])) if r.random() > self.perr * 2 else E("s")])
            if f in ("floor", "ceil", "round", "sign"):
                return ("call", f, [E("d")])
            if f in ("max", "min"):
                a, b = r.choice([("d", "d"), ("d", "i"), ("i", "d")])
                return ("call", f, [E(a), E(b)])
            if f == "mod":
                return ("call", "mod", [E("d"), E("d") if r.random() < self.perr * 3 else L("D:%016x" % dbits(r.choice([2.0, 0.5, -1.5, 3.0])))])
            if f == "clamp":
                return ("call", "clamp", [E("d"), L("D:%016x" % dbits(r.choice([-1.0, 0.0, 0.5]))), L("D:%016x" % dbits(r.choice([1.0, 2.5, 100.0])))])
            if f == "sqrt":
                x = E("d")
                return ("call", "sqrt", [("bin", "MUL", x, x)])
            return ("call", r.choice(["pi", "ee", "phi"]), [])
        if t == "b":
            f = r.choice(["isnum", "bool"])
            self.count("mathx-" + f)
            if f == "isnum":
                return ("call", "isnum", [E(r.choice(["s", "s", "i", "d"]))])
            return ("call", "bool", [E(r.choice(["i", "d", "b"]))])
        self.count("mathx-typeof")
        return ("call", "typeof", [E(r.choice("idbs"))])

    def expr_i(self, d, sc):
        r = self.r
        c = r.random()
        if c < 0.45:
            op = r.choice(["ADD", "SUB", "MUL", "ADD", "SUB", "AND", "IOR", "XOR"])
            return ("bin", op, self.expr("i", d, sc), self.expr("i", d, sc))
        if c < 0.55:
            op = r.choice(["DIV", "MOD"])
            den = self.expr("i", d, sc) if r.random() < self.perr * 3 else I(r.choice([1, 2, 3, 7, -2, -1]))
            return ("bin", op, self.expr("i", d, sc), den)
        if c < 0.62:
            return ("bin", r.choice(["POP", "PUS"]), self.expr("i", d, sc), I(r.choice([0, 1, 3, 8, 63, 64, -1, -4, 70])))
        if c < 0.67:
            return ("bin", "EXP", self.expr("i", d, sc), I(r.choice([0, 1, 2, 3, 5])))
        if c < 0.74:
            return ("un", r.choice(["NEG", "NOT"]), self.expr("i", d, sc))
        if c < 0.82:
            return ("call", "strlen", [self.expr("s", d, sc)])
        if c < 0.86:
            return ("call", "strpos", [self.expr("s", d, sc), self.expr("s", d, sc)])
        if c < 0.90:
            return ("call", "int", [self.expr(r.choice(["d", "b", "i"]), d, sc)])
        return self.fcall("i", d, sc) or self.literal("i")

    def expr_d(self, d, sc):
        r = self.r
        c = r.random()
        if c < 0.5:
            op = r.choice(["ADD", "SUB", "MUL"])
            a, b = r.choice([("d", "d"), ("d", "i"), ("i", "d")])
            return ("bin", op, self.expr(a, d, sc), self.expr(b, d, sc))
        if c < 0.65:
            den = self.expr("d", d, sc) if r.random() < self.perr * 3 else L("D:%016x" % dbits(r.choice([2.0, 0.5, 4.0, -8.0])))
            return ("bin", "DIV", self.expr(r.choice(["d", "i"]), d, sc), den)
        if c < 0.75:
            return ("un", "NEG", self.expr("d", d, sc))
        return self.fcall("d", d, sc) or self.literal("d")

    def expr_b(self, d, sc):
        r = self.r
        if self.pextras and r.random() < self.pextras:
            self.count("isnull")
            return ("call", "isnull", [self.expr(r.choice("idbs"), d, sc)])
        c = r.random()
        if c < 0.4:
            t = r.choice(["i", "i", "d", "s"])
            return ("bin", r.choice(["EQ", "NE", "LT", "LE", "GT", "GE"]), self.expr(t, d, sc), self.expr(t, d, sc))
        if c < 0.7:
            return ("bin", r.choice(["BAND", "BIOR", "BXOR"]), self.expr("b", d, sc), self.expr("b", d, sc))
        if c < 0.8:
            return ("un", "BNOT", self.expr("b", d, sc))
        return self.fcall("b", d, sc) or self.literal("b")

    def expr_s(self, d, sc):
        r = self.r
        c = r.random()
        if c < 0.3:
            return ("bin", "ADD", self.expr("s", d, sc), self.expr("s", d, sc))
        if c < 0.45:
            # positions clamped to a small range: INT64_MIN as a position is a recorded C10 hazard, not this stream's subject
            pos = lambda: ("bin", "MOD", self.expr("i", d, sc), I(16))
            return ("call", "substr", [self.expr("s", d, sc), pos()] + ([pos()] if r.random() < 0.6 else []))
        if c < 0.6:
            return ("call", r.choice(["upper", "lower", "trim", "ltrim", "rtrim"]), [self.expr("s", d, sc)])
        if c < 0.72:
            return ("call", "str", [self.expr(r.choice(["i", "b", "d", "s"]), d, sc)])
        if c < 0.78:
            return ("call", "replace", [self.expr("s", d, sc), S(r.choice(["a", "b", ",", " "])), S(r.choice(["", "x", "yy"]))])
        if c < 0.82:
            code = self.expr("i", d, sc) if r.random() < self.perr * 2 else I(r.choice([65, 66, 97, 48, 32]))
            return ("call", "chr", [code])
        if c < 0.86:
            return ("call", r.choice(["lsubstr", "rsubstr"]), [self.expr("s", d, sc), self.expr("i", d, sc)])
        return self.fcall("s", d, sc) or self.literal("s")

    def fcall(self, t, d, sc):
        cands = [f for f in self.funcs if f[2] == t]
        if not cands or not self.use_funcs:
            return None
        f = self.r.choice(cands)
        self.count("fcall")
        return ("fcall", f[0], [self.expr(pt, d, sc) for pt in f[1]])

    # ---- statements
    def block(self, n, depth, scope, inloop, infunc):
        return [self.stmt(depth, scope, inloop, infunc) for _ in range(self.r.randint(1, n))]

    def stmt(self, depth, scope, inloop, infunc):
        r = self.r
        if self.tabs_on and r.random() < self.ptab:
            return self.table_stmt(depth, scope, inloop, infunc)
        c = r.random()
        if depth <= 0:
            c = c * 0.45
        if c < 0.30:
            t = r.choice("idbs")
            v = self.var(t)
            self.count("let")
            # inside a loop a string is never built from string variables (s = s + s doubles per iteration: nested loops
            # would need gigabytes on both sides)
            e = self.expr(t, 2, scope if not (inloop and t == "s") else {x for x in scope if x[0].lower() != "s"})
            scope.add(v)
            return ("let", v, e)
        if c < 0.45:
            self.count("print")
            return ("print", [self.expr(r.choice("idbs"), 2, scope) for _ in range(r.randint(1, 2))])
        if c < 0.58:
            self.count("if")
            rules = [(self.expr("b", 2, scope), self.block(2, depth - 1, scope, inloop, infunc))]
            if r.random() < 0.3:
                rules.append((self.expr("b", 1, scope), self.block(2, depth - 1, scope, inloop, infunc)))
            if r.random() < 0.5:
                rules.append((None, self.block(2, depth - 1, scope, inloop, infunc)))
            return ("if", rules)
        if c < 0.68:
            self.count("for")
            self.loopvar += 1
            v = "K%d" % self.loopvar
            b = self.expr("i", 1, scope) if r.random() < 0.3 else I(r.choice([0, 1, 3, -2, 5]))
            e = self.expr("i", 1, scope) if r.random() < 0.2 else I(r.choice([0, 2, 4, -3, 6, 1]))
            # keep loops short: bounds are small literals, or arbitrary expressions clamped through % 8
            small = ("I:0", "I:1", "I:3", "I:-2", "I:5", "I:2", "I:4", "I:-3", "I:6")
            if not (b[0] == "lit" and b[1] in small):
                b = ("bin", "MOD", b, I(8))
            if not (e[0] == "lit" and e[1] in small):
                e = ("bin", "MOD", e, I(8))
            st = None if r.random() < 0.6 else (I(r.choice([1, 2, 3])) if r.random() > self.perr else I(r.choice([0, -1])))
            d = r.choice(["auto", "auto", "asc", "desc"])
            sc2 = set(scope) | {v}
            body = self.block(3, depth - 1, sc2, True, infunc)
            scope.add(v)
            return ("for", v, b, e, st, d, body)
        if c < 0.75:
            self.count("while")
            self.loopvar += 1
            w = "W%d" % self.loopvar
            cond = ("bin", "BAND", ("bin", "LT", ("var", w), I(r.choice([1, 2, 4]))), self.expr("b", 1, scope | {w}))
            body = [("let", w, ("bin", "ADD", ("var", w), I(1)))] + self.block(3, depth - 1, scope | {w}, True, infunc)
            scope.add(w)
            return ("begin", [("let", w, I(0)), ("while", cond, body)], [])
        if c < 0.85:
            self.count("begin")
            body = self.block(3, depth - 1, scope, inloop, infunc)
            whens = []
            names = r.sample(self.EXC + ["OTHERS"], r.randint(0, 2))
            if "OTHERS" in names:      # conventional position last, sometimes first
                names.remove("OTHERS")
                names = names + ["OTHERS"] if r.random() < 0.7 else ["OTHERS"] + names
            for nme in names:
                hb = self.block(2, depth - 1, scope, inloop, infunc)
                if self.perrrec and r.random() < 0.6:
                    # the clause reports its error first, and (sometimes) again at its end: after whatever inner blocks it ran
                    self.count("handler-reports-error")
                    hb = [ERRPRINT("h")] + hb + ([ERRPRINT("h-end")] if r.random() < 0.5 else [])
                whens.append((nme, hb))
            if self.perrrec and r.random() < 0.3:
                self.count("error-read-after-block")
                return ("begin", [("begin", body, whens), ERRPRINT("after")], [])
            return ("begin", body, whens)
        if c < 0.89:
            self.count("raise")
            return ("raise", r.choice(self.EXC))
        if c < 0.93 and inloop:
            self.count("break/continue")
            return (r.choice(["break", "continue"]),)
        if c < 0.96 and (infunc or r.random() < 0.3):
            self.count("return")
            return ("return", self.expr(infunc if infunc and infunc != "?" else r.choice("idbs"), 1, scope))
        self.count("let")
        t = r.choice("idbs")
        v = self.var(t)
        e = self.expr(t, 2, scope if not (inloop and t == "s") else {x for x in scope if x[0].lower() != "s"})
        scope.add(v)
        return ("let", v, e)

    def function(self, idx):
        r = self.r
        rt = r.choice("idbs")
        ps = [r.choice("idbs") for _ in range(r.randint(0, 2))]
        name = "F%d" % idx
        pnames = ["%s%d" % (t.upper(), 7 + k) for k, t in enumerate(ps)]
        scope = set(pnames)
        saved = self.nvars
        tabs_saved, self.tabs_on = self.tabs_on, False
        body = self.block(3, 2, scope, False, rt)
        body.append(("return", self.expr(rt, 1, scope)))
        whens = []
        if r.random() < 0.3:
            whens.append((r.choice(self.EXC + ["OTHERS"]), [("return", self.expr(rt, 1, scope))]))
        elif self.perrrec and r.random() < 0.4:
            # a clause that fails in turn: the record of the function's (recycled) context stays set
            self.count("function-clause-fails")
            whens.append((r.choice(self.EXC + ["OTHERS"]), [ERRPRINT("fh"), ("raise", r.choice(self.EXC))]))
        if self.perrrec and r.random() < 0.5:
            self.count("function-reads-error")
            body.insert(0, ERRPRINT("f-entry"))
        self.nvars = saved
        self.tabs_on = tabs_saved
        f = ("func", name, pnames, rt, body, whens)
        self.funcs.append((name, ps, rt))
        return f

    def program(self, nstmts=6, depth=3):
        prog = []
        if self.use_funcs:
            for k in range(self.r.randint(0, 3)):
                prog.append(self.function(k + 1))
        scope = set()
        # every variable initialised once so that its static type is fixed
        for t in "idbs":
            for k in range(1, self.nvars + 1):
                v = "%s%d" % (t.upper(), k)
                prog.append(("let", v, self.literal(t) if self.r.random() < 0.9 else L({"i": "N:i0", "d": "N:d0", "b": "N:b0", "s": "N:s0"}[t])))
                scope.add(v)
        if self.ptab > 0:
            self.tabs_on = True
            for t in "is":
                for k in (1, 2):
                    prog.append(("let", "T%s%d" % (t.upper(), k), ("call", "tab", [I(self.r.choice([0, 1, 2, 3])), self.literal(t)])))
        for _ in range(nstmts):
            prog.append(self.stmt(depth, scope, False, None))
        return prog
