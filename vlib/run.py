"""Run case lines through the probe harness (with crash recovery) and through the Lean driver."""
import os
import re
import subprocess
import tempfile
import time
from concurrent.futures import ThreadPoolExecutor

from . import build


def hx(s):
    if isinstance(s, str):
        s = s.encode("latin-1")
    return s.hex()


def unhx(h):
    return bytes.fromhex(h)


_CRASH_PATTERNS = [
    (r"signed integer overflow", "ubsan:signed-integer-overflow"),
    (r"negation of -?\d+ cannot be represented", "ubsan:signed-integer-overflow"),
    (r"shift exponent", "ubsan:shift"),
    (r"left shift of", "ubsan:shift"),
    (r"outside the range of representable values", "ubsan:float-cast-overflow"),
    (r"division of .* by -1 cannot be represented", "ubsan:div-overflow"),
    (r"division by zero", "ubsan:div-by-zero"),
    (r"null pointer|member call on null|load of null|reference binding to null|member access within null", "ubsan:null"),
    (r"runtime error: index .* out of bounds", "ubsan:bounds"),
    (r"runtime error:", "ubsan:other"),
    (r"AddressSanitizer: heap-buffer-overflow", "asan:heap-buffer-overflow"),
    (r"AddressSanitizer: stack-buffer-overflow", "asan:stack-buffer-overflow"),
    (r"AddressSanitizer: global-buffer-overflow", "asan:global-buffer-overflow"),
    (r"AddressSanitizer: heap-use-after-free", "asan:use-after-free"),
    (r"AddressSanitizer: attempting double-free", "asan:double-free"),
    (r"AddressSanitizer: stack-overflow", "asan:stack-overflow"),
    (r"AddressSanitizer: SEGV", "segv"),
    (r"AddressSanitizer: FPE", "fpe"),
    (r"AddressSanitizer: requested allocation size|AddressSanitizer: allocation-size-too-big|out of memory", "asan:alloc-too-big"),
    (r"AddressSanitizer: ([a-z-]+)", "asan:other"),
    (r"terminate called after throwing an instance of '([^']+)'", "exc"),
    (r"terminate called", "abort"),
]


def classify_crash(stderr_text, rc):
    for pat, cls in _CRASH_PATTERNS:
        m = re.search(pat, stderr_text)
        if m:
            if cls == "exc":
                return "exc:" + m.group(1)
            if cls == "asan:other":
                return "asan:" + m.group(1)
            return cls
    if rc is not None and rc < 0:
        return {11: "segv", 8: "fpe", 6: "abort", 7: "bus"}.get(-rc, "signal%d" % -rc)
    return "exit%s" % rc


RETRY_STATS = {"cases": 0, "ended_when_run_alone": 0}


def run_harness(binary, lines, timeout_s=10, workers=None, env_extra=None, _retry=True):
    """lines: list of 'caseid ops...' (caseid unique, no spaces). Returns dict caseid -> result str.
    A crashed case maps to 'crash <class>'; a timed-out case to 'diverges'.
    A wall-clock limit is load dependent: a case answered `diverges` is run again ALONE (one worker) with six times the limit, and
    only a case that still does not end keeps the answer (false alarm seen in session 3: a thorough C08 run at load average 70)."""
    res = _run_harness(binary, lines, timeout_s, workers, env_extra)
    if _retry:
        slow = [ln for ln in lines if str(res.get(ln.split(" ", 1)[0], "")).endswith("diverges")]
        if slow and len(slow) <= 200:
            again = _run_harness(binary, slow, timeout_s * 6, 1, env_extra)
            RETRY_STATS["cases"] += len(slow)
            for ln in slow:
                cid = ln.split(" ", 1)[0]
                r = again.get(cid)
                if r is not None and not str(r).endswith("diverges"):
                    res[cid] = r
                    res.pop(cid + "#stderr", None)
                    if cid + "#stderr" in again:
                        res[cid + "#stderr"] = again[cid + "#stderr"]
                    RETRY_STATS["ended_when_run_alone"] += 1
    return res


def _run_harness(binary, lines, timeout_s=10, workers=None, env_extra=None):
    if workers is None:
        workers = min(16, max(1, len(lines) // 200 + 1))
    chunks = [lines[i::workers] for i in range(workers)]
    results = {}

    def work(chunk):
        res = {}
        pos = 0
        env = build.sanitizer_env()
        if env_extra:
            env.update(env_extra)
        while pos < len(chunk):
            todo = chunk[pos:]
            with tempfile.TemporaryFile() as errf:
                # wall-clock guard on top of the probe's own per-case alarm (a probe stuck in its signal
                # handler or in a sanitizer report would otherwise hang the whole check)
                wall = max(300.0, len(todo) * 0.25 + timeout_s * 4)
                pp = subprocess.Popen([binary, str(timeout_s)], stdin=subprocess.PIPE, stdout=subprocess.PIPE, stderr=errf, env=env)
                hung = False
                try:
                    sout, _ = pp.communicate(("\n".join(todo) + "\n").encode(), timeout=wall)
                except subprocess.TimeoutExpired:
                    pp.kill()
                    sout, _ = pp.communicate()
                    hung = True

                class _P:
                    pass
                p = _P()
                p.stdout, p.returncode = sout, (-9 if hung else pp.returncode)
                errf.seek(0)
                err = errf.read().decode("latin-1", "replace")
            got = 0
            for ln in p.stdout.decode("latin-1").split("\n"):
                if not ln:
                    continue
                cid, _, r = ln.partition(" ")
                res[cid] = r
                got += 1
            if got >= len(todo):
                break
            # the case after the last answered one killed the probe
            last = todo[got - 1].split(" ", 1)[0] if got else None
            if got and res.get(last, "").endswith("diverges") and p.returncode == 3:
                # the diverging case answered itself before exiting
                pos += got
                continue
            cid = todo[got].split(" ", 1)[0]
            res[cid] = "diverges" if hung else "crash " + classify_crash(err, p.returncode)
            res[cid + "#stderr"] = err[-3000:]
            pos += got + 1
        return res

    with ThreadPoolExecutor(max_workers=workers) as ex:
        for r in ex.map(work, chunks):
            results.update(r)
    return results


def run_driver(lines, workers=None, timeout_s=600):
    """Same protocol for the Lean driver `blocv` (never crashes; answers every line)."""
    exe = build.blocv_path()
    if workers is None:
        workers = min(16, max(1, len(lines) // 2000 + 1))
    chunks = [lines[i::workers] for i in range(workers)]
    results = {}

    def work(chunk):
        if not chunk:
            return {}
        try:
            p = subprocess.run([exe], input=("\n".join(chunk) + "\n").encode(), stdout=subprocess.PIPE,
                               stderr=subprocess.PIPE, timeout=timeout_s)
        except subprocess.TimeoutExpired:
            return {"#driver-error": "driver timed out after %ds on a chunk starting with: %s" % (timeout_s, chunk[0][:300])}
        res = {}
        for ln in p.stdout.decode("latin-1").split("\n"):
            if not ln:
                continue
            cid, _, r = ln.partition(" ")
            res[cid] = r
        if p.returncode != 0:
            res["#driver-error"] = p.stderr.decode("latin-1")[-2000:]
        return res

    with ThreadPoolExecutor(max_workers=workers) as ex:
        for r in ex.map(work, chunks):
            results.update(r)
    return results
