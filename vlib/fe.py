"""Source-text front end correspondence (task C02FE).

The model side of a program case is no longer only the generator's S-expression (`prog`): the BLOC source text the
library compiles is sent to the Lean driver as well (`src <fuel> <hex text>`: Model/Lex → Model/Parse → Model/Elab →
Model/Safety → `runProgram`). A front-end case is judged three ways:
  (i)   model(text) = model(S-expression)      the generator's two renderings denote the same program
  (ii)  model(text) = library(text)            outcome, printed output, final variables (ProgCheck.judge)
  (iii) a text the library rejects is rejected by the model front end with the same code, where Model/Parse.lean models
        the rule (syntax); rejections for reasons Parse.lean leaves out (types, symbols) are counted, not failed.
`unsupported` answers (constructs Model/Interp.lean has no node for) are counted and listed; they are not failures.
"""
import re

from . import progen
from .core import Case, outcomes_agree
from .run import hx

# ParseError codes raised only by rules Model/Parse.lean transcribes (syntax, literal ranges, arities of built-ins/members)
SYNTACTIC = {0, 14, 17, 19, 20, 21, 23, 24, 25, 26, 28}
# codes raised both by syntax rules and by checks Parse.lean leaves out (user-function arity; the many "OTHER" messages)
AMBIGUOUS = {16, 33}


def fe_case(check, cid, src, meta=None, pre_ops=(), fuel=None):
    """library: parse + run the text; model: the same bytes through the front end"""
    impl = "|".join(["new 0"] + list(pre_ops) + ["prog 0 " + hx(src), "out 0", "dump 0"])
    m = dict(meta or {})
    m["src"] = src
    m.setdefault("family", "fe")
    return Case(cid, "src %d %s" % (fuel or check.fuel, hx(src)), impl, m)


def fe_init(check):
    if not hasattr(check, "fe"):
        check.fe = {"cases": 0, "unsupported": {}, "oof_or_unmodelled": 0, "renderings_compared": 0, "perr_same_code": 0,
                    "perr_library_semantic": 0, "perr_semantic_first": 0, "ran_both": 0, "by_family": {}, "outcomes": {}}
        check.sexp_answers = {}
    return check.fe


def note_sexp_answer(check, src, mout):
    """called by the judge of the S-expression twin of a front-end case"""
    fe_init(check)
    check.sexp_answers[src] = mout


def perr_code(s):
    m = re.match(r"perr (\d+)", s or "")
    return int(m.group(1)) if m else None


def judge_fe(check, progjudge, c, iraw, m, stderr):
    """progjudge: ProgCheck.judge bound to `check` (compares outcome/out/vars of a model answer with the library)"""
    st = fe_init(check)
    st["cases"] += 1
    fam = c.meta.get("family", "fe")
    st["by_family"][fam] = st["by_family"].get(fam, 0) + 1
    mout = m.get("model")
    if mout is None:
        return check.record_violation("front end gave no answer", c, iraw[:200], m)
    head = mout.split(" out=")[0]
    if head == "unsupported":
        what = m.get("note", "?")
        st["unsupported"][what] = st["unsupported"].get(what, 0) + 1
        return
    outcome, out, dump = check.split_impl(c, iraw)
    if outcome is None:
        # parse error in the library: the answer has no out=/dump= parts after `prog`
        outcome = iraw
    key = head.split(" ")[0] + (" " + head.split(" ")[1] if head.startswith(("perr", "rerr")) else "")
    st["outcomes"][key] = st["outcomes"].get(key, 0) + 1
    # (i) the two renderings
    sx = check.sexp_answers.get(c.meta["src"]) if c.meta.get("twin") else None
    if sx is not None:
        h2 = sx.split(" out=")[0]
        if head in ("oof", "unmodelled") or h2 in ("oof", "unmodelled"):
            st["oof_or_unmodelled"] += 1
        else:
            st["renderings_compared"] += 1
            if sx != mout:
                return check.record_violation("the source text and the S-expression of the same generated program run differently in the model: "
                                              "text %s / sexp %s" % (mout[:160], sx[:160]), c, outcome, m)
    # (iii) rejections
    lib_perr = next((perr_code(p) for p in iraw.split("|") if p.startswith("perr ")), None)
    mod_perr = perr_code(head)
    if mod_perr is not None or lib_perr is not None:
        check.distinct.add(("fe", c.model_line))
        check.tally(c, ("perr %d" % lib_perr) if lib_perr is not None else (outcome or "?"), m)
        if mod_perr is not None and lib_perr is None:
            return check.record_violation("the model front end rejects (perr %d) a text the library compiles" % mod_perr, c, outcome, m)
        if mod_perr is not None and lib_perr is not None:
            if mod_perr == lib_perr:
                st["perr_same_code"] += 1
                return
            if lib_perr not in SYNTACTIC:
                st["perr_semantic_first"] += 1      # the library met a type/symbol error before the syntax error
                d = st.setdefault("semantic_first_pairs", {})
                k = "lib %d / model %d" % (lib_perr, mod_perr)
                d[k] = d.get(k, 0) + 1
                return
            return check.record_violation("rejected with parse error %d by the library, %d by the model front end" % (lib_perr, mod_perr), c, outcome, m)
        # library rejects, model accepts
        if lib_perr in SYNTACTIC:
            return check.record_violation("the library rejects the text with the syntax error %d, the model front end accepts it" % lib_perr, c, outcome, m)
        st["perr_library_semantic"] += 1
        d = st.setdefault("library_semantic_codes", {})
        d[str(lib_perr)] = d.get(str(lib_perr), 0) + 1
        return
    # (ii) both compiled: outcome, output, variables
    st["ran_both"] += 1
    return progjudge(c, iraw, m, stderr)


def fe_coverage(check):
    st = fe_init(check)
    n = max(1, st["cases"])
    uns = sum(st["unsupported"].values())
    return {"front_end": dict(st, unsupported_total=uns, unsupported_fraction=round(uns / n, 4))}


# ------------------------------------------------------------------------------------------ text mutations (parse errors)
TOKEN = re.compile(r'"(?:[^"\\]|\\.)*"|[A-Za-z_$][A-Za-z0-9_$]*|\d+\.\d+|\d+|==|!=|<=|>=|<<|>>|\*\*|[^\sA-Za-z0-9_]')
REPL = ["(", ")", ";", ",", "end", "loop", "then", "if", "+", "=", "1", "x", "begin", "when", "else", "print", "@", ".", "to", "in", "return", "\"s\""]


def mutate(rng, src):
    """one token deleted, doubled, swapped with its neighbour or replaced"""
    toks = [(m.start(), m.end()) for m in TOKEN.finditer(src)]
    if len(toks) < 2:
        return src + ")"
    k = rng.randrange(len(toks))
    a, b = toks[k]
    op = rng.choice(["del", "dup", "swap", "repl", "repl", "trunc"])
    if op == "del":
        return src[:a] + src[b:]
    if op == "dup":
        return src[:b] + " " + src[a:b] + src[b:]
    if op == "swap" and k + 1 < len(toks):
        c, d = toks[k + 1]
        return src[:a] + src[c:d] + src[b:c] + src[a:b] + src[d:]
    if op == "trunc":
        return src[:a]
    return src[:a] + rng.choice(REPL) + src[b:]


# ------------------------------------------------------------------------------------------ constraint families
# (type tag, source text of a value of that type)
SAFE_LITS = [("i0", "5"), ("i0", "int()"), ("d0", "2.5"), ("d0", "num()"), ("b0", "true"), ("b0", "bool()"), ("s0", '"ab"'), ("s0", "str()"),
             ("r0", 'raw("ab")'), ("r0", "raw()"), ("?0", "null"), ("i1", "tab(2, 1)"), ("s1", 'tab(1, "a")'), ("i2", "tab(1, tab(1, 1))"),
             ("u0", 'tup(1, "a")')]
TYNAME = {"i0": "integer", "d0": "decimal", "b0": "boolean", "s0": "string", "r0": "bytes"}


def same_kind(a, b):
    """Symbol::check_safety as the property reads it: level 0 ⇒ same major; a table stays a table"""
    la, lb = int(a[1:]), int(b[1:])
    if la == 0 and lb == 0:
        return a[0] == b[0]
    return la > 0 and lb > 0


# ------------------------------------------------------------------------------------------ hand-enumerated surface
# One or more texts per PStmt / PExpr constructor and per lexical form the generator never writes. `unsupported` answers
# are expected for the forms Model/Interp.lean has no node for (listed in the evidence); everything else must agree.
HAND_TEXTS = [
    # statements
    ("nop", "nop;\nnop;;\n;\nprint 1;\n"),
    ("trace", "trace true;\nprint 1;\n"),
    ("put", "put 1 2;\nprint 3;\n"),
    ("letn", "x:integer;\nprint x;\n"),
    ("letn-chain", "x:integer, y = 2;\nprint y;\n"),
    ("let-assign", "a := 5;\nprint a;\n"),
    ("let-keyword", "let a = 5;\nprint a;\n"),
    ("let-chain", "a = 1, b = a + 1, c = b * 2;\nprint a b c;\n"),
    ("let-chain-do", "a = 1, do a + 1;\nprint a;\n"),
    ("do", "t = tab(1, 1);\ndo t.concat(5);\nt.concat(6);\nprint t.count();\n"),
    ("expr-stmt", "x = 1;\nx + 1;\nprint x;\n"),
    ("print-many", "print 1 \"a\" true 2.5 null;\nprint;\n"),
    ("if-elsif", "x = 3;\nif x == 1 then print 1;\nelsif x == 2 then print 2;\nelsif x == 3 then print 3;\nelse print 4;\nend if;\n"),
    ("if-elsif-noelse", "x = 9;\nif x == 1 then print 1;\nelsif x == 2 then print 2;\nend if;\nprint 0;\n"),
    ("if-null-cond", "b = bool();\nif b then print 1; else print 2; end if;\n"),
    ("while-break-continue", "i = 0;\nwhile true loop\n  i = i + 1;\n  if i == 2 then continue; end if;\n  if i > 4 then break; end if;\n  print i;\nend loop;\n"),
    ("for-step-desc", "for k in 1 to 10 step 3 desc loop print k; end loop;\n"),
    ("for-step-asc", "for k in 10 to 1 step 4 asc loop print k; end loop;\nfor k in 1 to 10 step 4 asc loop print k; end loop;\n"),
    ("for-step-zero", "for k in 1 to 3 step 0 loop print k; end loop;\n"),
    ("for-null-bound", "for k in int() to 3 loop print k; end loop;\nprint 9;\n"),
    ("for-decimal-bound", "for k in 1.5 to 3 loop print k; end loop;\n"),
    ("for-string-bound", "for k in \"a\" to 3 loop print k; end loop;\n"),
    ("forall-desc", "t = tab(3, 0);\nt.put(0, 1);\nt.put(2, 5);\nforall e in t desc loop print e; end loop;\nforall e in t asc loop print e; end loop;\n"),
    ("forall-write", "t = tab(2, 1);\nforall e in t loop e = e + 1; end loop;\nprint t.at(0) t.at(1);\n"),
    ("forall-temp", "forall e in tab(2, \"x\") loop print e; end loop;\n"),
    ("forall-not-table", "x = 1;\nforall e in x loop print e; end loop;\n"),
    ("begin-handlers", "begin\n  raise e1;\nexception\n  when e2 then print 2;\n  when e1 then print 1;\n  when others then print 0;\nend;\n"),
    ("raise-in-handler", "begin\n  begin\n    raise e1;\n  exception\n    when e1 then raise e2;\n  end;\nexception\n  when e2 then print \"outer\";\nend;\n"),
    ("raise-builtin-name", "begin\n  raise divide_by_zero;\nexception\n  when divide_by_zero then print 1;\nend;\nraise out_of_range;\n"),
    ("raise-uncaught", "print 1;\nraise my_error;\nprint 2;\n"),
    ("others-first", "begin\n  x = 1 / 0;\nexception\n  when others then print \"o\";\n  when divide_by_zero then print \"d\";\nend;\n"),
    ("return-in-loop", "for k in 1 to 5 loop\n  if k == 3 then return k; end if;\n  print k;\nend loop;\nprint 9;\n"),
    ("return-in-while-in-func", "function f(n:integer) return integer is\nbegin\n  i = 0;\n  while true loop\n    i = i + 1;\n    if i >= n then return i * 10; end if;\n  end loop;\nend;\nprint f(3);\n"),
    ("return-bare", "print 1;\nreturn;\nprint 2;\n"),
    ("function-typed", "function add(a:integer, b:decimal) return decimal is\nbegin\n  return a + b;\nend;\nprint add(1, 2.5);\n"),
    ("function-noparams", "function one return integer is\nbegin\n  return 1;\nend;\nprint one();\n"),
    ("function-handler", "function g(x) return string is\nbegin\n  y = 1 / x;\n  return \"ok\";\nexception\n  when divide_by_zero then return \"dbz\";\nend;\nprint g(0) g(1);\n"),
    ("function-recursive", "function fact(n:integer) return integer is\nbegin\n  if n <= 1 then return 1; end if;\n  return n * fact(n - 1);\nend;\nprint fact(10);\n"),
    ("function-redeclared", "function f() return integer is begin return 1; end;\nfunction f() return integer is begin return 2; end;\nprint f();\n"),
    ("function-nested-refused", "begin\n  function f() return integer is begin return 1; end;\nend;\n"),
    ("function-in-function-refused", "function f() return integer is\nbegin\n  function g() return integer is begin return 1; end;\n  return 1;\nend;\n"),
    ("function-table-type", "function f() return table is begin return tab(1, 1); end;\nprint f().count();\n"),
    ("safety-var", "$q = 1;\n$q = $q + 1;\nprint $q;\n$q = \"s\";\n"),
    ("safety-var-call", "function f() return integer is begin return 2; end;\n$q = 1;\n$q = f();\nprint $q;\n"),
    ("safety-iter-forall", "t = tab(2, 1);\nforall $e in t loop print $e; end loop;\nforall $e in t loop print $e; end loop;\n"),
    ("import", "import sys;\nprint 1;\n"),
    # expressions
    ("hex-literals", "print 0x1F 0XfF 0x7fffffffffffffff 0xFFFFFFFFFFFFFFFF;\n"),
    ("int-wrap-literal", "print 9223372036854775808 18446744073709551615;\n"),
    ("int-too-big", "print 18446744073709551616;\n"),
    ("decimal-forms", "print 1.5 0.25 1e3 2.5e-1 1.0E+2;\n"),
    ("string-escapes", "print \"a\\tb\\nc\\\\d\\\"e\\x\" \"q\"\"q\";\nprint strlen(\"\\a\\b\\f\\r\");\n"),
    ("string-unterminated", "print \"abc;\n"),
    ("comments", "// a line comment\nprint 1; // trailing\n/* a block\n comment */ print 2;\nprint /* inline */ 3;\n"),
    ("comment-unterminated", "print 1;\n/* never closed\nprint 2;\n"),
    ("crlf", "x = 1;\r\nprint x;\r\nif x == 1 then\r\n  print \"one\";\r\nend if;\r\n"),
    ("crlf-in-string", "print \"a\rb\";\r\n"),
    ("case-insensitive-names", "Abc = 1;\nprint aBC ABC;\nfunction Ff() return integer is begin return 7; end;\nprint fF();\n"),
    ("keywords-case", "PRINT 1;\n"),
    ("operators-symbols", "print (true && false) (true || false) (!true) (2 ** 10) (7 % 3) (1 << 4) (256 >> 2) (6 & 3) (6 | 3) (6 ^ 3) (~5);\n"),
    ("operators-words", "print (true and false) (true or false) (true xor true) (not true) (2 power 3);\n"),
    ("precedence", "print 1 + 2 * 3 - 4 / 2 2 ** 3 ** 2 - 2 ** 2 1 < 2 == true -3 + +4;\n"),
    ("unary-chain", "print - -3;\n"),
    ("relational-chain-refused", "print 1 < 2 < 3;\n"),
    ("matches", "print \"abc\" matches \"a.c\";\n"),
    ("on-off", "print on off;\n"),
    ("constants", "print pi;\nprint ee phi;\n"),
    ("constant-ii", "x = ii;\n"),
    ("constant-error", "begin raise e1; exception when e1 then print error; end;\n"),
    ("null-ctors", "print int() num() bool() str() raw();\nprint isnull(int()) typeof(num());\n"),
    ("builtins-modelled", "print substr(\"hello\", 1, 3) subraw(raw(\"hello\"), 1) hex(255) hash(\"a\") abs(-3) pow(2, 5) b64enc(\"ab\") str(b64dec(\"YWI=\")) tokenize(\"a,b\", \",\").count();\n"),
    ("builtins-unmodelled", "print max(1, 2);\n"),
    ("builtin-arity", "print strlen();\n"),
    ("builtin-arity2", "print strlen(\"a\", \"b\");\n"),
    ("builtin-no-paren", "print strlen;\n"),
    ("tuple-items", "u = tup(1, \"a\");\nprint u@1;\n"),
    ("tuple-set", "u = tup(1, \"a\");\nu.set@1(5);\nprint 1;\n"),
    ("item-not-int", "u = tup(1, 2);\nprint u@x;\n"),
    ("members-all", "t = tab(2, 7);\nt.concat(8);\nt.put(0, 1);\nt.insert(1, 5);\nt.delete(0);\nprint t.count() t.at(0) t.at(1) t.at(2);\n"),
    ("member-on-string", "s = \"ab\";\nprint s.count() s.at(0);\ns.concat(\"c\");\nprint s;\n"),
    ("member-unknown", "t = tab(1, 1);\nprint t.size();\n"),
    ("member-arity", "t = tab(1, 1);\nprint t.at();\n"),
    ("member-chain", "t = tab(2, tab(2, 3));\nprint t.at(1).at(0) t.at(0).count();\n"),
    ("paren-mismatch", "print (1 + 2;\n"),
    ("paren-extra", "print 1 + 2);\n"),
    ("reserved-word", "loop = 1;\n"),
    ("reserved-builtin", "strlen = 1;\n"),
    ("not-a-statement", "1 + 2;\n"),
    ("missing-separator", "print 1\nprint 2;\n"),
    ("eof-in-block", "if true then\n  print 1;\n"),
    ("empty-block", "if true then end if;\n"),
    ("end-wrong", "while false loop nop; end if;\n"),
    ("empty-text", ""),
    ("only-comment", "// nothing\n"),
    ("dollar-in-name", "a$b = 1;\nprint a$b;\n"),
    ("underscore-name", "_x1 = 2;\nprint _x1;\n"),
    ("undefined-symbol", "print zz;\n"),
    ("undefined-in-dead-code", "if false then print zz; end if;\n"),
    ("type-mismatch", "x = 1 + \"a\";\n"),
    ("type-mismatch-bool", "x = 1 and true;\n"),
    ("retype", "x = 1;\nx = \"s\";\nx = x + \"t\";\nprint x;\n"),
]
