"""Source-text front end correspondence (task C02FE).

The model side of a program case is no longer only the generator's S-expression (`prog`): the BLOC source text the
library compiles is sent to the Lean driver as well (`src <fuel> <hex text>`: Model/Lex → Model/Parse → Model/Elab →
Model/Safety → `runProgram`). A front-end case is judged three ways:
  (i)   model(text) = model(S-expression)      the generator's two renderings denote the same program
  (ii)  model(text) = library(text)            outcome, printed output, final variables (ProgCheck.judge)
  (iii) a text the library rejects is rejected by the model front end with the same code, where Model/Parse.lean models
        the rule (syntax); rejections for reasons Parse.lean leaves out (types, symbols) are counted, not failed.
`unsupported` answers (constructs Model/Interp.lean has no node for) are counted and listed; they are not failures.
"""
import re

from . import progen
from .core import Case, outcomes_agree
from .run import hx

# ParseError codes raised only by rules Model/Parse.lean transcribes (syntax, literal ranges, arities of built-ins/members)
SYNTACTIC = {0, 14, 17, 19, 20, 21, 23, 24, 25, 26, 28}
# codes raised both by syntax rules and by checks Parse.lean leaves out (user-function arity; the many "OTHER" messages)
AMBIGUOUS = {16, 33}


def fe_case(check, cid, src, meta=None, pre_ops=(), fuel=None):
    """library: parse + run the text; model: the same bytes through the front end"""
    impl = "|".join(["new 0"] + list(pre_ops) + ["prog 0 " + hx(src), "out 0", "dump 0"])
    m = dict(meta or {})
    m["src"] = src
    m.setdefault("family", "fe")
    return Case(cid, "src %d %s" % (fuel or check.fuel, hx(src)), impl, m)


def fe_init(check):
    if not hasattr(check, "fe"):
        check.fe = {"cases": 0, "unsupported": {}, "oof_or_unmodelled": 0, "renderings_compared": 0, "perr_same_code": 0,
                    "perr_library_semantic": 0, "perr_semantic_first": 0, "ran_both": 0, "by_family": {}, "outcomes": {}}
        check.sexp_answers = {}
    return check.fe


def note_sexp_answer(check, src, mout):
    """called by the judge of the S-expression twin of a front-end case"""
    fe_init(check)
    check.sexp_answers[src] = mout


def perr_code(s):
    m = re.match(r"perr (\d+)", s or "")
    return int(m.group(1)) if m else None


def judge_fe(check, progjudge, c, iraw, m, stderr):
    """progjudge: ProgCheck.judge bound to `check` (compares outcome/out/vars of a model answer with the library)"""
    st = fe_init(check)
    st["cases"] += 1
    fam = c.meta.get("family", "fe")
    st["by_family"][fam] = st["by_family"].get(fam, 0) + 1
    mout = m.get("model")
    if mout is None:
        return check.record_violation("front end gave no answer", c, iraw[:200], m)
    head = mout.split(" out=")[0]
    if head == "unsupported":
        what = m.get("note", "?")
        st["unsupported"][what] = st["unsupported"].get(what, 0) + 1
        return
    outcome, out, dump = check.split_impl(c, iraw)
    if outcome is None:
        # parse error in the library: the answer has no out=/dump= parts after `prog`
        outcome = iraw
    key = head.split(" ")[0] + (" " + head.split(" ")[1] if head.startswith(("perr", "rerr")) else "")
    st["outcomes"][key] = st["outcomes"].get(key, 0) + 1
    # (i) the two renderings
    sx = check.sexp_answers.get(c.meta["src"]) if c.meta.get("twin") else None
    if sx is not None:
        h2 = sx.split(" out=")[0]
        if head in ("oof", "unmodelled") or h2 in ("oof", "unmodelled"):
            st["oof_or_unmodelled"] += 1
        else:
            st["renderings_compared"] += 1
            if sx != mout:
                return check.record_violation("the source text and the S-expression of the same generated program run differently in the model: "
                                              "text %s / sexp %s" % (mout[:160], sx[:160]), c, outcome, m)
    # (iii) rejections
    lib_perr = next((perr_code(p) for p in iraw.split("|") if p.startswith("perr ")), None)
    mod_perr = perr_code(head)
    if mod_perr is not None or lib_perr is not None:
        check.distinct.add(("fe", c.model_line))
        check.tally(c, ("perr %d" % lib_perr) if lib_perr is not None else (outcome or "?"), m)
        if mod_perr is not None and lib_perr is None:
            return check.record_violation("the model front end rejects (perr %d) a text the library compiles" % mod_perr, c, outcome, m)
        if mod_perr is not None and lib_perr is not None:
            if mod_perr == lib_perr:
                st["perr_same_code"] += 1
                return
            if lib_perr not in SYNTACTIC:
                st["perr_semantic_first"] += 1      # the library met a type/symbol error before the syntax error
                d = st.setdefault("semantic_first_pairs", {})
                k = "lib %d / model %d" % (lib_perr, mod_perr)
                d[k] = d.get(k, 0) + 1
                return
            return check.record_violation("rejected with parse error %d by the library, %d by the model front end" % (lib_perr, mod_perr), c, outcome, m)
        # library rejects, model accepts
        if lib_perr in SYNTACTIC:
            return check.record_violation("the library rejects the text with the syntax error %d, the model front end accepts it" % lib_perr, c, outcome, m)
        st["perr_library_semantic"] += 1
        d = st.setdefault("library_semantic_codes", {})
        d[str(lib_perr)] = d.get(str(lib_perr), 0) + 1
        return
    # (ii) both compiled: outcome, output, variables
    st["ran_both"] += 1
    return progjudge(c, iraw, m, stderr)


def fe_coverage(check):
    st = fe_init(check)
    n = max(1, st["cases"])
    uns = sum(st["unsupported"].values())
    return {"front_end": dict(st, unsupported_total=uns, unsupported_fraction=round(uns / n, 4))}


# ------------------------------------------------------------------------------------------ text mutations (parse errors)
TOKEN = re.compile(r'"(?:[^"\\]|\\.)*"|[A-Za-z_$][A-Za-z0-9_$]*|\d+\.\d+|\d+|==|!=|<=|>=|<<|>>|\*\*|[^\sA-Za-z0-9_]')
REPL = ["(", ")", ";", ",", "end", "loop", "then", "if", "+", "=", "1", "x", "begin", "when", "else", "print", "@", ".", "to", "in", "return", "\"s\""]


def mutate(rng, src):
    """one token deleted, doubled, swapped with its neighbour or replaced"""
    toks = [(m.start(), m.end()) for m in TOKEN.finditer(src)]
    if len(toks) < 2:
        return src + ")"
    k = rng.randrange(len(toks))
    a, b = toks[k]
    op = rng.choice(["del", "dup", "swap", "repl", "repl", "trunc"])
    if op == "del":
        return src[:a] + src[b:]
    if op == "dup":
        return src[:b] + " " + src[a:b] + src[b:]
    if op == "swap" and k + 1 < len(toks):
        c, d = toks[k + 1]
        return src[:a] + src[c:d] + src[b:c] + src[a:b] + src[d:]
    if op == "trunc":
        return src[:a]
    return src[:a] + rng.choice(REPL) + src[b:]


# ------------------------------------------------------------------------------------------ constraint families
# (type tag, source text of a value of that type)
SAFE_LITS = [("i0", "5"), ("i0", "int()"), ("d0", "2.5"), ("d0", "num()"), ("b0", "true"), ("b0", "bool()"), ("s0", '"ab"'), ("s0", "str()"),
             ("r0", 'raw("ab")'), ("r0", "raw()"), ("?0", "null"), ("i1", "tab(2, 1)"), ("s1", 'tab(1, "a")'), ("i2", "tab(1, tab(1, 1))"),
             ("u0", 'tup(1, "a")')]
TYNAME = {"i0": "integer", "d0": "decimal", "b0": "boolean", "s0": "string", "r0": "bytes"}


def same_kind(a, b):
    """Symbol::check_safety as the property reads it: level 0 ⇒ same major; a table stays a table"""
    la, lb = int(a[1:]), int(b[1:])
    if la == 0 and lb == 0:
        return a[0] == b[0]
    return la > 0 and lb > 0
