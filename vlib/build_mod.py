"""Build of harness/modprobe.cpp: the csv / utf8 module cores of /repo compiled directly from the module
sources (csvparser.cpp, utf8helper.cpp, utf8helper_charmap.cpp) under ASan+UBSan with libstdc++ assertions.
Needs no libblocc and therefore no build.impl_build()."""
import os
import time

from . import build

MODULE_SOURCES = ["modules/csv/csvparser.cpp", "modules/csv/csvparser.h",
                  "modules/utf8/utf8helper.cpp", "modules/utf8/utf8helper.h",
                  "modules/utf8/utf8helper_charmap.cpp", "modules/utf8/utf8helper_charmap.h"]
STALE_S = 6 * 3600


def modprobe_build():
    """Compile harness/modprobe.cpp against the current /repo module sources; returns the binary path.
    Cached in build.CACHE, keyed by the hash of modprobe.cpp + the included /repo module sources."""
    src = os.path.join(build.VERIF, "harness", "modprobe.cpp")
    deps = [os.path.join(build.REPO, f) for f in MODULE_SOURCES]
    missing = [p for p in [src] + deps if not os.path.isfile(p)]
    if missing:
        raise build.BuildError("modprobe: source file(s) missing", "\n".join(missing))
    flags = ["-std=c++11", "-O1", "-g"] + build.SAN.split() + ["-D_GLIBCXX_ASSERTIONS"]
    incs = ["-I" + os.path.join(build.REPO, "modules", "csv"), "-I" + os.path.join(build.REPO, "modules", "utf8"),
            "-I" + build.REPO]
    hh = build.files_hash([src] + deps)
    with build.Lock("modprobe"):
        d = os.path.join(build.CACHE, "modprobe")
        os.makedirs(d, exist_ok=True)
        out = os.path.join(d, "modprobe-%s" % hh)
        if os.path.exists(out):
            os.utime(out, None)
            return out
        # binaries of other source states: another check run (another copy of the framework, another
        # VERIF_REPO) may be using them right now, so only drop those not used for STALE_S seconds
        for e in os.listdir(d):
            q = os.path.join(d, e)
            if e.startswith("modprobe-") and time.time() - os.path.getmtime(q) > STALE_S:
                try:
                    os.unlink(q)
                except OSError:
                    pass
        t0 = time.time()
        tmp = out + ".tmp%d" % os.getpid()
        cmd = ["g++"] + flags + incs + [src, "-o", tmp]
        rc, o = build._sh(cmd, logfile=os.path.join(d, "build.log"))
        if rc != 0:
            raise build.BuildError("harness modprobe does not compile against the current module sources", o[-6000:])
        os.rename(tmp, out)
        build.log("built modprobe in %.1fs -> %s" % (time.time() - t0, out))
        return out
