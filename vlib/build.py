"""Build cache: the sanitizer build of /repo's *current working tree* with hooks on, the
probe harnesses compiled against it, and the Lean library + driver.

Nothing a check needs is kept under /tmp; scratch builds live in /var/tmp/blocv-cache and are
keyed by a hash of the source tree, so the 19 checks of one tree share one build and a changed
tree gets a fresh one (the stale one is deleted)."""
import fcntl
import hashlib
import os
import shutil
import subprocess
import sys
import time

VERIF = os.path.dirname(os.path.dirname(os.path.abspath(__file__)))
REPO = os.environ.get("VERIF_REPO", "/repo")
CACHE = os.environ.get("VERIF_CACHE", "/var/tmp/blocv-cache")
LEAN = os.path.join(VERIF, "lean")
GUARD = "BLOC_VERIF"
SAN = "-fsanitize=address,undefined,float-cast-overflow -fno-sanitize-recover=undefined,float-cast-overflow -fno-omit-frame-pointer"
NJOBS = str(os.cpu_count() or 8)


def log(*a):
    print("[build]", *a, file=sys.stderr, flush=True)


def _sh(cmd, cwd=None, env=None, logfile=None):
    r = subprocess.run(cmd, cwd=cwd, env=env, stdout=subprocess.PIPE, stderr=subprocess.STDOUT, text=True)
    if logfile:
        with open(logfile, "a") as f:
            f.write("$ " + " ".join(cmd) + "\n" + r.stdout + "\n")
    return r.returncode, r.stdout


def repo_files():
    out = subprocess.run(["git", "-C", REPO, "ls-files", "-co", "--exclude-standard"],
                         stdout=subprocess.PIPE, text=True, check=True).stdout.split("\n")
    return sorted(f for f in out if f and not f.startswith("_build/") and os.path.isfile(os.path.join(REPO, f)))


def tree_hash():
    h = hashlib.sha256()
    for f in repo_files():
        h.update(f.encode() + b"\0")
        with open(os.path.join(REPO, f), "rb") as fh:
            h.update(hashlib.sha256(fh.read()).digest())
    return h.hexdigest()[:16]


def files_hash(paths):
    h = hashlib.sha256()
    for p in sorted(paths):
        h.update(p.encode() + b"\0")
        with open(p, "rb") as fh:
            h.update(fh.read())
    return h.hexdigest()[:16]


class Lock:
    def __init__(self, name):
        os.makedirs(CACHE, exist_ok=True)
        self.path = os.path.join(CACHE, name + ".lock")

    def __enter__(self):
        self.f = open(self.path, "w")
        fcntl.flock(self.f, fcntl.LOCK_EX)
        return self

    def __exit__(self, *a):
        fcntl.flock(self.f, fcntl.LOCK_UN)
        self.f.close()


class BuildError(Exception):
    def __init__(self, what, output):
        super().__init__(what)
        self.what = what
        self.output = output


def impl_build(variant="asan"):
    """Build /repo's working tree (hooks on, sanitizers) and return the build dir."""
    flags = {"asan": SAN, "tsan": "-fsanitize=thread -fno-omit-frame-pointer", "plain": ""}[variant]
    th = tree_hash() + "-" + hashlib.sha256(flags.encode()).hexdigest()[:6]
    if os.environ.get("VERIF_BUILD_INPLACE"):
        return _impl_build_inplace(variant, flags, th)
    with Lock("impl-" + variant):
        d = os.path.join(CACHE, "impl-%s-%s" % (variant, th))
        if os.path.exists(os.path.join(d, ".done")):
            os.utime(d)
            return d
        # a new tree: keep the two most recently used builds of this variant, drop older ones
        olds = [os.path.join(CACHE, e) for e in os.listdir(CACHE)
                if e.startswith("impl-%s-" % variant) and not e.endswith(".lock") and os.path.join(CACHE, e) != d]
        olds.sort(key=lambda x: os.path.getmtime(x), reverse=True)
        for e in olds[2:]:
            shutil.rmtree(e, ignore_errors=True)
        shutil.rmtree(d, ignore_errors=True)
        os.makedirs(d)
        t0 = time.time()
        lf = os.path.join(d, "build.log")
        cxx = "-D%s %s -Wno-error" % (GUARD, flags)
        rc, out = _sh(["cmake", "-G", "Ninja", "-S", REPO, "-B", d, "-DCMAKE_BUILD_TYPE=RelWithDebInfo",
                       "-DBUILD_TESTING=OFF", "-DCMAKE_CXX_FLAGS=" + cxx, "-DCMAKE_C_FLAGS=" + cxx,
                       "-DCMAKE_EXE_LINKER_FLAGS=" + flags, "-DCMAKE_SHARED_LINKER_FLAGS=" + flags,
                       "-DCMAKE_MODULE_LINKER_FLAGS=" + flags], logfile=lf)
        if rc != 0:
            raise BuildError("cmake configure failed", out[-4000:])
        rc, out = _sh(["ninja", "-C", d, "-j", NJOBS], logfile=lf)
        if rc != 0:
            raise BuildError("build of /repo failed", out[-6000:])
        open(os.path.join(d, ".done"), "w").write(th)
        log("built /repo (%s) in %.1fs -> %s" % (variant, time.time() - t0, d))
        return d


def _impl_build_inplace(variant, flags, th):
    """Seed sweeps only (scripts/seed_sweep_par.sh sets VERIF_BUILD_INPLACE with a PRIVATE cache and a private copy of the
    tree): one build directory per variant, rebuilt incrementally by ninja when the tree changed; everything compiled
    against the previous tree (harness binaries, the verification module) is dropped. The registered checks never use
    this: they build every tree from scratch into a directory keyed by the tree hash."""
    with Lock("impl-" + variant):
        d = os.path.join(CACHE, "impl-%s-inplace" % variant)
        done = os.path.join(d, ".done")
        if os.path.exists(done) and open(done).read() == th:
            return d
        os.makedirs(d, exist_ok=True)
        if os.path.exists(done):
            os.unlink(done)
        import re
        for e in os.listdir(d):
            q = os.path.join(d, e)
            if os.path.isfile(q) and re.search(r"-[0-9a-f]{16}(\.tmp)?$", e):
                os.unlink(q)
            elif os.path.isdir(q) and e.startswith("vmod"):
                shutil.rmtree(q, ignore_errors=True)
        t0 = time.time()
        lf = os.path.join(d, "build.log")
        cxx = "-D%s %s -Wno-error" % (GUARD, flags)
        if not os.path.exists(os.path.join(d, "build.ninja")):
            rc, out = _sh(["cmake", "-G", "Ninja", "-S", REPO, "-B", d, "-DCMAKE_BUILD_TYPE=RelWithDebInfo",
                           "-DBUILD_TESTING=OFF", "-DCMAKE_CXX_FLAGS=" + cxx, "-DCMAKE_C_FLAGS=" + cxx,
                           "-DCMAKE_EXE_LINKER_FLAGS=" + flags, "-DCMAKE_SHARED_LINKER_FLAGS=" + flags,
                           "-DCMAKE_MODULE_LINKER_FLAGS=" + flags], logfile=lf)
            if rc != 0:
                raise BuildError("cmake configure failed", out[-4000:])
        rc, out = _sh(["ninja", "-C", d, "-j", NJOBS], logfile=lf)
        if rc != 0:
            raise BuildError("build of /repo failed", out[-6000:])
        open(done, "w").write(th)
        log("rebuilt %s in place (%s) in %.1fs -> %s" % (REPO, variant, time.time() - t0, d))
        return d


def harness_build(name, variant="asan", extra_src=(), extra_flags=()):
    """Compile harness/<name>.cpp against the current impl build; returns path of the binary."""
    d = impl_build(variant)
    src = os.path.join(VERIF, "harness", name + ".cpp")
    hh = files_hash([src] + [os.path.join(VERIF, "harness", s) for s in extra_src])
    flags = {"asan": SAN, "tsan": "-fsanitize=thread -fno-omit-frame-pointer", "plain": ""}[variant].split()
    with Lock("harness-%s-%s" % (name, variant)):
        out = os.path.join(d, "%s-%s" % (name, hh))
        if os.path.exists(out):
            return out
        cmd = ["g++", "-std=c++11", "-O1", "-g", "-D" + GUARD] + flags + ["-I" + REPO, "-I" + d,
               src, "-o", out + ".tmp", "-L" + os.path.join(d, "blocc"), "-lblocc",
               "-Wl,-rpath," + os.path.join(d, "blocc"), "-ldl", "-lpthread"] + list(extra_flags)
        rc, o = _sh(cmd, logfile=os.path.join(d, "build.log"))
        if rc != 0:
            raise BuildError("harness %s does not compile against the current tree" % name, o[-6000:])
        os.rename(out + ".tmp", out)
        return out


def lean_build(targets=("BlocV", "blocv")):
    """lake build; returns (ok, output)."""
    with Lock("lean"):
        rc, out = _sh(["lake", "build"] + list(targets), cwd=LEAN)
        return rc == 0, out


def blocv_path():
    return os.path.join(LEAN, ".lake", "build", "bin", "blocv")


def sanitizer_env():
    e = dict(os.environ)
    e["ASAN_OPTIONS"] = "abort_on_error=1:detect_leaks=0:allocator_may_return_null=1:handle_abort=1"
    e["UBSAN_OPTIONS"] = "halt_on_error=1:abort_on_error=1:print_stacktrace=1"
    return e
