"""Common base of the C16 / C17 checks: the probe runs with the verification modules of harness/vmod on its library
path (vlib/build_vmod.py), findings recorded in the check file itself are honoured until they are merged into
known_findings.json, and the driver answer is split into its own fields."""
import os
import re
import time

from . import build, build_vmod, run
from .core import Check, log


def fields(ans, keys):
    """'model=.. ev=.. kf=..' -> dict, for the given key set (values may contain spaces)"""
    d = {}
    alt = "|".join(keys)
    for key in keys:
        m = re.search(r"(?:^| )%s=(.*?)(?= (?:%s)=|$)" % (key, alt), ans)
        if m:
            d[key] = m.group(1)
    return d


class VmodCheck(Check):
    EXTRA_FINDINGS = []      # entries in the format of known_findings.json, property = self.pid
    MODEL_KEYS = ("model", "spec", "kf", "ev", "log", "leak", "live", "inv", "note", "calls", "mods", "failed", "refused")

    def __init__(self, tier, seed):
        super().__init__(tier, seed)
        have = {f["id"] for f in self.findings}
        for f in self.EXTRA_FINDINGS:
            if f["id"] not in have:
                self.findings.append(f)
        self.vinfo = None

    def probe_env(self):
        env, info = build_vmod.probe_env()
        self.vinfo = info
        return env

    def step_correspondence(self):
        try:
            env = self.probe_env()
            hbin = build.harness_build(self.harness)
        except build.BuildError as e:
            self.broken_ties.append("build: %s: %s" % (e.what, e.output[-800:]))
            return
        cases = self.corpus_cases() + self.gen_cases()
        if not cases:
            return
        t = time.time()
        impl = run.run_harness(hbin, ["%s %s" % (c.cid, c.impl_line) for c in cases], timeout_s=self.case_timeout(),
                               env_extra=env)
        self.stats["impl_s"] = round(time.time() - t, 1)
        t = time.time()
        model = run.run_driver(["%s %s" % (c.cid, c.model_line) for c in cases if c.model_line])
        self.stats["model_s"] = round(time.time() - t, 1)
        if "#driver-error" in model:
            self.broken_ties.append("driver: " + model["#driver-error"][-400:])
        for c in cases:
            self.evaluations += 1
            iraw = impl.get(c.cid)
            if iraw is None:
                self.record_violation("harness lost case", c, "?", {})
                continue
            m = fields(model.get(c.cid, ""), self.MODEL_KEYS) if c.model_line else {}
            self.judge(c, iraw, m, impl.get(c.cid + "#stderr", ""))

    def known(self, kf):
        return next((f for f in self.findings if f["id"] == kf and f.get("status", "known") == "known"), None)

    def hit(self, kf, c, iout):
        e = self.known(kf)
        if e is not None:
            self.known_hits.setdefault(kf, {"what": e["what"], "example": (c.model_line or c.impl_line)[:300], "impl": iout[:200]})
        return e is not None
